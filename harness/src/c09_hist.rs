//! C09, oracle breadth: operation histories on ZipIntVec (every public entry point, two vectors so that `swap` has a partner),
//! and the "big" family: inputs described by (container, kind, n, seed) whose sizes cross 2^16 / 2^20 and the 64 KiB marks.
//! Judged by a shadow Vec only; nothing here is sent to the Coq model.
use super::Ctx;
use crate::util::*;
use serde_json::{json, Value};
use zipora::containers::specialized::{IntVec, UintVector};
use zipora::containers::{UintVecMin0, ZipIntVec};
use zipora::blob_store::sorted_uint_vec::{SortedUintVec, SortedUintVecBuilder, SortedUintVecConfig};

/// a ZipIntVec and what a Vec would hold: None = not constrained (grown by resize / re-ranged)
struct ZS { z: ZipIntVec, sh: Vec<Option<u64>>, lo: u64, hi: u64 }
impl ZS { fn empty() -> ZS { ZS { z: ZipIntVec::new_empty(), sh: vec![], lo: 0, hi: 0 } } }

pub const ZIP_OPS: &[&str] = &["new", "new_empty", "build_from_usize", "build_from_u32", "set", "get", "get2", "back", "push_back", "resize",
    "resize_with_range", "clear", "shrink_to_fit", "swap", "clone", "fast_get", "default", "accessors"];

/// ops: 0 new(num,min,max) 1 new_empty 2 build_from_usize(vals) 3 build_from_u32(vals) 4 set(i,v) 5 get(i) 6 get2(i) 7 back 8 push_back(v)
/// 9 resize(n) 10 resize_with_range(num,min,max) 11 clear 12 shrink_to_fit 13 swap with the second vector 14 clone (the original is dropped)
/// 15 static fast_get(i) over data()/uintbits()/uintmask()/min_val() 16 Default 17 accessors (max_val, inner, mem_size, is_empty)
pub fn zip_history(cx: &mut Ctx, ops: &[(u32, Vec<u64>)]) {
    let cell = "ZipIntVec/history";
    cx.sum.eval(cell, &format!("{:?}", ops), ops.len() >= 3);
    cx.sum.cell_status(cell, "S-only");
    let cj = json!({"cell": "ziphist", "ops": ops.iter().map(|(o, a)| json!([o, a.iter().map(|x| x.to_string()).collect::<Vec<_>>()])).collect::<Vec<_>>()});
    let mut a_ = ZS::empty();
    let mut b_ = ZS::empty();
    let known = |s: &Vec<Option<u64>>, i: usize, x: usize| -> bool { match s.get(i) { Some(Some(w)) => *w == x as u64, _ => true } };
    for (op, a) in ops {
        cx.sum.dist(&format!("zip_op_{}", ZIP_OPS.get(*op as usize).unwrap_or(&"?")));
        let a0 = a.get(0).copied().unwrap_or(0) as usize;
        let a1 = a.get(1).copied().unwrap_or(0) as usize;
        let a2 = a.get(2).copied().unwrap_or(0) as usize;
        let n = a_.sh.len();
        let mut must_refuse: Option<bool> = None; // Some(true): has to be refused; Some(false): has to be carried out; None: either
        let mut bad: Option<String> = None;
        // the mutating operations work on the vector itself: a refused one leaves *this* object behind and the history goes on with it
        // (`before` is put back only after a panic that is reported as a failure)
        let before = if matches!(*op, 4 | 8 | 9 | 10 | 12) { Some(a_.z.clone()) } else { None };
        let mut refused_in_place = false;
        let r: Result<(), String> = match op {
            0 => { must_refuse = Some(a1 >= a2);
                   guarded(|| ZipIntVec::new(a0, a1, a2)).map(|z| { a_ = ZS { z, sh: vec![Some(a1 as u64); a0], lo: a1 as u64, hi: a2 as u64 }; }) }
            1 => { a_ = ZS::empty(); Ok(()) }
            2 => { let src: Vec<usize> = a.iter().map(|&x| x as usize).collect(); must_refuse = Some(false);
                   guarded(|| ZipIntVec::build_from_usize(&src)).map(|z| { a_ = ZS { z, sh: a.iter().map(|&x| Some(x)).collect(), lo: a.iter().min().copied().unwrap_or(0), hi: a.iter().max().copied().unwrap_or(0) }; }) }
            3 => { let src: Vec<u32> = a.iter().map(|&x| x as u32).collect(); must_refuse = Some(false);
                   guarded(|| ZipIntVec::build_from_u32(&src)).map(|z| { a_ = ZS { z, sh: src.iter().map(|&x| Some(x as u64)).collect(), lo: src.iter().min().copied().unwrap_or(0) as u64, hi: src.iter().max().copied().unwrap_or(0) as u64 }; }) }
            4 => { // inside the declared range and the size: has to be stored; outside the size or below the minimum: has to be refused
                   must_refuse = if a0 >= n || (a1 as u64) < a_.lo { Some(true) } else if (a1 as u64) <= a_.hi { Some(false) } else { None };
                   { let z = &mut a_.z; guarded(move || { z.set(a0, a1); }) }.map(|_| { if a0 < n { a_.sh[a0] = Some(a1 as u64); } }) }
            5 => { must_refuse = Some(a0 >= n); let z2 = &a_.z; // Some(false): an index below the size has to be answered
                   guarded(move || z2.get(a0)).map(|x| { if !known(&a_.sh, a0, x) { bad = Some(format!("get({}) = {} but a Vec holds {:?}", a0, x, a_.sh[a0])); } }) }
            6 => { must_refuse = Some(a0.checked_add(1).map_or(true, |j| j >= n)); let z2 = &a_.z;
                   guarded(move || z2.get2(a0)).map(|[x, y]| { if !known(&a_.sh, a0, x) || !known(&a_.sh, a0 + 1, y) { bad = Some(format!("get2({}) = [{}, {}] but a Vec holds {:?}, {:?}", a0, x, y, a_.sh.get(a0), a_.sh.get(a0 + 1))); } }) }
            7 => { must_refuse = Some(n == 0); let z2 = &a_.z;
                   guarded(move || z2.back()).map(|x| { if n > 0 && !known(&a_.sh, n - 1, x) { bad = Some(format!("back() = {} but a Vec holds {:?}", x, a_.sh[n - 1])); } }) }
            8 => { must_refuse = Some((a0 as u64) < a_.lo);
                   { let z = &mut a_.z; guarded(move || { z.push_back(a0); }) }.map(|_| { a_.sh.push(Some(a0 as u64)); a_.hi = a_.hi.max(a0 as u64); }) }
            9 => { must_refuse = Some(false); 
                   { let z = &mut a_.z; guarded(move || { z.resize(a0); }) }.map(|_| { a_.sh.resize(a0, None); }) }
            10 => { must_refuse = Some(a1 >= a2);
                   let fresh = a_.z.inner().mem_size() == 0;
                   { let z = &mut a_.z; guarded(move || { z.resize_with_range(a0, a1, a2); }) }.map(|_| { a_.lo = a1 as u64; a_.hi = a2 as u64;
                       // a new range reinterprets what is stored: nothing is promised about the old elements (a vector that never held memory is all `min`)
                       a_.sh = vec![if fresh { Some(a1 as u64) } else { None }; a0]; }) }
            11 => { a_.z.clear(); a_.sh.clear(); a_.lo = 0; a_.hi = 0; Ok(()) }
            12 => { must_refuse = Some(false); { let z = &mut a_.z; guarded(move || { z.shrink_to_fit(); }) } }
            13 => { a_.z.swap(&mut b_.z); std::mem::swap(&mut a_.sh, &mut b_.sh); std::mem::swap(&mut a_.lo, &mut b_.lo); std::mem::swap(&mut a_.hi, &mut b_.hi); Ok(()) }
            14 => { let c = a_.z.clone(); a_.z = c; Ok(()) }
            15 => { if a_.z.uintbits() > 58 { Ok(()) } else { let z2 = &a_.z;
                   guarded(move || ZipIntVec::fast_get(z2.data(), z2.uintbits(), z2.uintmask(), z2.min_val(), a0).ok()).map(|g| match g {
                       Some(x) => { if a0 < n && !known(&a_.sh, a0, x) { bad = Some(format!("fast_get({}) = {} but a Vec holds {:?}", a0, x, a_.sh[a0])); }
                                    if a0 >= n && (a0 as u128 * a_.z.uintbits() as u128) / 8 + 8 > a_.z.data().len() as u128 { bad = Some(format!("fast_get({}) over {} bytes of {}-bit fields returned {} instead of the out-of-bounds error", a0, a_.z.data().len(), a_.z.uintbits(), x)); } }
                       None => if a0 < n { bad = Some(format!("fast_get({}) refuses an index below size {}", a0, n)); } }) } }
            16 => { a_ = ZS { z: ZipIntVec::default(), sh: vec![], lo: 0, hi: 0 }; Ok(()) }
            _ => { // housekeeping accessors between the operations; every stored value lies in min_val()..=max_val()
                   let z = &a_.z; let _ = (z.mem_size(), z.uintmask(), z.inner().size());
                   if z.uintbits() <= 58 { for (i, w) in a_.sh.iter().enumerate() { if let Some(w) = w { if *w < z.min_val() as u64 || *w > z.max_val() as u64 { bad = Some(format!("element {} = {} outside min_val() {} ..= max_val() {}", i, w, z.min_val(), z.max_val())); } } } }
                   Ok(()) }
        };
        // the recorded finding is about ranges needing more than 58 bits: the arguments that carry a value or a range, not the indices
        let lim = 1u64 << 58;
        let wide_arg = match op { 0 | 10 => (a2 as u64).saturating_sub(a1 as u64) >= lim, 2 | 3 => a.iter().max().copied().unwrap_or(0) - a.iter().min().copied().unwrap_or(0) >= lim,
            4 => (a1 as u64).saturating_sub(a_.lo) >= lim, 8 => (a0 as u64).saturating_sub(a_.lo) >= lim, _ => false };
        let wide = a_.z.uintbits() > 58 || b_.z.uintbits() > 58 || a_.hi - a_.lo.min(a_.hi) >= lim || wide_arg;
        let class = if wide { Some("min0_width_above_58") } else { None };
        match r {
            Ok(()) => { if must_refuse == Some(true) && bad.is_none() { bad = Some(format!("{} {:?} on {} elements in {}..={} was not refused", ZIP_OPS[*op as usize], a, n, a_.lo, a_.hi)); } }
            Err(msg) => {
                // reading an element nothing was stored in (grown by resize, re-ranged) is not constrained: min_val + stale bits may even overflow
                let unknown_read = match op { 5 | 15 => matches!(a_.sh.get(a0), Some(None)), 6 => matches!(a_.sh.get(a0), Some(None)) || matches!(a_.sh.get(a0.wrapping_add(1)), Some(None)), 7 => matches!(a_.sh.last(), Some(None)), _ => false };
                if must_refuse == Some(false) && !unknown_read { cx.sum.fail(cell, class, cj.clone(), &format!("{} {:?} on {} elements panicked: {}", ZIP_OPS[*op as usize], a, n, msg)); if let Some(b) = &before { a_.z = b.clone(); } }
                else if before.is_some() { refused_in_place = true; cx.sum.dist(&format!("zip_refused_{}", ZIP_OPS[*op as usize])); } }
        }
        if let Some(d) = bad { cx.sum.fail(cell, class, cj.clone(), &d); }
        if !super::min0_carries_last_load(a_.z.inner()) || !super::min0_carries_last_load(b_.z.inner()) {
            cx.sum.fail(cell, class, cj.clone(), &format!("after {} {:?}: the allocation of {} bytes does not carry the 8-byte load of the last of {} fields of {} bits", ZIP_OPS[*op as usize], a, a_.z.inner().mem_size(), a_.z.size(), a_.z.uintbits()));
            return; // reading on would be undefined behaviour
        }
        if a_.z.size() != a_.sh.len() || a_.z.is_empty() != a_.sh.is_empty() { cx.sum.fail(cell, class, cj.clone(), &format!("size {} but a Vec holds {}", a_.z.size(), a_.sh.len())); return; }
        if refused_in_place {
            // the refused operation changed nothing: every element the shadow knows reads back as before
            for i in 0..a_.sh.len().min(300) {
                if let Some(w) = a_.sh[i] {
                    let got = { let z = &a_.z; guarded(move || z.get(i)) };
                    if got.as_ref().ok().map(|x| *x as u64) != Some(w) { cx.sum.fail(cell, class, cj.clone(), &format!("after the refused {} {:?}: element {} reads {:?} but a Vec holds {}", ZIP_OPS[*op as usize], a, i, got, w)); break; }
                }
            }
        }
    }
}

/// Deterministic family "refused operations inside histories" for ZipIntVec: a vector over lo..=hi is filled, then every documented refusal
/// (set at / beyond the size, set and push_back below the minimum, new / resize_with_range with min >= max, get / get2 / back beyond the
/// end) sits between operations that are carried out, with the second vector parked by swap; everything is read back at the end.
pub fn refused_zip_histories() -> Vec<Vec<(u32, Vec<u64>)>> {
    let mut out = vec![];
    for (wi, &w) in [1u32, 7, 8, 9, 31, 32, 33, 57].iter().enumerate() {
        let span = (1u64 << w) - 1;
        let lo = [1000u64, 1, 1u64 << 40, 5][wi % 4];
        let hi = lo + span;
        let n = [1u64, 8, 9, 33][wi % 4];
        let mut ops: Vec<(u32, Vec<u64>)> = vec![(0, vec![n, lo, hi])];
        for i in 0..n { ops.push((4, vec![i, if i % 2 == 0 { hi } else { lo + span / 2 }])); }
        ops.push((4, vec![n, lo]));          // index = size
        ops.push((4, vec![0, lo - 1]));      // below the minimum, at an element that holds the maximum
        ops.push((8, vec![lo - 1]));         // push below the minimum
        ops.push((10, vec![n + 3, hi, lo])); // a range with min > max
        ops.push((10, vec![n + 3, lo, lo])); // min = max
        ops.push((5, vec![n])); ops.push((6, vec![n - 1])); ops.push((6, vec![u64::MAX]));
        ops.push((8, vec![lo]));             // carried out
        ops.push((4, vec![n + 1, lo]));      // refused, one beyond the new size
        ops.push((13, vec![])); ops.push((7, vec![])); ops.push((4, vec![0, 0])); ops.push((13, vec![])); // the empty partner refuses back / set
        ops.push((4, vec![n, hi]));          // carried out
        ops.push((9, vec![n]));              // shrink by one
        ops.push((4, vec![n, lo]));          // now refused
        ops.push((12, vec![])); ops.push((8, vec![lo - 1])); ops.push((14, vec![])); ops.push((4, vec![n - 1, lo - 1]));
        for i in 0..n { ops.push((5, vec![i])); }
        ops.push((7, vec![])); ops.push((17, vec![])); ops.push((5, vec![n]));
        out.push(ops);
    }
    out
}

pub fn gen_zip_history(r: &mut Rng) -> Vec<(u32, Vec<u64>)> {
    let mut ops: Vec<(u32, Vec<u64>)> = vec![];
    let width = if r.chance(1, 2) { r.range(1, 58) as u32 } else { *r.pick(&[1u32, 7, 8, 9, 28, 29, 30, 31, 32, 33, 57, 58]) };
    let span: u64 = (1u64 << width) - 1;
    let lo: u64 = match r.below(5) { 0 => 0, 1 => 1000, 2 => u64::MAX - span, 3 => (u64::MAX - span).min(1u64 << 40), _ => r.below(u64::MAX - span) };
    let hi = lo + span;
    let val = |r: &mut Rng| match r.below(6) { 0 => lo, 1 => hi, 2 => lo + span / 2 + 1, _ => lo + r.below(span) + r.below(2) };
    // a second vector for swap, with its own range
    if r.chance(1, 3) { let n = r.range(1, 20); let b = r.below(1 << 30); let src: Vec<u64> = (0..n).map(|_| b + r.below(1 << 20)).collect(); ops.push((2, src)); ops.push((13, vec![])); }
    let mut size: u64;
    match r.below(6) {
        0 => { size = r.below(70); ops.push((0, vec![size, lo, hi])); for i in 0..size { if r.chance(4, 5) { ops.push((4, vec![i, val(r)])); } } }
        1 => { size = r.range(1, 70); let mut src: Vec<u64> = (0..size).map(|_| val(r)).collect(); if size >= 2 && r.chance(2, 3) { src[0] = lo; src[size as usize - 1] = hi; } ops.push((2, src)); }
        2 => { size = r.range(1, 70); let l32 = lo.min(u32::MAX as u64 - span.min(u32::MAX as u64)); let src: Vec<u64> = (0..size).map(|_| l32 + r.below(span.min(u32::MAX as u64)) + r.below(2)).collect(); ops.push((3, src));
               // this history lives in the u32 range
               let mut o2 = gen_tail(r, size, l32, l32 + span.min(u32::MAX as u64)); ops.append(&mut o2); return ops; }
        3 => { size = 0; ops.push((0, vec![0, lo, hi])); ops.push((9, vec![0])); }
        4 => { size = r.below(40); ops.push((if r.chance(1, 2) { 1 } else { 16 }, vec![])); ops.push((10, vec![size, lo, hi])); }
        _ => { size = 0; ops.push((1, vec![])); let mut o2 = gen_tail(r, 0, 0, span); ops.append(&mut o2); return ops; }
    }
    let mut o2 = gen_tail(r, size, lo, hi); ops.append(&mut o2);
    ops
}

fn gen_tail(r: &mut Rng, mut size: u64, lo: u64, hi: u64) -> Vec<(u32, Vec<u64>)> {
    let mut ops: Vec<(u32, Vec<u64>)> = vec![];
    let span = hi - lo;
    let val = |r: &mut Rng| match r.below(8) { 0 => lo, 1 | 2 => hi, 3 => lo + span / 2 + (span & 1), _ => lo + if span == 0 { 0 } else { r.below(span) + r.below(2) } };
    let idx = |r: &mut Rng, size: u64| if size > 0 && r.chance(9, 10) { r.below(size) } else { size + r.below(2) };
    let nops = r.range(3, 16);
    for _ in 0..nops {
        match r.below(20) {
            0..=2 => { let i = idx(r, size); let v = if r.chance(1, 10) { if r.chance(1, 2) { lo.saturating_sub(1) } else { hi.saturating_add(1) } } else { val(r) }; ops.push((4, vec![i, v])); }
            3 => { let i = idx(r, size); ops.push((5, vec![i])); }
            4 | 5 => { let i = if size > 1 && r.chance(9, 10) { r.below(size - 1) } else if r.chance(1, 8) { u64::MAX } else { size.saturating_sub(1) + r.below(2) }; ops.push((6, vec![i])); }
            6 => ops.push((7, vec![])),
            7..=10 => { let v = if r.chance(1, 12) { lo.saturating_sub(1) } else if r.chance(1, 10) { hi.saturating_add(1 + r.below(3)) } else { val(r) }; ops.push((8, vec![v])); if v >= lo { size += 1; } }
            11 => { let n = if r.chance(1, 2) { r.below(size + 1) } else { size + r.below(20) }; ops.push((9, vec![n])); size = n;
                    // what a grown vector holds is written before it is read
                    if r.chance(1, 2) { for i in 0..size { ops.push((4, vec![i, val(r)])); } } }
            12 => { ops.push((12, vec![])); if r.chance(1, 2) { ops.push((8, vec![val(r)])); size += 1; } }
            13 => ops.push((14, vec![])),
            14 => { let i = if r.chance(1, 6) { *r.pick(&[1u64 << 61, (1u64 << 61) + 1, 1u64 << 58, u64::MAX, u64::MAX / 8 + 1, size + 64]) } else { idx(r, size) }; ops.push((15, vec![i])); }
            15 => ops.push((17, vec![])),
            16 => { // park the vector in the second slot, work on the other one, and take it back
                    ops.push((13, vec![])); ops.push((8, vec![r.below(1 << 20)])); ops.push((7, vec![])); ops.push((13, vec![])); }
            17 => { if r.chance(1, 3) { ops.push((11, vec![])); size = 0; let k = r.below(5); for _ in 0..k { ops.push((8, vec![r.below(hi.max(1))])); size += 1; }
                    for i in 0..size { ops.push((5, vec![i])); } return ops; } }
            18 => { // re-range in place, then everything is rewritten and read
                    let n = r.below(40); let w2 = r.range(1, 58) as u32; let lo2 = r.below(1 << 40); let hi2 = lo2 + ((1u64 << w2) - 1);
                    ops.push((10, vec![n, lo2, hi2]));
                    for i in 0..n { ops.push((4, vec![i, lo2 + r.below(hi2 - lo2) + r.below(2)])); }
                    for i in 0..n { ops.push((5, vec![i])); }
                    for i in 0..n.saturating_sub(1) { ops.push((6, vec![i])); }
                    return ops; }
            _ => { let i = idx(r, size); ops.push((5, vec![i])); }
        }
    }
    for i in 0..size.min(90) { ops.push((5, vec![i])); }
    for i in 0..size.min(90) { ops.push((if i % 2 == 0 { 6 } else { 15 }, vec![i])); }
    ops.push((7, vec![])); ops.push((17, vec![])); ops.push((5, vec![size]));
    ops
}

// ------------------------------------------------------------------------------------------------------------------------------
// big inputs, described by (container, kind, n, seed)

/// kind: 0 small range (w bits), 1 sorted small steps, 2 arithmetic, 3 runs, 4 block bases, 5 full range
pub fn big_values(kind: u64, n: usize, seed: u64, bits: u32) -> Vec<u64> {
    let mut r = Rng::new(seed ^ 0x9E37_79B9_7F4A_7C15 ^ ((kind as u64) << 32) ^ n as u64);
    let m: u64 = if bits >= 64 { u64::MAX } else { (1u64 << bits) - 1 };
    let mut cur = r.below(1000); let mut run = 0u64; let mut rv = 0u64; let mut base = 0u64;
    let mut v: Vec<u64> = (0..n).map(|i| match kind {
        0 => 5 + r.below(m) + r.below(2),
        1 => { cur += r.below(m.min(900) + 1); cur }
        2 => 7 + (i as u64) * (m.min(1000)),
        3 => { if run == 0 { run = 1 + r.below(300); rv = r.below(m) ; } run -= 1; rv }
        4 => { if i % 128 == 0 { base = r.next() >> 8; } base + r.below(m.min(1 << 20)) }
        _ => r.next() & m,
    }).collect();
    // the extremes of a small range sit at the very end (and at 2^16): a width taken from a prefix does not cover them
    if kind == 0 && n >= 2 { v[n - 1] = 5 + m; v[n - 2] = 5; if n > 65536 { v[65536] = 5 + m; } }
    v
}

pub fn big_case(cx: &mut Ctx, c: &Value) {
    let cont = c["container"].as_str().unwrap_or("min0").to_string();
    let kind = c["kind"].as_u64().unwrap_or(0); let n = c["n"].as_u64().unwrap_or(0) as usize; let seed = c["seed"].as_u64().unwrap_or(0);
    let bits = c["bits"].as_u64().unwrap_or(17) as u32;
    let cell = match cont.as_str() { "min0" => "UintVecMin0", "zip" => "ZipIntVec/history", "uintvector" => "UintVector/build_from+push", "sorted" => "SortedUintVec/default",
        "intvec_u8" => "IntVec<u8>/from_slice", "intvec_u16" => "IntVec<u16>/from_slice", "intvec_i32" => "IntVec<i32>/from_slice_bulk_simd", _ => "IntVec<u64>/from_slice" };
    cx.sum.eval(cell, &format!("big {}", c), true);
    cx.sum.dist(&format!("big_{}", cont));
    let vals = big_values(kind, n, seed, bits);
    let probe: Vec<usize> = { let mut r = Rng::new(seed); let mut p: Vec<usize> = (0..n.min(300)).chain(n.saturating_sub(300)..n).collect();
        for b in [1usize << 12, 1 << 13, 1 << 16, 1 << 20, 65535 * 8 / bits.max(1) as usize, (1 << 19) / bits.max(1) as usize] { for d in 0..6 { if b + d >= 3 && b + d - 3 < n { p.push(b + d - 3); } } }
        for _ in 0..400 { if n > 0 { p.push(r.below(n as u64) as usize); } } p.sort(); p.dedup(); p };
    let cj = c.clone();
    let t0 = std::time::Instant::now();
    let r: Result<Option<String>, String> = guarded(|| -> Option<String> {
        match cont.as_str() {
            "min0" => {
                let src: Vec<usize> = vals.iter().map(|&x| x as usize).collect(); let half = n / 2;
                let (mut v, mn) = UintVecMin0::build_from_usize(&src[..half]);
                let mn2 = src[half..].iter().min().copied().unwrap_or(mn).min(mn);
                // the second half by push_back (offsets relative to the minimum of the first half; smaller values are lifted)
                for &x in &src[half..] { v.push_back(x.max(mn) - mn); }
                let _ = mn2;
                v.shrink_to_fit();
                if !super::min0_carries_last_load(&v) { return Some(format!("after shrink_to_fit the allocation of {} bytes does not carry the 8-byte load of the last of {} fields of {} bits", v.mem_size(), v.size(), v.uintbits())); }
                if v.size() != n { return Some(format!("size {} want {}", v.size(), n)); }
                for &i in &probe { let want = src[i].max(mn) - mn; if v.get(i) != want { return Some(format!("element {} reads back {}, stored {}", i, v.get(i), want)); }
                    if i + 1 < n { let w2 = src[i + 1].max(mn) - mn; if v.get2(i) != [want, w2] { return Some(format!("get2({}) = {:?}, stored [{}, {}]", i, v.get2(i), want, w2)); } } }
                None }
            "zip" => {
                let src: Vec<usize> = vals.iter().map(|&x| x as usize).collect(); let half = n / 2;
                let mut z = ZipIntVec::build_from_usize(&src[..half]); let mn = z.min_val();
                for &x in &src[half..] { z.push_back(x.max(mn)); }
                let z = z.clone();
                if z.size() != n { return Some(format!("size {} want {}", z.size(), n)); }
                for &i in &probe { let want = src[i].max(mn); if z.get(i) != want { return Some(format!("element {} reads back {}, stored {}", i, z.get(i), want)); } }
                None }
            "uintvector" => {
                let src: Vec<u32> = vals.iter().map(|&x| x as u32).collect(); let split = n - n.min(130);
                let mut u = match UintVector::build_from(&src[..split]) { Ok(u) => u, Err(_) => return None };
                for &x in &src[split..] { if u.push(x).is_err() { return None; } }
                if u.len() != n { return Some(format!("len {} want {}", u.len(), n)); }
                for &i in &probe { if u.get(i) != Some(src[i]) { return Some(format!("element {} reads back {:?}, stored {}", i, u.get(i), src[i])); } }
                if u.get(n).is_some() { return Some("read past the end not refused".into()); }
                None }
            "sorted" => {
                let mut b = SortedUintVecBuilder::with_config(SortedUintVecConfig::default());
                if b.extend(vals.iter().copied()).is_err() { return None; }
                let sv = match b.finish() { Ok(s) => s, Err(_) => return None };
                let sv = match SortedUintVec::from_bytes(&sv.to_bytes()) { Ok(s) => s, Err(e) => return Some(format!("from_bytes(to_bytes()) refused: {:?}", e)) };
                if sv.len() != n { return Some(format!("len {} want {}", sv.len(), n)); }
                for &i in &probe { if sv.get(i).ok() != Some(vals[i]) { return Some(format!("element {} reads back {:?}, stored {}", i, sv.get(i).ok(), vals[i])); } }
                let mut out = vec![0u64; 64];
                for &i in &probe { let bk = i / 64; if sv.get_block(bk, &mut out).is_err() { return Some(format!("get_block({}) refused", bk)); }
                    let want = &vals[bk * 64..(bk * 64 + 64).min(n)]; if &out[..want.len()] != want { return Some(format!("get_block({}) differs", bk)); } }
                if sv.get(n).is_ok() { return Some("read past the end not refused".into()); }
                None }
            _ => {
                macro_rules! iv { ($t:ty, $ctor:ident) => {{
                    let src: Vec<$t> = vals.iter().map(|&x| x as $t).collect();
                    let iv = match IntVec::<$t>::$ctor(&src) { Ok(v) => v, Err(_) => return None };
                    let iv2 = iv.clone(); drop(iv);
                    if iv2.len() != n { return Some(format!("len {} want {}", iv2.len(), n)); }
                    for &i in &probe { if iv2.get(i) != Some(src[i]) { return Some(format!("element {} reads back {:?}, stored {}", i, iv2.get(i), src[i])); } }
                    if iv2.get(n).is_some() { return Some("read past the end not refused".into()); }
                    None }}; }
                match cont.as_str() { "intvec_u8" => iv!(u8, from_slice), "intvec_u16" => iv!(u16, from_slice), "intvec_i32" => iv!(i32, from_slice_bulk_simd), _ => iv!(u64, from_slice) } }
        }
    });
    if std::env::var("C09_LOUD").is_ok() { eprintln!("big {} {:?}", c, t0.elapsed()); }
    match r { Err(p) => cx.sum.fail(cell, None, cj, &format!("panicked: {}", p)), Ok(Some(d)) => cx.sum.fail(cell, None, cj, &d), Ok(None) => {} }
}

pub fn gen_big(cx: &mut Ctx, r: &mut Rng) {
    let seed = r.next() >> 1;
    let sizes = [65535usize, 65536, 65537, (1 << 20) + 1];
    for (k, cont) in ["min0", "zip", "uintvector", "sorted", "intvec_u8", "intvec_u16", "intvec_i32", "intvec_u64"].iter().enumerate() {
        for (j, &n) in sizes.iter().enumerate() {
            let kinds: &[u64] = match *cont { "sorted" => &[1, 2], "uintvector" => &[0, 3, 5, 1], "min0" | "zip" => &[0, 5], "intvec_u8" => &[0, 3, 5], _ => &[0, 1, 2, 4, 5] };
            let kind = kinds[(j + k + seed as usize) % kinds.len()];
            let bits: u32 = match *cont { "intvec_u8" => *r.pick(&[3u32, 7, 8]), "intvec_u16" => *r.pick(&[9u32, 15, 16]), "uintvector" | "intvec_i32" => *r.pick(&[1u32, 13, 17, 31]),
                "sorted" => 9, "min0" | "zip" => *r.pick(&[1u32, 7, 13, 17, 31, 33, 57]), _ => *r.pick(&[1u32, 17, 33, 47, 48, 63]) };
            // UintVector recompresses everything every 64 pushes: keep the pushed tail short there (big_case pushes 130)
            let n = if ((cont.starts_with("intvec") && kind == 1) || (*cont == "uintvector" && kind == 3)) && n > (1 << 17) { (1 << 17) + 1 } else { n }; // a run-length vector is recompressed in O(n * runs) // a non-uniform delta vector is read in O(index)
            big_case(cx, &json!({"cell": "big", "container": cont, "kind": kind, "n": n, "seed": seed, "bits": bits}));
        }
    }
}
