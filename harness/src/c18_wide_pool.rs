// (included by c18_wide.rs)
// ---------------------------------------------------------------------------------------------
// cell: one FiberPool through a history of different operations (presets and the builder; failing, panicking and aborted
// fibers leave the pool behind for the next operation; unit / String / byte items)
// ---------------------------------------------------------------------------------------------

/// preset: 0 FiberPool::new(explicit config), 1 FiberPoolBuilder::new() with every setter, 2 FiberPool::default(),
/// 3 FiberPoolBuilder::default().max_fibers(mf), 4 FiberPoolConfig { max_fibers, ..default }
fn pool_build(preset: u64, mf: usize, mw: usize) -> ZResult<FiberPool> {
    match preset {
        0 => FiberPool::new(pool_cfg(mf, mw)),
        1 => FiberPoolBuilder::new().max_fibers(mf).initial_workers(1).max_workers(mw).queue_capacity(16).idle_timeout(Duration::from_secs(1)).build(),
        2 => FiberPool::default(),
        3 => FiberPoolBuilder::default().max_fibers(mf).build(),
        _ => FiberPool::new(FiberPoolConfig { max_fibers: mf, ..FiberPoolConfig::default() }),
    }
}

/// ops: kind * 1000 + len.  kinds: 1 parallel_map, 2 with a failing item, 3 with a panicking item, 4 parallel_for_each, 5 with a
/// failing item, 6 parallel_reduce, 7 with a failing item, 8 spawn_batch (every handle awaited), 9 spawn behind gates, every third
/// fiber aborted before its gate opens, 10 unit items, 11 String items, 12 parallel_reduce over byte strings, 13 shutdown(),
/// 14 one spawn, 15 the statistics accessors.  The items of op k are gen_items(seed, k, len).
fn poolops_case(cx: &mut Ctx, rt: usize, preset: u64, mf: usize, mw: usize, seed: u64, ops: &[i64]) {
    let cell = "FiberPool/history (one pool, many operations)";
    let case = json!({"cell": "poolops", "kind": 22, "rt": rt, "preset": preset, "max_fibers": mf, "mw": mw, "seed": seed, "ops": ops});
    cx.sum.eval(cell, &format!("po {} {} {} {} {} {:?}", rt, preset, mf, mw, seed, ops), ops.len() >= 3);
    s_only(cx, cell);
    cx.sum.dist(&format!("poolops_preset={}", preset));
    let opv = ops.to_vec();
    let at = Arc::new(AtomicUsize::new(0));
    let at2 = at.clone();
    let r = guarded(|| with_rt(rt, async move {
        tokio::time::timeout(Duration::from_secs(12), async move {
            let pool = match pool_build(preset, mf, mw) { Ok(p) => p, Err(e) => return Some(format!("the pool could not be built: {:?}", e)) };
            for (k, &o) in opv.iter().enumerate() {
                at2.store(k, Ordering::SeqCst);
                let (kind, len) = (o / 1000, (o % 1000) as usize);
                let pos = if len > 0 { Some((seed as usize + 3 * k) % len) } else { None };
                let bad = |what: String| Some(format!("op {} ({}): {}", k, o, what));
                match kind {
                    1 | 2 | 3 => {
                        let xs = gen_items(seed, k, len, if kind == 2 { pos } else { None }, if kind == 3 { pos } else { None });
                        let want = seq_map(&xs, true);
                        let log = new_log();
                        let l2 = log.clone();
                        let its: Vec<(usize, i64)> = xs.iter().cloned().enumerate().collect();
                        let got = pool.parallel_map(its, move |(i, x): (usize, i64)| { l2.lock().unwrap().push(i); stage_p(x) }).await.ok();
                        wait_bodies(&log, len).await;
                        if got != want { return bad(format!("parallel_map: {}", diff(&got, &want))); }
                        let order: Vec<usize> = log.lock().unwrap().clone();
                        if let Some(p) = visit_problem(&order, len) { return bad(format!("parallel_map: {}", p)); }
                    }
                    4 | 5 => {
                        let xs = gen_items(seed, k, len, if kind == 5 { pos } else { None }, None);
                        let log = new_log();
                        let l2 = log.clone();
                        let its: Vec<(usize, i64)> = xs.iter().cloned().enumerate().collect();
                        let ok = pool.parallel_for_each(its, move |(i, x): (usize, i64)| { l2.lock().unwrap().push(i); stage(x).map(|_| ()) }).await.is_ok();
                        wait_bodies(&log, len).await;
                        if ok != seq_map(&xs, false).is_some() { return bad(format!("parallel_for_each returned ok = {}", ok)); }
                        let order: Vec<usize> = log.lock().unwrap().clone();
                        if let Some(p) = visit_problem(&order, len) { return bad(format!("parallel_for_each: {}", p)); }
                    }
                    6 | 7 => {
                        let xs = gen_items(seed, k, len, if kind == 7 { pos } else { None }, None);
                        let items: Vec<Vec<i64>> = xs.iter().map(|&x| vec![x]).collect();
                        let got = pool.parallel_reduce(items, vec![], |mut a: Vec<i64>, b: Vec<i64>| -> ZResult<Vec<i64>> {
                            if b.iter().any(|x| x.rem_euclid(16) == 13) { return Err(ZiporaError::invalid_data("reduce failed")); }
                            a.extend(b);
                            Ok(a)
                        }).await.ok();
                        let want = if kind == 7 && len > 0 { None } else { Some(xs.clone()) };
                        if got != want { return bad(format!("parallel_reduce: {}", diff(&got, &want))); }
                    }
                    8 => {
                        let xs = gen_items(seed, k, len, if len % 2 == 1 { pos } else { None }, None);
                        let hs = pool.spawn_batch(xs.iter().cloned().map(|x| async move { tokio::task::yield_now().await; stage(x) }));
                        if hs.len() != len { return bad(format!("spawn_batch returned {} handles for {} futures", hs.len(), len)); }
                        for (i, h) in hs.into_iter().enumerate() {
                            let got = h.await.ok();
                            if got != stage(xs[i]).ok() { return bad(format!("spawn_batch: handle {} yields {:?}, its own future yields {:?}", i, got, stage(xs[i]).ok())); }
                        }
                    }
                    9 => {
                        let log = new_log();
                        let mut txs = vec![];
                        let mut hs = vec![];
                        for i in 0..len {
                            let (tx, rx) = tokio::sync::oneshot::channel::<()>();
                            txs.push(tx);
                            let l2 = log.clone();
                            hs.push(pool.spawn(async move { let _ = rx.await; l2.lock().unwrap().push(i); Ok(100 + i as i64) }));
                        }
                        for _ in 0..len + 4 { tokio::task::yield_now().await; }
                        for (i, h) in hs.iter().enumerate() {
                            let _ = (h.id(), h.elapsed());
                            if h.is_finished() { return bad(format!("spawn: handle {} is finished although its body is still waiting", i)); }
                            if i % 3 == 1 { h.abort(); }
                        }
                        for tx in txs { let _ = tx.send(()); }
                        for (i, h) in hs.into_iter().enumerate() {
                            let got = h.await.ok();
                            let want = if i % 3 == 1 { None } else { Some(100 + i as i64) };
                            if got != want { return bad(format!("spawn/abort: handle {} yields {:?}, want {:?} (every third fiber was aborted before it could run)", i, got, want)); }
                        }
                        let ran = log.lock().unwrap().clone();
                        let mut seen = vec![0u32; len];
                        for &i in &ran { seen[i] += 1; }
                        if let Some(i) = (0..len).find(|&i| seen[i] != if i % 3 == 1 { 0 } else { 1 }) { return bad(format!("spawn/abort: body {} ran {} times", i, seen[i])); }
                    }
                    10 => {
                        let got = pool.parallel_map(vec![(); len], |()| -> ZResult<()> { Ok(()) }).await.ok().map(|v| v.len());
                        if got != Some(len) { return bad(format!("parallel_map over {} unit items returned {:?} results", len, got)); }
                        let cnt = Arc::new(AtomicUsize::new(0));
                        let c2 = cnt.clone();
                        let ok = pool.parallel_for_each(vec![(); len], move |()| { c2.fetch_add(1, Ordering::SeqCst); Ok(()) }).await.is_ok();
                        if !ok || cnt.load(Ordering::SeqCst) != len { return bad(format!("parallel_for_each over {} unit items: ok = {}, {} visits", len, ok, cnt.load(Ordering::SeqCst))); }
                    }
                    11 => {
                        let xs = gen_items(seed, k, len, if len % 2 == 0 { pos } else { None }, None);
                        let strs: Vec<String> = xs.iter().map(|x| x.to_string()).collect();
                        let got = pool.parallel_map(strs, |s: String| -> ZResult<String> { stage(s.parse::<i64>().unwrap()).map(|y| format!("<{}>", y)) }).await.ok();
                        let want = seq_map(&xs, false).map(|v| v.iter().map(|y| format!("<{}>", y)).collect::<Vec<_>>());
                        if got != want { return bad(format!("parallel_map over Strings: {}", diff(&got, &want))); }
                    }
                    12 => {
                        let xs = gen_items(seed, k, len, None, None);
                        let items: Vec<Vec<u8>> = xs.iter().map(|&x| vec![x as u8]).collect();
                        let got = pool.parallel_reduce(items, vec![], |mut a: Vec<u8>, b: Vec<u8>| -> ZResult<Vec<u8>> { a.extend(b); Ok(a) }).await.ok();
                        let want = Some(xs.iter().map(|&x| x as u8).collect::<Vec<u8>>());
                        if got != want { return bad(format!("parallel_reduce over bytes: {}", diff(&got, &want))); }
                    }
                    13 => {
                        match tokio::time::timeout(Duration::from_secs(3), pool.shutdown()).await {
                            Ok(Ok(())) => {}
                            Ok(Err(e)) => return bad(format!("shutdown() failed: {:?}", e)),
                            Err(_) => return bad("shutdown() did not return within 3 s although every fiber spawned so far can finish".to_string()),
                        }
                    }
                    14 => {
                        let x = gen_items(seed, k, 1, if len % 2 == 1 { Some(0) } else { None }, None)[0];
                        let got = pool.spawn(async move { tokio::task::yield_now().await; stage(x) }).await.ok();
                        if got != stage(x).ok() { return bad(format!("spawn: the handle yields {:?}, the future yields {:?}", got, stage(x).ok())); }
                    }
                    _ => { let st = pool.stats(); let _ = (st.total_spawned, pool.load_factor(), pool.is_at_capacity()); }
                }
            }
            None
        }).await
    }));
    match r {
        Err(p) => cx.sum.fail(cell, None, case, &format!("op {} panicked: {}", at.load(Ordering::SeqCst), p)),
        Ok(Err(_)) => cx.sum.fail(cell, None, case, &format!("op {} did not return (12 s)", at.load(Ordering::SeqCst))),
        Ok(Ok(Some(p))) => cx.sum.fail(cell, None, case, &p),
        Ok(Ok(None)) => {}
    }
}
