//! C09, SortedUintVec + SortedUintVecBuilder: oracle (push / finish / get / get2 / get_block / len against a Vec)
//! and the observation record that the Coq model (coq/C09/ModelSorted.v) must reproduce.
use super::Ctx;
use crate::util::*;
use serde_json::json;
use zipora::blob_store::sorted_uint_vec::{SortedUintVec, SortedUintVecBuilder, SortedUintVecConfig};

#[derive(Clone, Copy, Debug)]
pub struct SCfg { pub log2: u8, pub ow: u8, pub sw: u8, pub simd: bool }

pub fn preset(p: usize) -> SCfg {
    let c = match p { 0 => SortedUintVecConfig::default(), 1 => SortedUintVecConfig::performance_optimized(), _ => SortedUintVecConfig::memory_optimized() };
    SCfg { log2: c.log2_block_units, ow: c.offset_width, sw: c.sample_width, simd: c.use_simd }
}

fn cfg_valid(c: &SCfg) -> bool { (4..=8).contains(&c.log2) && (8..=32).contains(&c.ow) && (16..=64).contains(&c.sw) && !(58..=63).contains(&c.sw) }

pub const VIAS: &[&str] = &["push", "extend", "push+extend", "new/default builder", "with_pool", "builder reused after a refusal"];

/// A builder that has refused a value (push) or stopped in the middle of an `extend` is still a builder: what it accepted before and
/// what it accepts afterwards is what `finish` has to store.  Oracle only (the model's builder stops at the first refusal).
fn sorted_case_reuse(cx: &mut Ctx, cell: &str, cfg: SortedUintVecConfig, bs: usize, vals: &[u64], cj: serde_json::Value) {
    let r = guarded(|| -> Result<Option<String>, String> {
        let mut b = SortedUintVecBuilder::with_config(cfg);
        let mut acc: Vec<u64> = vec![];
        let mut k = 0usize;
        while k < vals.len() {
            if k % 7 == 3 { // a chunk through extend: it stops at the first value it refuses
                let ch = &vals[k..(k + 5).min(vals.len())];
                // the shadow follows the builder's answers (the property lets it refuse): extend stops at the first refusal, len() says where
                let res = b.extend(ch.iter().copied());
                let taken = if res.is_ok() { ch.len() } else { b.len().saturating_sub(acc.len()).min(ch.len()) };
                acc.extend_from_slice(&ch[..taken]);
                k += ch.len();
            } else {
                let v = vals[k];
                if b.push(v).is_ok() { acc.push(v); }
                k += 1;
            }
            if b.len() != acc.len() { return Ok(Some(format!("builder len {} after {} accepted values", b.len(), acc.len()))); }
        }
        match b.finish() { Err(_) => Err("refused".into()), Ok(sv) => Ok(reread(&sv, &acc, bs).map(|d| format!("{} accepted values: {}", acc.len(), d))) }
    });
    match r { Err(p) => cx.sum.fail(cell, None, cj, &format!("panicked: {}", p)), Ok(Err(_)) => cx.sum.dist("sorted_build_refused"), Ok(Ok(Some(d))) => cx.sum.fail(cell, None, cj, &d), Ok(Ok(None)) => cx.sum.dist("sorted_build_ok") }
}

/// everything the property says about a built vector, read through `sv` (used for the images rebuilt by from_bytes)
fn reread(sv: &SortedUintVec, vals: &[u64], bs: usize) -> Option<String> {
    let n = vals.len();
    if sv.len() != n || sv.is_empty() != (n == 0) { return Some(format!("len {} / is_empty {} for {} elements", sv.len(), sv.is_empty(), n)); }
    for i in 0..n { if sv.get(i).ok() != Some(vals[i]) { return Some(format!("element {} reads back {:?}, stored {}", i, sv.get(i).ok(), vals[i])); } }
    for i in 0..n.saturating_sub(1) { if sv.get2(i).ok() != Some((vals[i], vals[i + 1])) { return Some(format!("get2({}) = {:?}", i, sv.get2(i).ok())); } }
    if sv.get(n).is_ok() || sv.get(n + 1).is_ok() || sv.get(usize::MAX).is_ok() || sv.get2(n.saturating_sub(1)).is_ok() { return Some("read past the end not refused".into()); }
    let nb = (n + bs - 1) / bs;
    // a buffer larger than a block is fine, one smaller than a block has to be refused (or filled correctly), never a panic
    for b in 0..nb { let want = &vals[b * bs..((b + 1) * bs).min(n)];
        let mut o = vec![0xDEAD_BEEF_u64; bs + 3];
        if sv.get_block(b, &mut o).is_err() { return Some(format!("get_block({}) into a buffer of {} refused", b, bs + 3)); }
        if &o[..want.len()] != want { return Some(format!("get_block({}) into a larger buffer differs at {:?}", b, o.iter().zip(want).position(|(x, y)| x != y))); }
        let mut small = vec![0xDEAD_BEEF_u64; bs - 1];
        if sv.get_block(b, &mut small).is_ok() && small[..want.len().min(bs - 1)] != want[..want.len().min(bs - 1)] { return Some(format!("get_block({}) into a short buffer accepted and wrong", b)); } }
    let mut o = vec![0u64; bs];
    if sv.get_block(nb, &mut o).is_ok() { return Some("get_block past the end not refused".into()); }
    None
}

pub fn sorted_case(cx: &mut Ctx, c: SCfg, vals: &[u64], force_coq: bool) { sorted_case_via(cx, c, vals, force_coq, 0) }

/// `via`: how the builder is fed (VIAS); the model knows one way only, which all of them have to agree with
pub fn sorted_case_via(cx: &mut Ctx, c: SCfg, vals: &[u64], force_coq: bool, via: u32) {
    let name = match (c.log2, c.ow, c.sw, c.simd) { (6, 16, 32, true) => "default".to_string(), (7, 20, 40, true) => "performance".to_string(), (6, 12, 24, false) => "memory".to_string(),
        _ => format!("custom/block{}", 1u32 << c.log2.min(20)) };
    let cell = format!("SortedUintVec/{}", name);
    cx.sum.eval(&cell, &format!("{:?} {:?}", c, vals), vals.len() >= 2);
    cx.sum.cell_status(&cell, "M+S");
    let cj = json!({"cell": "sorted", "cfg": [c.log2, c.ow, c.sw, c.simd as u8], "via": via, "values": vals.iter().map(|v| v.to_string()).collect::<Vec<_>>()});
    cx.sum.dist(&format!("sorted_via_{}", VIAS[via as usize % VIAS.len()]));
    let is_default = (c.log2, c.ow, c.sw, c.simd) == (6, 16, 32, true);
    let cfg = SortedUintVecConfig { log2_block_units: c.log2, offset_width: c.ow, sample_width: c.sw, use_simd: c.simd };
    let valid = cfg_valid(&c);
    let bs: usize = if valid { 1usize << c.log2 } else { 64 };
    let nblocks = (vals.len() + bs - 1) / bs;
    let class: Option<&str> = None;
    let sorted_in = vals.windows(2).all(|w| w[0] <= w[1]);
    if via % 6 == 5 { if valid { sorted_case_reuse(cx, &cell, cfg, bs, vals, cj); } return; }
    let r = guarded(|| {
        let mut b = match via % 6 {
            3 if is_default => if vals.len() % 2 == 0 { SortedUintVecBuilder::new() } else { SortedUintVecBuilder::default() },
            4 => match zipora::memory::SecureMemoryPool::new(zipora::memory::SecurePoolConfig::small_secure()).ok().and_then(|p| std::sync::Arc::try_unwrap(p).ok()) {
                     Some(pool) => SortedUintVecBuilder::with_config(cfg).with_pool(pool), None => SortedUintVecBuilder::with_config(cfg) },
            _ => SortedUintVecBuilder::with_config(cfg) };
        if !b.is_empty() { return Err("BUILDER-LEN a new builder is not empty".to_string()); }
        match via % 6 {
            1 => { if b.extend(vals.iter().copied()).is_err() { return Err("push refused".to_string()); } }
            2 => { let k = vals.len() / 2; for &v in &vals[..k] { if b.push(v).is_err() { return Err("push refused".to_string()); } }
                   if b.extend(vals[k..].iter().copied()).is_err() { return Err("push refused".to_string()); } }
            _ => { for &v in vals { if b.push(v).is_err() { return Err("push refused".to_string()); } } } }
        if b.len() != vals.len() || b.is_empty() != vals.is_empty() { return Err(format!("BUILDER-LEN {}", b.len())); }
        b.finish().map_err(|e| format!("{:?}", e))
    });
    if vals.is_empty() && is_default {
        // the constructors of an empty vector: SortedUintVec::new / default / with_config
        match guarded(|| { let a = SortedUintVec::new().map_err(|e| format!("{:?}", e))?; let b = SortedUintVec::default(); let c2 = SortedUintVec::with_config(cfg).map_err(|e| format!("{:?}", e))?;
                           Ok::<_, String>(reread(&a, &[], 64).or(reread(&b, &[], 64)).or(reread(&c2, &[], 64))) }) {
            Err(p) => cx.sum.fail(&cell, None, cj.clone(), &format!("empty constructors panicked: {}", p)),
            Ok(Err(e)) => cx.sum.fail(&cell, None, cj.clone(), &format!("SortedUintVec::new() failed: {}", e)),
            Ok(Ok(Some(d))) => cx.sum.fail(&cell, None, cj.clone(), &format!("empty vector: {}", d)),
            Ok(Ok(None)) => {} }
    }
    let mut obs: Vec<String> = vec![];
    match r {
        Err(p) => { obs.push("[(-1)]%Z".into()); cx.sum.fail(&cell, class, cj.clone(), &format!("build panicked: {}", p)); }
        Ok(Err(e)) => {
            obs.push("[1]%Z".into());
            cx.sum.dist("sorted_build_refused");
            if e.starts_with("BUILDER-LEN") { cx.sum.fail(&cell, None, cj.clone(), &format!("builder length wrong: {}", e)); }
            // not demanded by the property (an error is allowed), only recorded
            let fits = valid && sorted_in && vals.chunks(bs).all(|ch| ch.iter().all(|&v| v - ch[0] < (1u64 << c.ow)) && (c.sw == 64 || ch[0] >> c.sw == 0));
            if fits { cx.sum.dist("sorted_refused_although_fits"); }
        }
        Ok(Ok(sv)) => {
            cx.sum.dist("sorted_build_ok");
            obs.push("[0]%Z".into());
            let n = vals.len();
            let rr = guarded(|| {
                let len = sv.len();
                let nb = sv.num_blocks();
                let mut gets = vec![];
                for i in (0..n + 2).chain([usize::MAX - 1, usize::MAX]) { gets.push(sv.get(i).ok()); }
                let mut pairs = vec![];
                for i in (0..n + 1).chain([usize::MAX - 1, usize::MAX]) { pairs.push(sv.get2(i).ok()); }
                let mut blocks: Vec<Option<Vec<u64>>> = vec![];
                for b in (0..nb + 1).chain([usize::MAX >> c.log2.min(63), usize::MAX]) { let mut o = vec![0xDEAD_BEEF_u64; bs]; blocks.push(sv.get_block(b, &mut o).ok().map(|_| o)); }
                (len, nb, gets, pairs, blocks)
            });
            match rr {
                Err(p) => { obs.push("[(-1)]%Z".into()); cx.sum.fail(&cell, class, cj.clone(), &format!("read panicked: {}", p)); }
                Ok((len, nb, gets, pairs, blocks)) => {
                    let mut bad: Option<String> = None;
                    macro_rules! chk { ($cond:expr, $($arg:tt)*) => { if !$cond && bad.is_none() { bad = Some(format!($($arg)*)); } } }
                    chk!(len == n, "len {} want {}", len, n);
                    chk!(nb == nblocks, "num_blocks {} want {}", nb, nblocks);
                    for i in 0..n { chk!(gets[i] == Some(vals[i]), "element {} reads back {:?}, stored {}", i, gets[i], vals[i]); }
                    for (k, g) in gets[n..].iter().enumerate() { chk!(g.is_none(), "get past the end (#{}) not refused: {:?}", k, g); }
                    for i in 0..n + 3 {
                        if i + 1 < n { chk!(pairs[i] == Some((vals[i], vals[i + 1])), "get2({}) = {:?} want ({}, {})", i, pairs[i], vals[i], vals[i + 1]); }
                        else { chk!(pairs[i].is_none(), "get2({}) past the end not refused: {:?}", i, pairs[i]); }
                    }
                    for b in 0..nblocks {
                        let want = &vals[b * bs..((b + 1) * bs).min(n)];
                        match &blocks[b] { Some(o) => chk!(&o[..want.len()] == want, "get_block({}) differs at {:?}", b, o.iter().zip(want).position(|(x, y)| x != y)),
                                           None => chk!(false, "get_block({}) refused", b) }
                    }
                    for (k, blk) in blocks[nblocks..].iter().enumerate() { chk!(blk.is_none(), "get_block past the end (#{}) not refused", k); }
                    if bad.is_none() && sv.config().block_size() != bs { bad = Some(format!("config().block_size() = {}", sv.config().block_size())); }
                    // the serialised image (to_bytes) rebuilt by from_bytes is the same vector; an image of the image as well
                    if bad.is_none() {
                        let rt = guarded(|| { let img = sv.to_bytes();
                            match SortedUintVec::from_bytes(&img) { Err(e) => Some(format!("from_bytes(to_bytes()) refused: {:?}", e)),
                                Ok(sv2) => reread(&sv2, vals, bs).map(|d| format!("after to_bytes/from_bytes: {}", d)).or_else(|| if sv2.to_bytes() != img { Some("to_bytes of the rebuilt vector differs from the image it was built from".to_string()) } else { None }) } });
                        match rt { Err(p) => bad = Some(format!("to_bytes/from_bytes panicked: {}", p)), Ok(Some(d)) => bad = Some(d), Ok(None) => {} }
                    }
                    if bad.is_none() { match guarded(|| reread(&sv, vals, bs)) { Err(p) => bad = Some(format!("second read panicked: {}", p)), Ok(Some(d)) => bad = Some(format!("second read (larger / shorter block buffers): {}", d)), Ok(None) => {} } }
                    if let Some(d) = bad { cx.sum.fail(&cell, class, cj.clone(), &d); }
                    // observation for the model
                    obs.push(format!("[{}; {}]%Z", len, nb));
                    for g in &gets[..n + 2] { obs.push(match g { Some(v) => format!("[0; {}]%Z", v), None => "[1]%Z".into() }); }
                    for p in &pairs[..n + 1] { obs.push(match p { Some((a, b)) => format!("[0; {}; {}]%Z", a, b), None => "[1]%Z".into() }); }
                    for blk in &blocks[..nblocks + 1] { obs.push(match blk { Some(o) => format!("[0; {}]%Z", o.iter().map(|v| v.to_string()).collect::<Vec<_>>().join("; ")), None => "[1]%Z".into() }); }
                }
            }
        }
    }
    // model comparison: everywhere the model is defined (it models panics as such too)
    if cx.model_sorted && (force_coq || (cx.shards.len() < cx.budget && cx.n_sorted_coq < cx.cap_sorted_coq && vals.len() <= 300)) {
        cx.n_sorted_coq += 1;
        let term = format!("CSorted {} {} {} {} {} [{}]", c.log2, c.ow, c.sw, coq_bool(c.simd), coq_n_list(vals.iter().map(|&v| v as u128)), obs.join("; "));
        cx.shards.push(term, cj);
    }
}

pub fn gen_sorted(cx: &mut Ctx, r: &mut Rng, i: usize) {
    // configuration: the three presets, plus every admissible block size / widths, plus (rarely) an invalid one
    let c = match r.below(10) {
        0..=1 => preset(0), 2..=3 => preset(1), 4..=5 => preset(2),
        6..=8 => SCfg { log2: r.range(4, 8) as u8, ow: *r.pick(&[8u8, 9, 12, 13, 16, 17, 24, 31, 32]), sw: *r.pick(&[16u8, 17, 24, 31, 32, 33, 40, 48, 56, 57, 64, 64]), simd: r.chance(1, 2) },
        _ => if r.chance(1, 3) { SCfg { log2: *r.pick(&[3u8, 9]), ow: *r.pick(&[7u8, 33, 16]), sw: *r.pick(&[15u8, 65, 32]), simd: true } }
             else { SCfg { log2: r.range(4, 8) as u8, ow: r.range(8, 32) as u8, sw: r.range(16, 64) as u8, simd: r.chance(1, 2) } },
    };
    let bs = 1usize << c.log2.min(9);
    let w = c.ow.min(33) as u32;
    let n = match r.below(8) { 0 => *r.pick(&[0usize, 1, 2, 3]), 1..=4 => { let k = r.range(1, 3) as usize; let d = r.below(5) as usize; (k * bs + d).saturating_sub(2) }, _ => r.below(2 * bs as u64 + 3) as usize };
    let n = n.min(600);
    // base: small, near the sample-width limit, or near u64::MAX
    let sw = c.sw.min(64) as u32;
    let top: u64 = if sw >= 64 { u64::MAX } else { (1u64 << sw) - 1 };
    let special_at = r.below(n as u64 + 1) as usize;
    let big = (1u64 << w) - 1;
    let stepmax = *r.pick(&[1u64, 2, 50, 700, 1 << 14]);
    let steps: Vec<u64> = (0..n).map(|k| if k == special_at && r.chance(1, 2) { *r.pick(&[big, big + 1, big + 2, big / 2, big / (bs as u64), big / (bs as u64) + 1]) } else { r.below(stepmax) }).collect();
    let total: u64 = steps.iter().fold(0u64, |a, &b| a.saturating_add(b));
    // base: mostly such that every block minimum fits the sample width (0, small, or ending exactly at the limit), sometimes beyond it / at u64::MAX
    let mut cur: u64 = match r.below(8) {
        0 => 0, 1 | 2 => r.below(1 << 20).min(top.saturating_sub(total)), 3 | 4 => top.saturating_sub(total), 5 => top.saturating_sub(total).saturating_sub(r.below(1000)),
        6 => top.saturating_sub(total / 2), _ => if r.chance(1, 2) { u64::MAX - total.min(u64::MAX) } else { r.next() >> r.below(64) } };
    let mut vals = vec![];
    for k in 0..n { cur = cur.saturating_add(steps[k]); vals.push(cur); }
    if n >= 2 && r.chance(1, 25) { let k = r.below(n as u64 - 1) as usize + 1; vals[k] = vals[k - 1].saturating_sub(1 + r.below(3)); } // unsorted input: must be refused or stored
    let via = if r.chance(1, 2) { 0 } else { r.range(1, 4) as u32 };
    sorted_case_via(cx, c, &vals, false, via);
    if i % 4 == 1 && n >= 2 { // a few values out of order: refused one by one, the rest is kept
        let mut v3 = vals.clone(); for _ in 0..r.range(1, 3) { let k = r.below(n as u64 - 1) as usize + 1; v3[k] = v3[k - 1].saturating_sub(1 + r.below(3)); }
        sorted_case_via(cx, c, &v3, false, 5); }
    if n >= 2 && i % 3 == 0 {
        // the last element of a block sits exactly 2^w-1 / 2^w above the block's first
        let m = bs.min(n);
        let base = vals[0].min(u64::MAX - big - 1024);
        let mut v2: Vec<u64> = (0..m as u64).map(|k| base + k.min(big)).collect();
        let topd = *r.pick(&[big, big + 1]);
        *v2.last_mut().unwrap() = base + topd.max(m as u64 - 1).max(*v2.iter().max().unwrap() - base);
        let mut tail: Vec<u64> = vec![];
        if r.chance(1, 2) { let l = *v2.last().unwrap(); tail = (0..r.below(4)).map(|k| l.saturating_add(k)).collect(); }
        v2.extend(tail);
        sorted_case_via(cx, c, &v2, false, (i % 5) as u32);
    }
}
