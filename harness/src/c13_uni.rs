//! C13: the tie of the type-universe model (coq/C13/ModelTypes.v) and of the versioned-record model
//! (ModelVersioned.v) to the code: every Rust type the oracle serialises names its type code and its flat value,
//! and the round-trip helpers stash (type, value, bytes the implementation produced, trailing bytes) for the
//! cell to emit as Coq cases (op 40: encoder bytes, op 41: decoded value + bytes consumed, op 42..44: records).
use super::Ctx;
use std::cell::RefCell;
use std::collections::{BTreeMap, BTreeSet, HashMap, HashSet};
use std::rc::Rc;
use std::sync::Arc;
use zipora::io::versioning::Version;

/// Type code and flat value as `ModelTypes.parse_ty` / `parse_val` read them.
pub trait Uni {
    fn ty(out: &mut Vec<i128>);
    fn val(&self, out: &mut Vec<i128>);
}
macro_rules! uni_int {
    ($($t:ty, $u:ty, $w:expr);*) => { $(
        impl Uni for $t {
            fn ty(out: &mut Vec<i128>) { out.extend([0, $w]); }
            fn val(&self, out: &mut Vec<i128>) { out.push(*self as $u as i128); }
        }
    )* };
}
uni_int!(u8, u8, 1; i8, u8, 1; u16, u16, 2; i16, u16, 2; u32, u32, 4; i32, u32, 4; u64, u64, 8; i64, u64, 8);
impl Uni for bool {
    fn ty(out: &mut Vec<i128>) { out.push(1); }
    fn val(&self, out: &mut Vec<i128>) { out.push(*self as i128); }
}
impl Uni for String {
    fn ty(out: &mut Vec<i128>) { out.push(3); }
    fn val(&self, out: &mut Vec<i128>) { out.push(self.len() as i128); out.extend(self.bytes().map(|b| b as i128)); }
}
impl Uni for () {
    fn ty(out: &mut Vec<i128>) { out.push(4); }
    fn val(&self, _out: &mut Vec<i128>) {}
}
impl Uni for Version {
    fn ty(out: &mut Vec<i128>) { out.extend([0, 4]); }
    fn val(&self, out: &mut Vec<i128>) { out.push(self.to_u32() as i128); }
}
impl<T: Uni> Uni for Option<T> {
    fn ty(out: &mut Vec<i128>) { out.push(5); T::ty(out); }
    fn val(&self, out: &mut Vec<i128>) { match self { Some(x) => { out.push(1); x.val(out); } None => out.push(0) } }
}
impl<T: Uni> Uni for Box<T> {
    fn ty(out: &mut Vec<i128>) { out.push(6); T::ty(out); }
    fn val(&self, out: &mut Vec<i128>) { self.as_ref().val(out); }
}
impl<T: Uni> Uni for Rc<T> {
    fn ty(out: &mut Vec<i128>) { out.push(7); T::ty(out); }
    fn val(&self, out: &mut Vec<i128>) { self.as_ref().val(out); }
}
impl<T: Uni> Uni for Arc<T> {
    fn ty(out: &mut Vec<i128>) { out.push(7); T::ty(out); }
    fn val(&self, out: &mut Vec<i128>) { self.as_ref().val(out); }
}
macro_rules! uni_seq {
    ($($c:ident),*) => { $(
        impl<T: Uni> Uni for $c<T> {
            fn ty(out: &mut Vec<i128>) { out.push(8); T::ty(out); }
            fn val(&self, out: &mut Vec<i128>) { out.push(self.len() as i128); for x in self.iter() { x.val(out); } }
        }
    )* };
}
uni_seq!(Vec, HashSet, BTreeSet);
macro_rules! uni_map {
    ($($c:ident),*) => { $(
        // a map is the vector of its (key, value) pairs in the order the object iterates
        impl<K: Uni, V: Uni> Uni for $c<K, V> {
            fn ty(out: &mut Vec<i128>) { out.extend([8, 10]); K::ty(out); V::ty(out); }
            fn val(&self, out: &mut Vec<i128>) { out.push(self.len() as i128); for (k, v) in self.iter() { k.val(out); v.val(out); } }
        }
    )* };
}
uni_map!(HashMap, BTreeMap);
impl<T: Uni, const N: usize> Uni for [T; N] {
    fn ty(out: &mut Vec<i128>) { out.extend([9, N as i128]); T::ty(out); }
    fn val(&self, out: &mut Vec<i128>) { out.push(N as i128); for x in self.iter() { x.val(out); } }
}
impl<T: Uni, E: Uni> Uni for Result<T, E> {
    fn ty(out: &mut Vec<i128>) { out.push(11); T::ty(out); E::ty(out); }
    fn val(&self, out: &mut Vec<i128>) { match self { Ok(x) => { out.push(1); x.val(out); } Err(x) => { out.push(0); x.val(out); } } }
}
// an n-tuple is a right-nested pair (the bytes are the fields in order either way)
macro_rules! uni_tuple {
    ($last:ident) => {
        impl<$last: Uni> Uni for ($last,) {
            fn ty(out: &mut Vec<i128>) { $last::ty(out); }
            fn val(&self, out: &mut Vec<i128>) { self.0.val(out); }
        }
    };
    ($($T:ident),+ ; $last:ident) => {
        impl<$($T: Uni,)+ $last: Uni> Uni for ($($T,)+ $last,) {
            fn ty(out: &mut Vec<i128>) { $( out.push(10); $T::ty(out); )+ $last::ty(out); }
            #[allow(non_snake_case)]
            fn val(&self, out: &mut Vec<i128>) { let ($($T,)+ $last,) = self; $( $T.val(out); )+ $last.val(out); }
        }
    };
}
uni_tuple!(A);
uni_tuple!(A; B);
uni_tuple!(A, B; C);
uni_tuple!(A, B, C; D);
uni_tuple!(A, B, C, D; E);
uni_tuple!(A, B, C, D, E; F);
uni_tuple!(A, B, C, D, E, F; G);
uni_tuple!(A, B, C, D, E, F, G; H);
uni_tuple!(A, B, C, D, E, F, G, H; I);
uni_tuple!(A, B, C, D, E, F, G, H, I; J);
uni_tuple!(A, B, C, D, E, F, G, H, I, J; K);
uni_tuple!(A, B, C, D, E, F, G, H, I, J, K; L);

pub fn ty_of<T: Uni>() -> Vec<i128> { let mut t = vec![]; T::ty(&mut t); t }
pub fn val_of<T: Uni>(v: &T) -> Vec<i128> { let mut t = vec![]; v.val(&mut t); t }
/// The metadata wrapper of `serialize_with_metadata`: type id, version, then the data.
pub fn meta_ty(id: &str, version: u32, inner: &[i128]) -> Vec<i128> {
    let mut t = vec![12, version as i128, id.len() as i128];
    t.extend(id.bytes().map(|b| b as i128));
    t.extend_from_slice(inner);
    t
}

/// One observation of the implementation: a value of a type, the bytes its encoder produced, and (checked by the
/// caller) that the decoder gave the value back from `bytes ++ tail` consuming exactly `bytes`.
pub struct Emit { pub ty: Vec<i128>, pub val: Vec<i128>, pub bytes: Vec<u8>, pub tail: Vec<u8> }
thread_local! { static STASH: RefCell<Vec<Emit>> = RefCell::new(vec![]); }
pub fn stash(ty: Vec<i128>, val: Vec<i128>, bytes: &[u8], tail: &[u8]) {
    // a Coq list literal of more than a few ten thousand elements overflows the parser's stack
    if ty.len() + val.len() > 24_000 || bytes.len() + tail.len() > 24_000 { return; }
    STASH.with(|s| { let mut s = s.borrow_mut(); if s.len() < 8 { s.push(Emit { ty, val, bytes: bytes.to_vec(), tail: tail.to_vec() }); } });
}
pub fn stash_clear() { STASH.with(|s| s.borrow_mut().clear()); }
pub fn stash_take() -> Vec<Emit> { STASH.with(|s| std::mem::take(&mut *s.borrow_mut())) }

impl Ctx {
    /// Emit the stashed observations of a cell that passed its oracle: at most `per_cell` cases of the cell reach Coq.
    pub fn coq_uni(&mut self, cell: &str, per_cell: usize, big: bool) {
        let es = stash_take();
        let per_cell = per_cell * self.coq_budget / 2400;
        let used = self.uni_used.entry(cell.to_string()).or_insert(0);
        if *used >= per_cell || es.is_empty() { return; }
        *used += 1;
        if *used == 1 { self.sum.dist("cells_tied_to_type_universe_model"); }
        // small values: every observation (data and metadata form); big ones: the last only
        let es: Vec<Emit> = if big { es.into_iter().rev().take(1).collect() } else { es };
        for e in es {
            let mut ints = e.ty.clone();
            ints.extend_from_slice(&e.val);
            self.coq2(40, 0, &ints, &[], &Some(e.bytes.iter().map(|&b| b as i128).collect()), true);
            let mut all = e.bytes.clone();
            all.extend_from_slice(&e.tail);
            let mut obs = e.val.clone();
            obs.push(e.bytes.len() as i128);
            self.coq2(41, 0, &e.ty, &all, &Some(obs), true);
        }
    }
}

// ---------------------------------------------------------------------------------------------
// versioned records: the schema of c13_ser::Rec / c13_br::Rec2 (u32 id, name since 1.1.0, score since 1.2.5)
// ---------------------------------------------------------------------------------------------
pub fn rec_schema() -> Vec<i128> {
    let mut s = vec![3, 0];
    s.extend(ty_of::<u32>());
    s.extend([1, 1, 1, 0]);
    s.extend(ty_of::<String>());
    s.extend([1, 1, 2, 5]);
    s.extend(ty_of::<u64>());
    s
}
pub fn ver3(v: Version) -> [i128; 3] { [v.major() as i128, v.minor() as i128, v.patch() as i128] }
/// what a reader returned: per field 0 | 1 value
pub fn rec_obs(id: u32, name: &Option<String>, score: &Option<u64>) -> Vec<i128> {
    let mut o = vec![1, id as i128];
    (name.clone()).val(&mut o);
    (*score).val(&mut o);
    o
}
pub struct RecEmit { pub op: u32, pub ints: Vec<i128>, pub bytes: Vec<u8>, pub obs: Vec<i128> }
thread_local! { static RSTASH: RefCell<Vec<RecEmit>> = RefCell::new(vec![]); }
pub fn rstash(e: RecEmit) { RSTASH.with(|s| { let mut s = s.borrow_mut(); if s.len() < 40 { s.push(e); } }); }
pub fn rstash_clear() { RSTASH.with(|s| s.borrow_mut().clear()); }
/// serialize_versioned by a type at `cur` produced `bytes`
pub fn rstash_enc(cur: Version, id: u32, name: &str, score: u64, bytes: &[u8]) {
    let mut ints = vec![1];
    ints.extend(ver3(cur));
    ints.extend(rec_schema());
    ints.push(id as i128);
    name.to_string().val(&mut ints);
    ints.push(score as i128);
    rstash(RecEmit { op: 42, ints, bytes: vec![], obs: bytes.iter().map(|&b| b as i128).collect() });
}
/// deserialize_versioned by a type at `rcur` read (id, name, score) from `all`, consuming `used`
pub fn rstash_dec(rcur: Version, all: &[u8], got: &(u32, Option<String>, Option<u64>), used: usize) {
    let mut ints = vec![1];
    ints.extend(ver3(rcur));
    ints.extend(rec_schema());
    let mut obs = rec_obs(got.0, &got.1, &got.2);
    obs.push(used as i128);
    rstash(RecEmit { op: 43, ints, bytes: all.to_vec(), obs });
}
/// VersionedSerializer (strict, skew, migrations) of a type at `rcur`: accepted record or refusal
pub fn rstash_vs(strict: bool, skew: u16, migr: bool, rcur: Version, all: &[u8], got: &Option<(u32, Option<String>, Option<u64>)>) {
    let mut ints = vec![strict as i128, skew as i128, migr as i128];
    ints.extend(ver3(rcur));
    ints.extend(rec_schema());
    let obs = match got { Some(g) => { let mut o = vec![1]; o.extend(rec_obs(g.0, &g.1, &g.2)); o } None => vec![0] };
    rstash(RecEmit { op: 44, ints, bytes: all.to_vec(), obs });
}
impl Ctx {
    pub fn coq_rec(&mut self, cell: &str, per_cell: usize) {
        let es: Vec<RecEmit> = RSTASH.with(|s| std::mem::take(&mut *s.borrow_mut()));
        let per_cell = per_cell * self.coq_budget / 2400;
        let used = self.uni_used.entry(cell.to_string()).or_insert(0);
        if *used >= per_cell || es.is_empty() { return; }
        *used += 1;
        if *used == 1 { self.sum.dist("cells_tied_to_versioned_record_model"); }
        for e in es { self.coq2(e.op, 0, &e.ints, &e.bytes, &Some(e.obs), true); }
    }
}
