// TEMPORARY - replaced at merge.  Stand-alone driver of the rANS / FSE / LZ half of C01 (c01_b.rs).
use crate::util::*;
use serde_json::Value;
#[path = "c01_b.rs"]
mod b;

fn header() -> String {
    format!("From ZV.Common Require Import Base Run.\n{}Open Scope N_scope.\nDefinition case_t : Type := N * list N * list N * list N.\nDefinition run_case (op : N) (a b : list N) : list N := run_case_b op a b.\nDefinition ok (c : case_t) : bool :=\n  let '(op, a, b, expect) := c in eqb_ln (run_case op a b) expect.\n", b::HEADER_B)
}

pub fn run(args: &Args) {
    quiet_panics();
    let mut sum = Summary::new("C01", b::RULE_B);
    let mut shards = CoqShards::new(&header(), 40);
    let mut rng = Rng::new(args.seed);
    if let Some(f) = &args.replay {
        let txt = std::fs::read_to_string(f).expect("replay file");
        let v: Value = serde_json::from_str(&txt).expect("replay json");
        let c = if v.get("case").is_some() { v["case"].clone() } else { v };
        b::replay_case(&mut sum, &mut shards, &c);
    } else {
        b::run_cells(&mut sum, &mut shards, &mut rng, args);
    }
    let sh = shards.write(&args.out);
    sum.write(&args.out, sh);
}
