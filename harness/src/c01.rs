//! C01 (Huffman half): entropy codecs are lossless for every input and variant.
//!
//! Oracle, decided on the real code and independently of the Coq model: for every Huffman-family codec
//! variant, whenever encoding succeeds, decoding the produced bytes with the matching decoder and the
//! original length returns exactly the input; a model trained on other data refuses or round-trips; a
//! panic anywhere (constructor, encoder, decoder) is a violation.
//!
//! Cells (all judged by the same dumb oracle):
//!   huffman/order0[/from_frequencies][/serialized_tree]   HuffmanEncoder::encode <-> HuffmanDecoder::decode
//!   simd/<tier>                                            SimdHuffmanEncoder::encode <-> HuffmanDecoder on its tree
//!   parallel/<x2|x4|x8>/<cfg>, parallel/adaptive           ParallelHuffmanEncoder/Decoder, AdaptiveParallelEncoder (Huffman path)
//!   ctx/order<k>[/serialized]                              ContextualHuffmanEncoder::encode <-> ContextualHuffmanDecoder::decode
//!   ctx/x<N>[/serialized]                                  encode_xN / encode_with_interleaving <-> decode_xN / decode_with_interleaving
//!   crafted/...                                            the same entry points on encoders obtained through the public
//!                                                          ContextualHuffmanEncoder::deserialize from well-formed code tables
//!                                                          (long codes, single-leaf trees, partial alphabets)
//!   bit_ops/varlen                                         encode_variable_length_bmi2 <-> decode_variable_length_bmi2
//! Correspondence: Coq cases (op, a, b, expect) evaluated by `run_case_a` of coq/C01/ModelCtx.v with the code
//! tables read from the real trees.
//!
//! The rANS / FSE / dictionary half lives in c01_b.rs (`b::run_cells`, `b::run_one`), merged in `run`.
use crate::util::*;
use serde_json::{json, Value};
use std::collections::HashMap;
use zipora::entropy::bit_ops::{BitOps, BitOpsConfig};
use zipora::entropy::huffman::{
    ContextualHuffmanDecoder, ContextualHuffmanEncoder, HuffmanDecoder, HuffmanEncoder, HuffmanOrder, HuffmanTree,
    InterleavingFactor,
};
use zipora::entropy::parallel::{
    AdaptiveParallelEncoder, ParallelConfig, ParallelHuffmanDecoder, ParallelHuffmanEncoder, ParallelVariant,
    ParallelX2Variant, ParallelX4Variant, ParallelX8Variant,
};
use zipora::entropy::simd_huffman::{HuffmanSimdTier, SimdHuffmanConfig, SimdHuffmanEncoder};

/// Imports of this half (the merged header adds the other half's imports and dispatches on the op number).
#[path = "c01_b.rs"]
mod b;
/// Oracle breadth: secondary entry points, presets / options, thresholds, object histories (cells `wide/...`, S-only).
#[path = "c01_wide.rs"]
mod wide;
/// Coq cases for the serialised forms, the context constructors and the parallel front end (ops 7-12).
#[path = "c01_x.rs"]
mod x;

pub const IMPORTS_A: &str = "From ZV.C01 Require Import Model ModelCtx ModelSer ModelNew ModelPar.\n";
/// ops 1-6 ModelCtx.v, 7-10 ModelSer.v, 11 ModelNew.v, 12 ModelPar.v
pub const DISPATCH_A: &str = "(if op <? 7 then run_case_a op a b else if op <? 11 then run_case_ser op a b else if op <? 12 then run_case_new op a b else run_case_par op a b)";
pub const HEADER_A: &str = r#"From ZV.Common Require Import Base Run.
From ZV.C01 Require Import Model ModelCtx ModelSer ModelNew ModelPar.
Open Scope N_scope.
Definition case_t : Type := N * list N * list N * list N.
Definition run_case (op : N) (a b : list N) : list N := if op <? 7 then run_case_a op a b else if op <? 11 then run_case_ser op a b else if op <? 12 then run_case_new op a b else run_case_par op a b.
Definition ok (c : case_t) : bool :=
  let '(op, a, b, expect) := c in eqb_ln (run_case op a b) expect.
"#;

const RULE: &str = "corpus; enumerated universe: all strings of length <= 3 over a 3-letter alphabet x every variant x training \
(fixed covering text / the string itself / unrelated); generated: lengths 0,1,2,N-1,N,N+1 for N in 1,2,4,8, 99..101, 255..257, \
4095..4097, 65535..65537 x alphabets of 1,2,3,13,14,16,17,18,33,64,65,66,255,256 symbols x uniform / geometric / one-dominant / \
Fibonacci / all-zero / single-symbol / text / cyclic payloads x training equal, prefix, unrelated, disjoint, empty, one byte, \
superset, reversed skew; from_frequencies with u32-extreme counts; encoders obtained through deserialize from well-formed crafted \
code tables (chains up to 255 bits, balanced, random, fixed-width partial, single-leaf) incl. symbols outside the table; a case is \
non-trivial when the payload has >= 2 bytes; distinct = distinct canonical case text";

type Table = Vec<(u8, Vec<bool>)>;

/// What a case did, recorded per job (jobs run on worker threads) and applied to the one Summary / CoqShards in job order,
/// so that the outcome does not depend on scheduling.
enum Ev {
    Eval(String, String, bool),
    Dist(String),
    DistMax(String, u64),
    Sample(Value),
    Fail(String, Option<String>, Value, String),
    Coq(u32, u8, String, Value),
}
pub struct Cx {
    ev: Vec<Ev>,
    pub th: bool,
    coq_used: HashMap<u32, usize>,
    /// this job's share (percent) of its category's budget of Coq cases per operation
    coq_share: usize,
    /// generator family the job belongs to: 0 enumerated, 1 boundary, 2 random, 3 crafted, 4 corpus / replay
    cat: u8,
    /// the job's constructor cases (op 11) are emitted whatever the budget says
    force_new: bool,
}
fn fnv64(s: &str) -> u64 {
    let mut h: u64 = 0xcbf29ce484222325;
    for b in s.bytes() { h ^= b as u64; h = h.wrapping_mul(0x100000001b3); }
    h
}
/// Coq cases per (operation, generator family): every modelled function is represented by every family
fn coq_cap(op: u32, cat: u8, th: bool) -> usize {
    let per_op = match op { 1 => 270, 2 => 380, 3 => 180, 4 => 240, 5 => 200, 6 => 270, 7 => 50, 8 => 100, 9 => 40, 10 => 110, 11 => 60, 12 => 70, 13 => 40, _ => 40 };
    let pct = match cat { 0 => 15, 1 => 30, 2 => 15, 3 => 40, _ => 100 };
    (if th { 4 } else { 1 }) * per_op * pct / 100
}
impl Cx {
    pub fn new(th: bool, coq_share: usize, cat: u8) -> Self { Cx { ev: vec![], th, coq_used: HashMap::new(), coq_share, cat, force_new: false } }
    fn eval(&mut self, cell: &str, key: &str, nontrivial: bool) {
        self.ev.push(Ev::Eval(cell.to_string(), format!("{} {:016x} {}", cell, fnv64(key), key.len()), nontrivial));
    }
    fn dist(&mut self, k: &str) { self.ev.push(Ev::Dist(k.to_string())); }
    fn dist_max(&mut self, k: &str, v: u64) { self.ev.push(Ev::DistMax(k.to_string(), v)); }
    fn sample(&mut self, v: Value) { self.ev.push(Ev::Sample(v)); }
    fn fail(&mut self, cell: &str, class: Option<&str>, case: Value, detail: &str) {
        self.ev.push(Ev::Fail(cell.to_string(), class.map(|c| c.to_string()), case, detail.to_string()));
    }
    /// Apply the recorded events; `used` is the run-wide count of Coq cases per operation.
    pub fn flush(self, sum: &mut Summary, shards: &mut CoqShards, used: &mut HashMap<(u32, u8), usize>) {
        let th = self.th;
        for e in self.ev {
            match e {
                Ev::Eval(c, k, n) => sum.eval(&c, &k, n),
                Ev::Dist(k) => sum.dist(&k),
                Ev::DistMax(k, v) => sum.dist_max(&k, v),
                Ev::Sample(v) => sum.sample(v),
                Ev::Fail(c, cl, case, d) => sum.fail(&c, cl.as_deref(), case, &d),
                Ev::Coq(op, cat, term, cj) => {
                    let u = used.entry((op, cat)).or_insert(0);
                    if *u < coq_cap(op, cat, th) || cj["force"] == json!(true) { *u += 1; shards.push(term, cj); }
                }
            }
        }
    }
}

fn es<T, E: std::fmt::Display>(r: Result<T, E>) -> Result<T, String> { r.map_err(|e| e.to_string()) }
type Rr = Result<Result<Vec<u8>, String>, String>;

fn bytes_of(v: &Value) -> Vec<u8> {
    v.as_array().map(|a| a.iter().map(|x| x.as_u64().unwrap_or(0) as u8).collect()).unwrap_or_default()
}

// ------------------------------------------------------------------------------------------------
// reading code tables out of the real objects
// ------------------------------------------------------------------------------------------------
fn table_of(tree: &HuffmanTree) -> Table {
    (0..=255u8).filter_map(|s| tree.get_code(s).map(|c| (s, c.clone()))).collect()
}
fn max_len(t: &Table) -> usize { t.iter().map(|(_, c)| c.len()).max().unwrap_or(0) }

/// What ContextualHuffmanEncoder::serialize exposes: order, context map, one code table per tree.
#[derive(Clone)]
struct EncView { order: u8, trees: Vec<Table>, ctx: Vec<(u32, usize)> }

fn rd32(b: &[u8], o: &mut usize) -> Option<u32> {
    let s = b.get(*o..*o + 4)?;
    *o += 4;
    Some(u32::from_le_bytes([s[0], s[1], s[2], s[3]]))
}
fn parse_tree(d: &[u8]) -> Option<Table> {
    let n = u16::from_le_bytes([*d.first()?, *d.get(1)?]) as usize;
    let mut o = 2;
    let mut t: Table = vec![];
    for _ in 0..n {
        let s = *d.get(o)?;
        let l = *d.get(o + 1)? as usize;
        o += 2;
        let nb = (l + 7) / 8;
        let bs = d.get(o..o + nb)?;
        o += nb;
        t.push((s, (0..l).map(|i| (bs[i / 8] >> (i % 8)) & 1 == 1).collect()));
    }
    t.sort();
    Some(t)
}
fn view_of(enc: &ContextualHuffmanEncoder) -> Option<EncView> {
    let b = enc.serialize();
    let order = *b.first()?;
    let mut o = 1;
    let nt = rd32(&b, &mut o)? as usize;
    let nc = rd32(&b, &mut o)? as usize;
    let mut ctx = vec![];
    for _ in 0..nc {
        let c = rd32(&b, &mut o)?;
        let i = rd32(&b, &mut o)? as usize;
        ctx.push((c, i));
    }
    ctx.sort();
    let mut trees = vec![];
    for _ in 0..nt {
        let sz = rd32(&b, &mut o)? as usize;
        trees.push(parse_tree(b.get(o..o + sz)?)?);
        o += sz;
    }
    Some(EncView { order, trees, ctx })
}
fn ser_tree(t: &Table) -> Vec<u8> {
    let mut r = vec![];
    r.extend_from_slice(&(t.len() as u16).to_le_bytes());
    for (s, c) in t {
        r.push(*s);
        r.push(c.len() as u8);
        let mut bytes = vec![0u8; (c.len() + 7) / 8];
        for (i, &b) in c.iter().enumerate() { if b { bytes[i / 8] |= 1 << (i % 8); } }
        r.extend_from_slice(&bytes);
    }
    r
}
fn ser_view(v: &EncView) -> Vec<u8> {
    let mut r = vec![v.order];
    r.extend_from_slice(&(v.trees.len() as u32).to_le_bytes());
    r.extend_from_slice(&(v.ctx.len() as u32).to_le_bytes());
    for (c, i) in &v.ctx {
        r.extend_from_slice(&c.to_le_bytes());
        r.extend_from_slice(&(*i as u32).to_le_bytes());
    }
    for t in &v.trees {
        let d = ser_tree(t);
        r.extend_from_slice(&(d.len() as u32).to_le_bytes());
        r.extend_from_slice(&d);
    }
    r
}

// ------------------------------------------------------------------------------------------------
// Coq case emission
// ------------------------------------------------------------------------------------------------
/// [nsym; s; len; val; ...] with val = the code read LSB-first as a number; None when a code exceeds 120 bits
fn flat_table(t: &Table) -> Option<Vec<u128>> {
    let mut v = vec![t.len() as u128];
    for (s, c) in t {
        if c.len() > 120 { return None; }
        let mut x: u128 = 0;
        for (i, &b) in c.iter().enumerate() { if b { x |= 1u128 << i; } }
        v.push(*s as u128);
        v.push(c.len() as u128);
        v.push(x);
    }
    Some(v)
}
/// [order; ntrees; nctx; (ctx, idx)*; tables] - identical trees are stored once
fn flat_view(v: &EncView) -> Option<Vec<u128>> {
    let mut distinct: Vec<&Table> = vec![];
    let mut remap = vec![];
    for t in &v.trees {
        let k = match distinct.iter().position(|d| *d == t) { Some(k) => k, None => { distinct.push(t); distinct.len() - 1 } };
        remap.push(k);
    }
    // tree 0 must stay tree 0
    let mut r = vec![v.order as u128, distinct.len() as u128, v.ctx.len() as u128];
    for (c, i) in &v.ctx {
        r.push(*c as u128);
        r.push(*remap.get(*i)? as u128);
    }
    for t in distinct { r.extend(flat_table(t)?); }
    Some(r)
}
fn obs(r: &Result<Vec<u8>, String>) -> Vec<u128> {
    match r { Ok(v) => std::iter::once(1u128).chain(v.iter().map(|&b| b as u128)).collect(), Err(_) => vec![0] }
}
impl Cx {
    fn coq(&mut self, op: u32, a: Vec<u128>, b: &[u8], expect: Vec<u128>, what: &str, force: bool) {
        self.coq_w(op, a, b, expect, what, force, 6000)
    }
    fn coq_w(&mut self, op: u32, a: Vec<u128>, b: &[u8], expect: Vec<u128>, what: &str, force: bool, max_weight: usize) {
        let cap = (coq_cap(op, self.cat, self.th) * self.coq_share + 99) / 100;
        let weight = a.len() + b.len() + expect.len();
        if weight > max_weight { return; }
        let used = self.coq_used.entry(op).or_insert(0);
        if !force && *used >= cap { return; }
        *used += 1;
        let term = format!("({}, {}, {}, {})", op, coq_n_list(a.iter().cloned()), coq_bytes(b), coq_n_list(expect.iter().cloned()));
        let cj = json!({"op": op, "what": what, "force": force, "a": a.iter().map(|x| x.to_string()).collect::<Vec<_>>(), "b": b,
                        "impl_obs": expect.iter().map(|x| x.to_string()).collect::<Vec<_>>()});
        self.ev.push(Ev::Coq(op, self.cat, term, cj));
    }
}

// ------------------------------------------------------------------------------------------------
// the oracle
// ------------------------------------------------------------------------------------------------
/// Judges one encode/decode pair.  Returns the encoder's bytes when it produced some.
fn judge(cx: &mut Cx, cell: &str, cj: &Value, data: &[u8], enc: Rr, dec: &mut dyn FnMut(&[u8], usize) -> Rr) -> Option<Vec<u8>> {
    let key = format!("{} {}", cell, cj);
    cx.eval(cell, &key, data.len() >= 2);
    let mut c = cj.clone();
    c["cell"] = json!(cell);
    match enc {
        Err(p) => { cx.fail(cell, None, c, &format!("encoder panicked: {}", p)); None }
        Ok(Err(_)) => { cx.dist("encode_refused"); None }
        Ok(Ok(bytes)) => {
            match dec(&bytes, data.len()) {
                Err(p) => cx.fail(cell, None, c, &format!("decoder panicked on the encoder's output: {}", p)),
                Ok(Err(e)) => cx.fail(cell, None, c, &format!("decoder rejects the encoder's output ({} bytes for {} symbols): {}", bytes.len(), data.len(), e)),
                Ok(Ok(out)) => {
                    if out != data {
                        let i = out.iter().zip(data.iter()).position(|(a, b)| a != b).unwrap_or(out.len().min(data.len()));
                        cx.fail(cell, None, c, &format!("decode(encode(x)) != x: lengths {} / {}, first difference at {}", out.len(), data.len(), i));
                    }
                }
            }
            Some(bytes)
        }
    }
}

fn freqs_of(v: &Value) -> Option<[u32; 256]> {
    let a = v.as_array()?;
    if a.is_empty() { return None; }
    let mut f = [0u32; 256];
    for (i, x) in a.iter().take(256).enumerate() { f[i] = x.as_u64().unwrap_or(0) as u32; }
    Some(f)
}

const TIERS: [(HuffmanSimdTier, &str); 6] = [
    (HuffmanSimdTier::Avx2Bmi2, "avx2bmi2"), (HuffmanSimdTier::Avx2, "avx2"), (HuffmanSimdTier::Sse42Bmi2, "sse42bmi2"),
    (HuffmanSimdTier::Sse42, "sse42"), (HuffmanSimdTier::Bmi2, "bmi2"), (HuffmanSimdTier::Scalar, "scalar"),
];

/// Order-0 family: HuffmanEncoder/Decoder, the tree through serialize/deserialize, the SIMD encoder, the parallel front end.
/// `extras`: bit 0 = SIMD tiers, bit 1 = parallel front ends, bit 2 = decoder quirk cases for Coq.
fn case_order0(cx: &mut Cx, train: &[u8], freqs: Option<[u32; 256]>, data: &[u8], extras: u32, force: bool) {
    let cj = match &freqs {
        Some(f) => json!({"run": "order0", "freqs": f.to_vec(), "train": [], "data": data}),
        None => json!({"run": "order0", "freqs": [], "train": train, "data": data}),
    };
    let cell = if freqs.is_some() { "huffman/order0/from_frequencies" } else { "huffman/order0" };
    let built = guarded(|| match &freqs { Some(f) => es(HuffmanEncoder::from_frequencies(f)), None => es(HuffmanEncoder::new(train)) });
    let enc = match built {
        Err(p) => { let mut c = cj.clone(); c["cell"] = json!(cell); cx.eval(cell, &cj.to_string(), true); cx.fail(cell, None, c, &format!("constructor panicked: {}", p)); return; }
        Ok(Err(_)) => { cx.dist("constructor_refused"); return; }
        Ok(Ok(e)) => e,
    };
    let table = table_of(enc.tree());
    cx.dist_max("max_code_len/order0", max_len(&table) as u64);
    cx.dist(&format!("order0_code_len_{}", match max_len(&table) { 0 => "0", 1..=8 => "1-8", 9..=12 => "9-12", 13..=16 => "13-16", 17..=32 => "17-32", _ => "33-64" }));
    let covered = data.iter().all(|s| table.iter().any(|(t, _)| t == s));
    let tree = enc.tree().clone();
    let r = guarded(|| es(enc.encode(data)));
    if let Ok(Err(_)) = &r { if covered { cx.dist("refused_although_every_symbol_has_a_code"); } }
    let flat = flat_table(&table);
    if let (Some(ft), Ok(rr)) = (&flat, &r) { cx.coq(1, ft.clone(), data, obs(rr), "HuffmanEncoder::encode", force); }
    let bytes = judge(cx, cell, &cj, data, r, &mut |b, n| { let d = HuffmanDecoder::new(tree.clone()); guarded(|| es(d.decode(b, n))) });
    if let Some(bytes) = &bytes {
        x::tree_ser_cases(cx, &tree, bytes, data.len(), force);
        // the tree as another process would obtain it
        let t2 = guarded(|| es(HuffmanTree::deserialize(&tree.serialize())));
        match t2 {
            Ok(Ok(t2)) => {
                if table_of(&t2) != table {
                    let mut c = cj.clone(); c["cell"] = json!("huffman/order0/serialized_tree");
                    cx.fail("huffman/order0/serialized_tree", None, c, "deserialize(serialize(tree)) has another code table");
                }
                judge(cx, "huffman/order0/serialized_tree", &cj, data, Ok(Ok(bytes.clone())), &mut |b, n| { let d = HuffmanDecoder::new(t2.clone()); guarded(|| es(d.decode(b, n))) });
            }
            other => {
                let mut c = cj.clone(); c["cell"] = json!("huffman/order0/serialized_tree");
                cx.eval("huffman/order0/serialized_tree", &cj.to_string(), true);
                cx.fail("huffman/order0/serialized_tree", None, c, &format!("deserialize(serialize(tree)) failed: {:?}", other.map(|x| x.err())));
            }
        }
        if let Some(ft) = &flat {
            // decoder on the real encoder's bytes, at the right and at wrong lengths, and on damaged bytes (ties the decoder's quirks)
            let d = HuffmanDecoder::new(tree.clone());
            let mut lens = vec![data.len()];
            if extras & 4 != 0 { lens.extend_from_slice(&[data.len() + 1, data.len().saturating_sub(1), 0]); }
            for n in lens {
                if let Ok(o) = guarded(|| es(d.decode(bytes, n))) {
                    let mut a = vec![n as u128]; a.extend(ft.iter().cloned());
                    cx.coq(2, a, bytes, obs(&o), "HuffmanDecoder::decode", force);
                }
            }
            if extras & 4 != 0 && !bytes.is_empty() {
                let mut g = bytes.clone();
                let k = (data.len() * 7 + 3) % g.len();
                g[k] ^= 1 << (data.len() % 8);
                if data.len() % 3 == 0 { g.truncate(k + 1); }
                if let Ok(o) = guarded(|| es(d.decode(&g, data.len()))) {
                    let mut a = vec![data.len() as u128]; a.extend(ft.iter().cloned());
                    cx.coq(2, a, &g, obs(&o), "HuffmanDecoder::decode (damaged)", force);
                }
            }
        }
    }
    if freqs.is_some() { return; }
    if extras & 1 != 0 {
        for (tier, name) in TIERS.iter() {
            let cell = format!("simd/{}", name);
            let cfg = SimdHuffmanConfig { preferred_tier: *tier, ..Default::default() };
            let se = match guarded(|| es(SimdHuffmanEncoder::with_config(train, cfg))) {
                Err(p) => { let mut c = cj.clone(); c["cell"] = json!(cell); cx.eval(&cell, &cj.to_string(), true); cx.fail(&cell, None, c, &format!("constructor panicked: {}", p)); continue; }
                Ok(Err(_)) => { cx.dist("constructor_refused"); continue; }
                Ok(Ok(e)) => e,
            };
            cx.dist(&format!("simd_tier_selected_{:?}", se.tier()));
            let st = se.tree().clone();
            let r = guarded(|| es(se.encode(data)));
            if let (Some(ft), Ok(Ok(b))) = (&flat, &r) {
                if table_of(&st) == table && *name == TIERS[data.len() % 6].1 { cx.coq(1, ft.clone(), data, obs(&Ok(b.clone())), "SimdHuffmanEncoder::encode", false); }
            }
            judge(cx, &cell, &cj, data, r, &mut |b, n| { let d = HuffmanDecoder::new(st.clone()); guarded(|| es(d.decode(b, n))) });
        }
    }
    if extras & 2 != 0 {
        par_case::<ParallelX2Variant>(cx, train, data, &cj);
        par_case::<ParallelX4Variant>(cx, train, data, &cj);
        par_case::<ParallelX8Variant>(cx, train, data, &cj);
    }
}

fn par_case<P: ParallelVariant>(cx: &mut Cx, train: &[u8], data: &[u8], cj: &Value) {
    let cfgs: [(&str, ParallelConfig); 4] = [
        ("default", ParallelConfig::default()), ("low_latency", ParallelConfig::low_latency()),
        ("high_throughput", ParallelConfig::high_throughput()),
        ("always_parallel", ParallelConfig { num_streams: P::STREAMS, block_size: 16, adaptive_blocks: false, min_parallel_size: 0, load_balancing: true }),
    ];
    for (cname, cfg) in cfgs.iter() {
        for auto in [false, true] {
            // auto = the encoder trains itself on the first payload it sees
            let tr: &[u8] = if auto { data } else { train };
            let cell = format!("parallel/{}/{}{}", P::NAME, cname, if auto { "/auto_train" } else { "" });
            let c2 = cfg.clone();
            let r = guarded(|| {
                let mut e = ParallelHuffmanEncoder::<P>::new(c2)?;
                if !auto { e.train(tr)?; }
                e.encode(data)
            }).map(es);
            {
                let ops: Vec<(bool, Vec<u8>)> = if auto { vec![(false, data.to_vec())] } else { vec![(true, tr.to_vec()), (false, data.to_vec())] };
                x::par_history::<P>(cx, cname, &ops, None, cj, false);
            }
            let c3 = cfg.clone();
            judge(cx, &cell, cj, data, r, &mut |b, n| guarded(|| {
                let mut d = ParallelHuffmanDecoder::<P>::new(c3.clone());
                d.set_tree(HuffmanTree::from_data(tr)?)?;
                d.decode(b, n)
            }).map(es));
        }
    }
}

fn case_adaptive(cx: &mut Cx, data: &[u8]) {
    let cj = json!({"run": "adaptive", "data": data});
    let sel = guarded(|| AdaptiveParallelEncoder::new().map(|e| { let (a, v) = e.select_optimal_encoding(data); (a.to_string(), v.to_string()) }));
    let (alg, var) = match sel {
        Ok(Ok(x)) => x,
        Ok(Err(_)) => { cx.dist("constructor_refused"); return; }
        Err(p) => { if data.is_empty() { cx.dist("adaptive_select_on_empty_panics"); }
                    let mut c = cj.clone(); c["cell"] = json!("parallel/adaptive"); cx.eval("parallel/adaptive", &cj.to_string(), true);
                    cx.fail("parallel/adaptive", None, c, &format!("select_optimal_encoding panicked: {}", p)); return; }
    };
    cx.dist(&format!("adaptive_{}_{}", alg, var));
    if alg != "huffman" { return; } // the rANS / FSE paths belong to the other half
    let r = guarded(|| { let mut e = AdaptiveParallelEncoder::new()?; e.encode_adaptive(data) }).map(es);
    if let Ok(rr) = &r {
        let streams = match var.as_str() { "x2" => 2, "x4" => 4, _ => 8 };
        let d = match rr { Ok(b) => guarded(|| { let d = HuffmanDecoder::new(HuffmanTree::from_data(data)?); d.decode(b, data.len()) }).map(es).ok(), Err(_) => None };
        x::adaptive_case(cx, streams, data, rr, d.as_ref());
    }
    judge(cx, "parallel/adaptive", &cj, data, r, &mut |b, n| guarded(|| {
        let d = HuffmanDecoder::new(HuffmanTree::from_data(data)?);
        d.decode(b, n)
    }).map(es));
}

fn order_of(k: u64) -> HuffmanOrder { match k { 0 => HuffmanOrder::Order0, 1 => HuffmanOrder::Order1, _ => HuffmanOrder::Order2 } }
fn factor_of(n: usize) -> InterleavingFactor { match n { 1 => InterleavingFactor::X1, 2 => InterleavingFactor::X2, 4 => InterleavingFactor::X4, _ => InterleavingFactor::X8 } }
fn enc_x(e: &ContextualHuffmanEncoder, n: usize, d: &[u8], generic: bool) -> Result<Vec<u8>, String> {
    if generic { return es(e.encode_with_interleaving(d, factor_of(n))); }
    es(match n { 1 => e.encode_x1(d), 2 => e.encode_x2(d), 4 => e.encode_x4(d), _ => e.encode_x8(d) })
}
fn dec_x(e: &ContextualHuffmanEncoder, n: usize, b: &[u8], len: usize, generic: bool) -> Result<Vec<u8>, String> {
    if generic { return es(e.decode_with_interleaving(b, len, factor_of(n))); }
    es(match n { 1 => e.decode_x1(b, len), 2 => e.decode_x2(b, len), 4 => e.decode_x4(b, len), _ => e.decode_x8(b, len) })
}

/// Everything an encoder object offers, judged; `prefix` = "ctx" (built by `new`) or "crafted" (built by `deserialize`).
/// xn_mask: bit k set = run the 2^k-way interleaved pair.
fn judge_encoder(cx: &mut Cx, prefix: &str, enc: ContextualHuffmanEncoder, cj: &Value, data: &[u8], xn_mask: u32, force: bool) {
    let view = view_of(&enc);
    if view.is_none() { cx.dist("serialize_unreadable_by_harness"); }
    let flat = view.as_ref().and_then(flat_view);
    let eff_order = view.as_ref().map(|v| v.order).unwrap_or(9);
    if let Some(v) = &view {
        let m = v.trees.iter().map(max_len).max().unwrap_or(0) as u64;
        cx.dist_max(&format!("max_code_len/{}/order{}", prefix, eff_order), m);
        if eff_order == 1 { cx.dist_max(&format!("max_code_len/{}/interleaved", prefix), m); }
        cx.dist_max(&format!("max_trees/{}", prefix), v.trees.len() as u64);
    }
    // the decoder another process would build
    let twin = guarded(|| es(ContextualHuffmanEncoder::deserialize(&enc.serialize())));
    let twin = match twin {
        Ok(Ok(t)) => Some(t),
        other => {
            let cell = format!("{}/order{}/serialized", prefix, eff_order);
            let mut c = cj.clone(); c["cell"] = json!(cell);
            cx.eval(&cell, &cj.to_string(), true);
            cx.fail(&cell, None, c, &format!("deserialize(serialize(encoder)) failed: {:?}", other.map(|x| x.err())));
            None
        }
    };
    // interleaved variants (methods of the encoder object itself)
    for (k, n) in [1usize, 2, 4, 8].iter().enumerate() {
        if xn_mask & (1 << k) == 0 { continue; }
        let generic = (data.len() + k) % 2 == 1;
        let cell = format!("{}/x{}", prefix, n);
        let r = guarded(|| enc_x(&enc, *n, data, generic));
        if let (Some(f), Ok(rr)) = (&flat, &r) {
            if eff_order == 1 { let mut a = vec![*n as u128]; a.extend(f.iter().cloned()); cx.coq(5, a, data, obs(rr), "encode_xn", force); }
        }
        let bytes = judge(cx, &cell, cj, data, r, &mut |b, len| guarded(|| dec_x(&enc, *n, b, len, generic)));
        if let Some(bytes) = bytes {
            if let Some(f) = &flat {
                let mut a = vec![*n as u128, data.len() as u128]; a.extend(f.iter().cloned());
                cx.coq(6, a, &bytes, obs(&Ok(data.to_vec())).into_iter().collect(), "decode_xn", force);
                if eff_order == 1 && (data.len() + k) % 2 == 0 { x::enc_ser_cases(cx, &enc, 1, *n, &bytes, data.len(), force); }
                // wrong length / damaged stream: whatever the decoder answers, the model answers the same
                if data.len() % 4 == 1 && !bytes.is_empty() {
                    let mut g = bytes.clone();
                    let i = (data.len() * 5) % g.len();
                    g[i] ^= 0x10;
                    let wl = data.len() + (data.len() % 3) - 1;
                    if let Ok(o) = guarded(|| dec_x(&enc, *n, &g, wl, generic)) {
                        let mut a = vec![*n as u128, wl as u128]; a.extend(f.iter().cloned());
                        cx.coq(6, a, &g, obs(&o), "decode_xn (damaged)", false);
                    }
                }
            }
            if let Some(t) = &twin {
                let cell = format!("{}/x{}/serialized", prefix, n);
                judge(cx, &cell, cj, data, Ok(Ok(bytes)), &mut |b, len| guarded(|| dec_x(t, *n, b, len, !generic)));
            }
        }
    }
    // plain contextual coding
    let cell = format!("{}/order{}", prefix, eff_order);
    let r = guarded(|| es(enc.encode(data)));
    if let (Some(f), Ok(rr)) = (&flat, &r) { cx.coq(3, f.clone(), data, obs(rr), "ContextualHuffmanEncoder::encode", force); }
    if let Ok(Ok(b)) = &r { x::enc_ser_cases(cx, &enc, 0, 0, b, data.len(), force); }
    let dec = ContextualHuffmanDecoder::new(enc);
    let bytes = judge(cx, &cell, cj, data, r, &mut |b, n| guarded(|| es(dec.decode(b, n))));
    if let Some(bytes) = bytes {
        if let Some(f) = &flat {
            let mut lens = vec![data.len()];
            if data.len() % 3 == 2 { lens.push(data.len() + 1); lens.push(data.len() - 1); }
            for n in lens {
                if let Ok(o) = guarded(|| es(dec.decode(&bytes, n))) {
                    let mut a = vec![n as u128]; a.extend(f.iter().cloned());
                    cx.coq(4, a, &bytes, obs(&o), "ContextualHuffmanDecoder::decode", force);
                }
            }
            if data.len() % 4 == 3 && !bytes.is_empty() {
                let mut g = bytes.clone();
                let i = (data.len() * 11) % g.len();
                g[i] ^= 0x04;
                if data.len() % 8 == 3 { g.truncate(i + 1); }
                if let Ok(o) = guarded(|| es(dec.decode(&g, data.len()))) {
                    let mut a = vec![data.len() as u128]; a.extend(f.iter().cloned());
                    cx.coq(4, a, &g, obs(&o), "ContextualHuffmanDecoder::decode (damaged)", false);
                }
            }
        }
        if let Some(t) = twin {
            let cell = format!("{}/order{}/serialized", prefix, eff_order);
            let d2 = ContextualHuffmanDecoder::new(t);
            judge(cx, &cell, cj, data, Ok(Ok(bytes)), &mut |b, n| guarded(|| es(d2.decode(b, n))));
        }
    }
}

fn case_ctx(cx: &mut Cx, order: u64, train: &[u8], data: &[u8], xn_mask: u32, force: bool) {
    let cj = json!({"run": "ctx", "order": order, "train": train, "data": data, "xn_mask": xn_mask});
    let cell = format!("ctx/order{}", order);
    match guarded(|| es(ContextualHuffmanEncoder::new(train, order_of(order)))) {
        Err(p) => { let mut c = cj.clone(); c["cell"] = json!(cell); cx.eval(&cell, &cj.to_string(), true); cx.fail(&cell, None, c, &format!("constructor panicked: {}", p)); }
        Ok(Err(_)) => cx.dist("constructor_refused"),
        Ok(Ok(enc)) => {
            if let Some(v) = view_of(&enc) { let f = force || cx.force_new; x::ctx_new_case(cx, order, train, &v, f); }
            // the dedicated constructor job: its order-2 encoders over short trainings are small enough to go through
            // the serialisation cases (ops 9, 10) whatever the budget says
            let f = force || (cx.force_new && order == 2 && train.len() <= 4);
            judge_encoder(cx, "ctx", enc, &cj, data, xn_mask, f)
        }
    }
}

fn view_json(v: &EncView) -> (Value, Value) {
    let tables: Vec<Value> = v.trees.iter().map(|t| Value::Array(t.iter().map(|(s, c)| json!([s, c.iter().map(|&b| b as u8).collect::<Vec<u8>>()])).collect())).collect();
    let ctx: Vec<Value> = v.ctx.iter().map(|(c, i)| json!([c, i])).collect();
    (Value::Array(tables), Value::Array(ctx))
}
fn view_from_json(order: u64, tables: &Value, ctx: &Value) -> EncView {
    let trees: Vec<Table> = tables.as_array().map(|a| a.iter().map(|t| {
        let mut tt: Table = t.as_array().map(|es| es.iter().filter_map(|e| {
            let s = e.get(0)?.as_u64()? as u8;
            let c: Vec<bool> = e.get(1)?.as_array()?.iter().map(|b| b.as_u64().unwrap_or(0) != 0).collect();
            Some((s, c))
        }).collect()).unwrap_or_default();
        tt.sort();
        tt.dedup_by_key(|e| e.0);
        tt
    }).collect()).unwrap_or_default();
    let n = trees.len();
    let ctx: Vec<(u32, usize)> = ctx.as_array().map(|a| a.iter().filter_map(|p| Some((p.get(0)?.as_u64()? as u32, p.get(1)?.as_u64()? as usize))).filter(|p| p.1 < n).collect()).unwrap_or_default();
    EncView { order: order.min(2) as u8, trees, ctx }
}
/// The shapes the crafted generator may produce (and the shrinker must stay within): every table prefix-free with
/// non-empty codes of at most 255 bits, a one-symbol table carries the one-bit code [false] (what from_frequencies builds).
fn view_wellformed(v: &EncView) -> bool {
    if v.trees.is_empty() { return false; }
    v.trees.iter().all(|t| {
        if t.is_empty() { return false; }
        if t.len() == 1 { return t[0].1 == vec![false]; }
        t.iter().all(|(_, c)| !c.is_empty() && c.len() <= 255)
            && t.iter().enumerate().all(|(i, (_, a))| t.iter().enumerate().all(|(j, (_, b))| i == j || !(b.len() >= a.len() && b[..a.len()] == a[..])))
    })
}
fn case_crafted(cx: &mut Cx, v: &EncView, data: &[u8], xn_mask: u32, force: bool) {
    if !view_wellformed(v) { cx.dist("crafted_case_not_wellformed_skipped"); return; }
    let (tj, cjx) = view_json(v);
    let cj = json!({"run": "crafted", "order": v.order, "tables": tj, "ctxmap": cjx, "data": data, "xn_mask": xn_mask});
    let bytes = ser_view(v);
    let cell = format!("crafted/order{}", v.order);
    match guarded(|| es(ContextualHuffmanEncoder::deserialize(&bytes))) {
        Err(p) => { let mut c = cj.clone(); c["cell"] = json!(cell); cx.eval(&cell, &cj.to_string(), true); cx.fail(&cell, None, c, &format!("deserialize panicked: {}", p)); }
        Ok(Err(_)) => cx.dist("crafted_refused_by_deserialize"),
        Ok(Ok(enc)) => judge_encoder(cx, "crafted", enc, &cj, data, xn_mask, force),
    }
}

fn case_varlen(cx: &mut Cx, value: u32, length: u32, bmi2: bool) {
    let cell = "bit_ops/varlen";
    let cj = json!({"run": "varlen", "cell": cell, "value": value, "length": length, "bmi2": bmi2, "data": []});
    cx.eval(cell, &cj.to_string(), length > 1);
    let ops = BitOps::with_config(BitOpsConfig { enable_bmi2: bmi2, ..Default::default() });
    match guarded(|| ops.encode_variable_length_bmi2(value, length)) {
        Err(p) => cx.fail(cell, None, cj, &format!("encode panicked: {}", p)),
        Ok(Err(_)) => cx.dist("encode_refused"),
        Ok(Ok(w)) => match guarded(|| ops.decode_variable_length_bmi2(w, 0, length)) {
            Err(p) => cx.fail(cell, None, cj, &format!("decode panicked: {}", p)),
            Ok(Err(e)) => cx.fail(cell, None, cj, &format!("decoder rejects the encoder's output: {}", e)),
            Ok(Ok(x)) => {
                let want = if length >= 32 { value } else { value & ((1u32 << length) - 1) };
                if x != want { cx.fail(cell, None, cj, &format!("decode(encode(v, len), 0, len) = {} != {}", x, want)); }
            }
        },
    }
}

// ------------------------------------------------------------------------------------------------
// generators
// ------------------------------------------------------------------------------------------------
const TEXT: &[u8] = b"the quick brown fox jumps over the lazy dog; pack my box with five dozen liquor jugs. Entropy coding 0123456789";
const ALPHA_SIZES: [usize; 14] = [1, 2, 3, 13, 14, 16, 17, 18, 33, 64, 65, 66, 255, 256];

fn alphabet(r: &mut Rng, k: usize) -> Vec<u8> {
    let mut all: Vec<u8> = (0..=255u8).collect();
    for i in 0..k.min(256) { let j = i + r.below((256 - i) as u64) as usize; all.swap(i, j); }
    all.truncate(k.clamp(1, 256));
    // byte 0 and 255 are interesting symbols: keep them likely
    if r.chance(1, 3) { all[0] = 0; all.dedup(); }
    let mut seen = [false; 256];
    all.retain(|&s| { let f = !seen[s as usize]; seen[s as usize] = true; f });
    all
}
fn payload(r: &mut Rng, fam: u64, n: usize, al: &[u8]) -> Vec<u8> {
    let k = al.len();
    match fam {
        0 => (0..n).map(|_| al[r.below(k as u64) as usize]).collect(),
        1 => (0..n).map(|_| { let mut i = 0; while i + 1 < k && r.chance(1, 2) { i += 1; } al[i] }).collect(),
        2 => (0..n).map(|_| if r.chance(15, 16) { al[0] } else { al[r.below(k as u64) as usize] }).collect(),
        3 => {
            // Fibonacci-like counts, spread over the payload
            let mut w: Vec<u64> = vec![1, 1];
            while w.len() < k.min(40) { let l = w.len(); w.push(w[l - 1] + w[l - 2]); }
            let tot: u64 = w.iter().take(k).sum();
            (0..n).map(|_| { let mut x = r.below(tot); let mut i = 0; while i + 1 < k.min(40) && x >= w[i] { x -= w[i]; i += 1; } al[k.min(40) - 1 - i] }).collect()
        }
        4 => vec![0u8; n],
        5 => vec![al[0]; n],
        6 => (0..n).map(|i| TEXT[i % TEXT.len()]).collect(),
        7 => (0..n).map(|i| al[i % k]).collect(),
        _ => { let mut v: Vec<u8> = al.iter().cloned().take(n).collect(); while v.len() < n { v.push(al[r.below(k as u64) as usize]); } v }
    }
}
fn training(r: &mut Rng, kind: u64, x: &[u8], al: &[u8]) -> Vec<u8> {
    match kind {
        0 => x.to_vec(),
        1 => { let n = r.range(2, 200) as usize; r.bytes(n) }
        2 => x[..x.len() / 2].to_vec(),
        3 => { let used: Vec<bool> = (0..256).map(|s| x.contains(&(s as u8))).collect(); let free: Vec<u8> = (0..=255u8).filter(|s| !used[*s as usize]).collect();
               if free.is_empty() { vec![] } else { (0..r.range(1, 60)).map(|_| free[r.below(free.len() as u64) as usize]).collect() } }
        4 => vec![],
        5 => vec![x.first().cloned().unwrap_or(7)],
        6 => { let mut t = x.to_vec(); t.extend(0..=255u8); t }
        7 => { let mut a = al.to_vec(); a.reverse(); let n = x.len().max(4); payload(r, 1, n, &a) }
        _ => TEXT.to_vec(),
    }
}
const EDGE_LENS: [usize; 22] = [0, 1, 2, 3, 4, 5, 7, 8, 9, 99, 100, 101, 255, 256, 257, 4095, 4096, 4097, 65535, 65536, 65537, 15];

/// a prefix-free table over `syms`: shape 0 chain (longest codes), 1 balanced, 2 random splits, 3 fixed 8-bit index codes
fn gen_table(r: &mut Rng, syms: &[u8], shape: u64) -> Table {
    fn go(r: &mut Rng, syms: &[u8], shape: u64, prefix: &mut Vec<bool>, out: &mut Table) {
        if syms.len() == 1 { out.push((syms[0], prefix.clone())); return; }
        let cut = match shape { 0 => 1, 1 => syms.len() / 2, _ => 1 + r.below(syms.len() as u64 - 1) as usize };
        let ones_first = shape == 0 && r.chance(1, 2);
        let (a, b) = syms.split_at(cut);
        prefix.push(ones_first); go(r, a, shape, prefix, out); prefix.pop();
        prefix.push(!ones_first); go(r, b, shape, prefix, out); prefix.pop();
    }
    let mut out: Table = vec![];
    if syms.len() == 1 { return vec![(syms[0], vec![false])]; }
    if shape == 3 {
        let mut s = syms.to_vec(); s.sort();
        return s.iter().enumerate().map(|(i, &x)| (x, (0..8).map(|b| (i >> b) & 1 == 1).collect())).collect();
    }
    go(r, syms, shape, &mut vec![], &mut out);
    out.sort();
    out
}
fn gen_view(r: &mut Rng, order: u8) -> (EncView, Vec<u8>) {
    // alphabet of the trees, and whether every tree covers it
    let k = *r.pick(&[1usize, 2, 3, 5, 13, 14, 17, 18, 20, 33, 70, 256]);
    let al = alphabet(r, k);
    let ntrees = if order == 0 { 1 } else { r.range(1, 4) as usize };
    let mut trees = vec![];
    for i in 0..ntrees {
        let shape = r.below(4);
        let mut syms = al.clone();
        if i > 0 && r.chance(1, 4) && syms.len() > 1 { syms.truncate(1 + r.below(syms.len() as u64 - 1) as usize); }
        // single-symbol context trees (one-bit code, leaf root) are a corner of their own
        if i > 0 && r.chance(1, 5) { syms.truncate(1); }
        if shape != 3 { for j in (1..syms.len()).rev() { let q = r.below(j as u64 + 1) as usize; syms.swap(j, q); } }
        trees.push(gen_table(r, &syms, shape));
    }
    let mut ctx: Vec<(u32, usize)> = vec![];
    if order >= 1 {
        for _ in 0..r.range(0, 5) {
            let c = if order == 1 { *r.pick(&al) as u32 } else { ((*r.pick(&al) as u32) << 8) | *r.pick(&al) as u32 };
            if ctx.iter().all(|p| p.0 != c) { ctx.push((c, r.below(ntrees as u64) as usize)); }
        }
        ctx.sort();
    }
    (EncView { order, trees, ctx }, al)
}

// ------------------------------------------------------------------------------------------------
pub fn run_one(cx: &mut Cx, c: &Value) -> bool {
    let data = bytes_of(&c["data"]);
    let train = bytes_of(&c["train"]);
    let mask = c["xn_mask"].as_u64().unwrap_or(15) as u32;
    match c["run"].as_str().unwrap_or("") {
        "order0" => { case_order0(cx, &train, freqs_of(&c["freqs"]), &data, 7, true); true }
        "ctx" => { case_ctx(cx, c["order"].as_u64().unwrap_or(1), &train, &data, mask, true); true }
        "crafted" => { let v = view_from_json(c["order"].as_u64().unwrap_or(1), &c["tables"], &c["ctxmap"]); case_crafted(cx, &v, &data, mask, true); true }
        "adaptive" => { case_adaptive(cx, &data); true }
        "par_hist" => { x::run_par_hist(cx, c); true }
        "varlen" => { case_varlen(cx, c["value"].as_u64().unwrap_or(0) as u32, c["length"].as_u64().unwrap_or(1) as u32, c["bmi2"].as_bool().unwrap_or(true)); true }
        _ => wide::run_one(cx, c),
    }
}

type Job = Box<dyn FnOnce(&mut Cx, &mut Rng) + Send>;
/// (job, percent of the family's Coq budget, generator family)
type JobSpec = (Job, usize, u8);

/// Runs the jobs on worker threads, each with its own Rng (seeded from the run's Rng before anything starts), and
/// applies their records in job order.
fn run_jobs(jobs: Vec<JobSpec>, sum: &mut Summary, shards: &mut CoqShards, rng: &mut Rng, th: bool, used: &mut HashMap<(u32, u8), usize>) {
    use std::sync::{atomic::{AtomicUsize, Ordering}, Mutex};
    let n = jobs.len();
    let slots: Vec<Mutex<Option<(Job, usize, u8, Rng)>>> = jobs.into_iter().map(|(j, share, cat)| Mutex::new(Some((j, share, cat, Rng::new(rng.next()))))).collect();
    let done: Vec<Mutex<Option<Cx>>> = (0..n).map(|_| Mutex::new(None)).collect();
    let next = AtomicUsize::new(0);
    let workers = std::thread::available_parallelism().map(|x| x.get()).unwrap_or(4).min(16);
    std::thread::scope(|sc| {
        for _ in 0..workers {
            sc.spawn(|| loop {
                let i = next.fetch_add(1, Ordering::SeqCst);
                if i >= n { break; }
                let (job, share, cat, mut r) = slots[i].lock().unwrap().take().unwrap();
                let mut cx = Cx::new(th, share, cat);
                // library calls are individually guarded; this guard only keeps a harness slip from taking the run down
                if let Err(p) = guarded(|| job(&mut cx, &mut r)) {
                    cx.fail("harness", None, json!({"cell": "harness", "job": i}), &format!("job {} panicked outside a guarded call: {}", i, p));
                }
                *done[i].lock().unwrap() = Some(cx);
            });
        }
    });
    for d in done { if let Some(cx) = d.into_inner().unwrap() { cx.flush(sum, shards, used); } }
}

pub fn run_cells(sum: &mut Summary, shards: &mut CoqShards, rng: &mut Rng, args: &Args) {
    let th = args.thorough;
    // cells without a mechanism model of their own (the wrappers, the serialised forms, the SIMD bit buffer)
    sum.cell_status("huffman/order0/serialized_tree", "M+S");
    for v in ["x2", "x4", "x8"] { sum.cell_status(&format!("parallel/{}/history", v), "M+S"); }
    sum.cell_status("parallel/adaptive", "M+S");
    for c in ["simd/avx2bmi2", "simd/avx2", "simd/sse42bmi2", "simd/sse42", "simd/bmi2", "simd/scalar", "bit_ops/varlen"] {
        sum.cell_status(c, "S-only");
    }
    for v in ["x2", "x4", "x8"] { for c in ["default", "low_latency", "high_throughput", "always_parallel"] { for a in ["", "/auto_train"] {
        sum.cell_status(&format!("parallel/{}/{}{}", v, c, a), "M+S");
    } } }
    for pfx in ["ctx", "crafted"] {
        for k in 0..3 { sum.cell_status(&format!("{}/order{}/serialized", pfx, k), "M+S"); }
        for n in [1, 2, 4, 8] { sum.cell_status(&format!("{}/x{}/serialized", pfx, n), "M+S"); }
    }
    let mut jobs: Vec<JobSpec> = vec![];
    // 1. enumerated universe: all strings of length <= 3 over a 3-letter alphabet x every variant x three trainings
    let abc = [b'a', 0u8, 255u8];
    let mut universe: Vec<Vec<u8>> = vec![vec![]];
    for l in 1..=3 { let prev: Vec<Vec<u8>> = universe.iter().filter(|s| s.len() == l - 1).cloned().collect(); for p in prev { for &s in &abc { let mut q = p.clone(); q.push(s); universe.push(q); } } }
    sum.dist_max("enumerated_strings", universe.len() as u64);
    for (i, x) in universe.into_iter().enumerate() {
        jobs.push((Box::new(move |cx: &mut Cx, _r: &mut Rng| {
            let fixed_train: Vec<u8> = vec![b'a', 0, 255, b'a', b'a', 0, b'a', 255, 0, 0, 255, 255, b'a'];
            for (tk, t) in [fixed_train, x.clone(), TEXT.to_vec()].iter().enumerate() {
                case_order0(cx, t, None, &x, if tk == 0 || cx.th { 7 } else { 4 }, false);
                for order in 0..3u64 {
                    // the interleaved pairs are costly (a 257 x 4096 decode table per call): every stream count with the
                    // fixed training, a rotating one otherwise
                    let mask = if order != 1 { 0 } else if tk == 0 || cx.th { 15 } else { 1 << (i % 4) };
                    case_ctx(cx, order, t, &x, mask, false);
                }
            }
            case_adaptive(cx, &x);
        }), 5, 0));
    }
    // 2. boundary lengths x alphabets x skews, order-0 family
    for (li, &n) in EDGE_LENS.iter().enumerate() {
        jobs.push((Box::new(move |cx: &mut Cx, rng: &mut Rng| {
            for (ai, &k) in ALPHA_SIZES.iter().enumerate() {
                if !cx.th && n > 5000 && (li + ai) % 5 != 0 { continue; }
                if !cx.th && n > 200 && (li + ai) % 2 != 0 { continue; }
                let al = alphabet(rng, k);
                let fam = if k == 1 { *rng.pick(&[4u64, 5]) } else { rng.below(9) };
                let x = payload(rng, fam, n, &al);
                let tk = if (li + ai) % 3 == 0 { 0 } else { rng.below(9) };
                let t = training(rng, tk, &x, &al);
                let extras = if n <= 300 { 7 } else if (li + ai) % 4 == 0 { 3 } else { 0 };
                if li == 10 && ai < 3 { cx.sample(json!({"kind": "order0", "alphabet": k, "family": fam, "len": n, "training_kind": tk})); }
                case_order0(cx, &t, None, &x, extras, false);
            }
        }), 10, 1));
    }
    // payloads beyond the SIMD encoder's size classes (1 KiB, 8 KiB) with short and long codes
    jobs.push((Box::new(move |cx: &mut Cx, rng: &mut Rng| {
        for &(n, k) in &[(1023usize, 5usize), (1024, 20), (1025, 33), (8191, 3), (8192, 34), (8193, 12), (8192, 40)] {
            let al = alphabet(rng, k);
            let x = payload(rng, 8, n, &al);
            case_order0(cx, &x, None, &x, 3, false);
        }
    }), 0, 1));
    // from_frequencies: counts the byte-counting constructors never see
    jobs.push((Box::new(move |cx: &mut Cx, rng: &mut Rng| {
        for k in 0..(if cx.th { 400 } else { 60 }) {
            let mut f = [0u32; 256];
            let nsym = *rng.pick(&[1usize, 2, 3, 16, 17, 40, 64, 65, 66, 256]);
            let al = alphabet(rng, nsym);
            for (i, &s) in al.iter().enumerate() {
                f[s as usize] = match k % 6 {
                    0 => 1, 1 => 1u32 << (i % 31), 2 => u32::MAX, 3 => if i == 0 { u32::MAX } else { 1 },
                    4 => { let mut a = 1u64; let mut b = 1u64; for _ in 0..i.min(44) { let c = a + b; a = b; b = c; } a.min(u32::MAX as u64) as u32 }
                    _ => rng.next() as u32 | 1,
                };
            }
            let n = *rng.pick(&[0usize, 1, 2, 9, 100, 257]);
            let fam = rng.below(3);
            let x = payload(rng, fam, n, &al);
            case_order0(cx, &[], Some(f), &x, 4, false);
        }
    }), 25, 2));
    // 3. contextual coders and interleaved streams: boundary lengths (incl. N-1, N, N+1 for each stream count)
    for (li, &n) in EDGE_LENS.iter().enumerate() {
        for (ai, &k) in [1usize, 2, 3, 16, 66, 255, 256].iter().enumerate() {
            if !th && n > 300 && (li + ai) % 4 != 0 { continue; }
            jobs.push((Box::new(move |cx: &mut Cx, rng: &mut Rng| {
                let al = alphabet(rng, k);
                let fam = if k == 1 { 5 } else { rng.below(9) };
                let x = payload(rng, fam, n, &al);
                let tk = if (li + ai) % 2 == 0 { 0 } else { rng.below(9) };
                let t = training(rng, tk, &x, &al);
                for order in 0..3u64 {
                    let mask = if order != 1 { 0 } else if n <= 9 || cx.th { 15 } else if n > 5000 { 1 << ((li + ai) % 4) } else { (1 << ((li + ai) % 4)) | (1 << ((li + ai + 2) % 4)) };
                    if !cx.th && n > 5000 && order != 1 && ai % 2 == 0 { continue; }
                    if li == 9 && ai < 3 && order == 1 { cx.sample(json!({"kind": "contextual", "order": order, "alphabet": k, "family": fam, "len": n, "training_kind": tk, "streams_mask": mask})); }
                    case_ctx(cx, order, &t, &x, mask, false);
                }
            }), 4, 1));
        }
    }
    // 3b. the counting loops of the constructors: short trainings (the order fallbacks), every byte as an order-1 context,
    // order-2 trainings with fewer and more than 1024 distinct contexts (ties at the cut)
    jobs.push((Box::new(move |cx: &mut Cx, rng: &mut Rng| {
        let mut ts: Vec<Vec<u8>> = vec![vec![], vec![7], vec![7, 7], vec![0, 255], vec![1, 2, 3], vec![9, 9, 9], TEXT.to_vec()];
        ts.push((0..=255u8).chain(0..=255u8).collect());
        ts.push(rng.bytes(1300));
        { let al = alphabet(rng, 40); ts.push(payload(rng, 1, 2000, &al)); }
        { let al = alphabet(rng, 33); ts.push(payload(rng, 0, 1030, &al)); }
        cx.force_new = true;
        for t in ts.iter() {
            for order in 0..3u64 {
                let x: Vec<u8> = if t.len() > 300 { t[..50].iter().rev().cloned().collect() } else { t.iter().rev().cloned().collect() };
                case_ctx(cx, order, t, &x, 0, false);
            }
        }
    }), 10, 1));
    // 3c. histories on one ParallelHuffmanEncoder object
    jobs.push((Box::new(move |cx: &mut Cx, rng: &mut Rng| x::par_jobs(cx, rng)), 100, 2));
    // 4. random cases
    for chunk in 0..(if th { 300 } else { 30 }) {
        jobs.push((Box::new(move |cx: &mut Cx, rng: &mut Rng| {
            for k in 0..20 {
                let ak = *rng.pick(&ALPHA_SIZES);
                let al = alphabet(rng, ak);
                let n = match rng.below(5) { 0 => *rng.pick(&EDGE_LENS[..15]), 1 => rng.range(0, 40) as usize, 2 => rng.range(40, 600) as usize, 3 => rng.range(0, 12) as usize, _ => rng.range(600, 3000) as usize };
                let fam = rng.below(9);
                let x = payload(rng, fam, n, &al);
                let tk = rng.below(9);
                let t = training(rng, tk, &x, &al);
                match (k + chunk) % 3 {
                    0 => case_order0(cx, &t, None, &x, if n < 400 { 7 } else { 1 }, false),
                    1 => { let order = rng.below(3); let m = 1 << rng.below(4); case_ctx(cx, order, &t, &x, if order == 1 { m } else { 0 }, false) }
                    _ => case_adaptive(cx, &x),
                }
            }
        }), 6, 2));
    }
    // 5. encoders obtained through the public deserialize from well-formed crafted tables
    for chunk in 0..(if th { 500 } else { 50 }) {
        jobs.push((Box::new(move |cx: &mut Cx, rng: &mut Rng| {
            for k in 0..20usize {
                let order = ((k + chunk) % 3) as u8;
                let (v, al) = gen_view(rng, order);
                let n = match rng.below(4) { 0 => rng.range(0, 9) as usize, 1 => *rng.pick(&[15usize, 16, 17, 31, 32, 33]), _ => rng.range(1, 120) as usize };
                // payload over the trees' alphabet; sometimes with a symbol no tree knows
                let fam = rng.below(9);
                let mut x = payload(rng, fam, n, &al);
                if rng.chance(1, 8) && !x.is_empty() { let i = rng.below(x.len() as u64) as usize; x[i] = rng.next() as u8; }
                // make the payload visit the mapped contexts
                if order >= 1 && rng.chance(1, 2) { for (c, _) in &v.ctx { if order == 2 { x.push((c >> 8) as u8); } x.push(*c as u8); x.push(al[rng.below(al.len() as u64) as usize]); } }
                let mask = if order == 1 { if k % 2 == 0 { 15 } else { 1 << rng.below(4) } } else { 0 };
                if chunk == 0 && k < 3 { cx.sample(json!({"kind": "crafted", "order": order, "trees": v.trees.len(), "max_code_len": v.trees.iter().map(max_len).max(), "len": x.len()})); }
                case_crafted(cx, &v, &x, mask, false);
            }
        }), 4, 3));
    }
    // 6. bit_ops variable-length fields
    jobs.push((Box::new(move |cx: &mut Cx, rng: &mut Rng| {
        for k in 0..(if cx.th { 4000 } else { 400 }) {
            let length = if k < 70 { (k % 35) as u32 } else { rng.range(1, 32) as u32 };
            let value = match k % 4 { 0 => u32::MAX, 1 => rng.next() as u32, 2 => (1u64 << length.min(32)).wrapping_sub(1) as u32, _ => 1u32.checked_shl(length).unwrap_or(0) };
            case_varlen(cx, value, length, k % 2 == 0);
        }
    }), 0, 2));
    // 7. breadth: object histories, presets / options, thresholds (c01_wide.rs; no Coq counterpart)
    jobs.extend(wide::jobs(th));
    let mut used = HashMap::new();
    run_jobs(jobs, sum, shards, rng, th, &mut used);
    let wide_cells: Vec<String> = sum.cells.keys().filter(|k| k.starts_with("wide/")).cloned().collect();
    for c in wide_cells { sum.cell_status(&c, "S-only"); }
}

/// Header of the generated Coq case files: both halves' models, cases dispatched on the op number
/// (Huffman half: ops below 100, `run_case_a` in ModelCtx.v; rANS / FSE / LZ half: `run_case_b` in ModelFse.v).
fn merged_header() -> String {
    format!("From ZV.Common Require Import Base Run.\n{}{}Open Scope N_scope.\nDefinition case_t : Type := N * list N * list N * list N.\nDefinition run_case (op : N) (a b : list N) : list N := if op <? 100 then {} else run_case_b op a b.\nDefinition ok (c : case_t) : bool :=\n  let '(op, a, b, expect) := c in eqb_ln (run_case op a b) expect.\n", IMPORTS_A, b::HEADER_B, DISPATCH_A)
}

/// The two halves keep separate shard sets (the rANS / FSE cases are ~10x more expensive to evaluate in Coq, so their
/// shards are smaller); the second set is written into a sub-directory.
fn write_all(sum: &mut Summary, args: &Args, shards: &CoqShards, shards_b: &CoqShards) {
    sum.dist_max("coq_cases", (shards.len() + shards_b.len()) as u64);
    let mut sh = shards.write(&args.out);
    let bdir = format!("{}/b", args.out);
    let _ = std::fs::create_dir_all(&bdir);
    sh.extend(shards_b.write(&bdir));
    sum.write(&args.out, sh);
}

pub fn run(args: &Args) {
    quiet_panics();
    let rule = format!("{} || {} || {}", RULE, b::RULE_B, wide::RULE_W);
    let mut sum = Summary::new("C01", &rule);
    let hdr = merged_header();
    let mut shards = CoqShards::new(&hdr, 150);
    let mut shards_b = CoqShards::new(&hdr, 40);
    let mut rng = Rng::new(args.seed);
    if let Some(f) = &args.replay {
        let txt = std::fs::read_to_string(f).expect("replay file");
        let v: Value = serde_json::from_str(&txt).expect("replay json");
        let c = if v.get("case").is_some() { v["case"].clone() } else { v };
        let mut cx = Cx::new(args.thorough, 100, 4);
        let mine = run_one(&mut cx, &c);
        cx.flush(&mut sum, &mut shards, &mut HashMap::new());
        if !mine { b::replay_case(&mut sum, &mut shards_b, &c); }
        write_all(&mut sum, args, &shards, &shards_b);
        return;
    }
    if let Ok(rd) = std::fs::read_dir("corpus/C01") {
        let mut files: Vec<_> = rd.filter_map(|e| e.ok()).map(|e| e.path()).filter(|p| p.extension().map(|e| e == "json").unwrap_or(false)).collect();
        files.sort();
        let mut cx = Cx::new(args.thorough, 100, 4);
        for p in files {
            if p.file_name().and_then(|n| n.to_str()).map(|n| n.starts_with("b_")).unwrap_or(false) { continue; } // the other half runs its own
            if let Ok(txt) = std::fs::read_to_string(&p) {
                if let Ok(v) = serde_json::from_str::<Value>(&txt) {
                    let c = if v.get("case").is_some() { v["case"].clone() } else { v };
                    if run_one(&mut cx, &c) { cx.dist("corpus_cases"); }
                }
            }
        }
        cx.flush(&mut sum, &mut shards, &mut HashMap::new());
    }
    let t0 = std::time::Instant::now();
    run_cells(&mut sum, &mut shards, &mut rng, args);
    if std::env::var("ZV_TIMING").is_ok() { eprintln!("run_cells (Huffman half + breadth): {} ms", t0.elapsed().as_millis()); }
    let mut rng_b = Rng::new(args.seed ^ 0x5eed_b);
    b::run_cells(&mut sum, &mut shards_b, &mut rng_b, args);
    write_all(&mut sum, args, &shards, &shards_b);
}
