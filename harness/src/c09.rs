//! C09: packed / compressed integer vectors return every stored value unchanged.
//! M+S cell: UintVecMin0 (operation histories evaluated against the Coq model, incl. raw memory).
//! S-only cells: ZipIntVec, SortedUintVec(+builder, three presets), IntVec<T> x 3 constructors x 8 types,
//! UintVector (bulk + push).
use crate::util::*;
use serde_json::{json, Value};
use zipora::blob_store::sorted_uint_vec::{SortedUintVecBuilder, SortedUintVecConfig};
use zipora::containers::specialized::{IntVec, PackedInt, UintVector};
use zipora::containers::{UintVecMin0, ZipIntVec};

const HEADER: &str = r#"From ZV.Common Require Import Base Run.
From ZV.C09 Require Import Model.
Open Scope N_scope.
Definition case_t : Type := list (N * list N) * list (list Z).
Fixpoint eqb_llz (a b : list (list Z)) : bool :=
  match a, b with
  | [], [] => true
  | x :: a', y :: b' => eqb_lz x y && eqb_llz a' b'
  | _, _ => false
  end.
Definition ok (c : case_t) : bool := let '(ops, expect) := c in eqb_llz (run_ops empty ops) expect.
"#;

struct Ctx { sum: Summary, shards: CoqShards, budget: usize }

fn le_number(data: &[u8]) -> String {
    // decimal rendering of the little-endian number denoted by `data`
    let mut digits: Vec<u8> = vec![0]; // little-endian decimal digits
    for &b in data.iter().rev() {
        let mut carry = b as u32;
        for d in digits.iter_mut() {
            let v = (*d as u32) * 256 + carry;
            *d = (v % 10) as u8;
            carry = v / 10;
        }
        while carry > 0 { digits.push((carry % 10) as u8); carry /= 10; }
    }
    digits.iter().rev().map(|d| (b'0' + d) as char).collect()
}

/// One history on a single UintVecMin0; returns (ops as coq, observations as coq, oracle failure).
fn min0_history(cx: &mut Ctx, ops: &[(u32, Vec<u64>)], force: bool) {
    let cell = "UintVecMin0";
    let key = format!("{:?}", ops);
    cx.sum.eval(cell, &key, ops.len() >= 3);
    let cj = json!({"cell": "min0", "ops": ops.iter().map(|(o, a)| json!([o, a.iter().map(|x| x.to_string()).collect::<Vec<_>>()])).collect::<Vec<_>>()});
    let mut v = UintVecMin0::new_empty();
    let mut shadow: Vec<u64> = vec![];       // what a Vec would hold
    let mut shadow_valid = true;              // false once an op's effect on a Vec is not defined (resize growth = zeros is defined)
    let mut obs: Vec<String> = vec![];
    let mut wide = false;
    for (op, a) in ops {
        let a0 = a.get(0).copied().unwrap_or(0) as usize;
        let a1 = a.get(1).copied().unwrap_or(0) as usize;
        let r: Result<String, String> = match op {
            0 => guarded(|| { let nv = UintVecMin0::new(a0, a1); nv }).map(|nv| { v = nv; shadow = vec![0; a0]; shadow_valid = true; "[0]%Z".to_string() }),
            1 => { let mut v2 = v.clone(); guarded(move || { v2.set(a0, a1); v2 }).map(|nv| { v = nv; if a0 < shadow.len() { shadow[a0] = a1 as u64; } "[0]%Z".to_string() }) }
            2 => { let v2 = v.clone(); let r = guarded(move || v2.get(a0));
                   if let Ok(x) = &r { if shadow_valid && a0 < shadow.len() && *x as u64 != shadow[a0] {
                       cx.sum.fail(cell, None, cj.clone(), &format!("get({}) = {} but a Vec holds {}", a0, x, shadow[a0])); } }
                   r.map(|x| format!("[0; {}]%Z", x)) }
            3 => { let mut v2 = v.clone(); guarded(move || { v2.push_back(a0); v2 }).map(|nv| { v = nv; shadow.push(a0 as u64); "[0]%Z".to_string() }) }
            4 => { let mut v2 = v.clone(); guarded(move || { v2.resize(a0); v2 }).map(|nv| { v = nv;
                       if a0 > shadow.len() { shadow_valid = false; } // bits beyond the old size are whatever memory held
                       shadow.resize(a0, 0); "[0]%Z".to_string() }) }
            5 => { v.clear(); shadow.clear(); shadow_valid = true; Ok("[0]%Z".to_string()) }
            6 => { let src: Vec<usize> = a.iter().map(|&x| x as usize).collect();
                   guarded(|| UintVecMin0::build_from_usize(&src)).map(|(nv, mn)| { v = nv; shadow = src.iter().map(|&x| (x - mn) as u64).collect(); shadow_valid = true; format!("[0; {}]%Z", mn) }) }
            _ => Ok(format!("[{}; {}; {}; {}]%Z", v.size(), v.uintbits(), v.data().len(), le_number(v.data()))),
        };
        match r {
            Ok(s) => obs.push(s),
            Err(msg) => {
                obs.push("[(-1)]%Z".to_string());
                if v.uintbits() > 58 || a.iter().any(|&x| x >= (1u64 << 58)) { wide = true; }
                // a panic is a property violation unless it is the documented refusal of an out-of-range index/value
                let refusal = msg.contains("out of bounds") || msg.contains("exceeds max");
                if !refusal {
                    let class = if wide || msg.contains("58") || msg.contains("shift left") { Some("min0_width_above_58") } else { None };
                    cx.sum.fail(cell, class, cj.clone(), &format!("op {} {:?} panicked: {}", op, a, msg));
                }
            }
        }
        if v.size() != shadow.len() {
            cx.sum.fail(cell, None, cj.clone(), &format!("size {} but a Vec holds {}", v.size(), shadow.len()));
        }
    }
    // model comparison is meaningful only where the model is defined (bits <= 58 paths)
    if !wide && (force || cx.shards.len() < cx.budget) {
        let ops_coq: Vec<String> = ops.iter().map(|(o, a)| format!("({}, {})", o, coq_n_list(a.iter().map(|&x| x as u128)))).collect();
        let term = format!("([{}], [{}])", ops_coq.join("; "), obs.join("; "));
        cx.shards.push(term, cj);
    }
}

fn gen_history(r: &mut Rng) -> Vec<(u32, Vec<u64>)> {
    let mut ops: Vec<(u32, Vec<u64>)> = vec![];
    let width = *r.pick(&[0u32, 1, 3, 7, 8, 9, 13, 31, 32, 33, 57, 58]);
    let maxv: u64 = if width == 0 { 0 } else { (1u64 << width) - 1 };
    let mut size: u64;
    if r.chance(1, 3) {
        let n = r.range(1, 70);
        let base = r.below(1000);
        let src: Vec<u64> = (0..n).map(|_| base + if maxv == 0 { 0 } else { r.below(maxv.min(u64::MAX - 1000) ) }).collect();
        ops.push((6, src));
        size = n;
    } else if r.chance(1, 2) {
        size = r.below(70);
        ops.push((0, vec![size, maxv]));
    } else {
        size = 0;
    }
    let nops = r.range(2, 14);
    for _ in 0..nops {
        let val = |r: &mut Rng| if maxv == 0 { r.below(3) } else if r.chance(1, 4) { maxv } else if r.chance(1, 8) { maxv.saturating_add(1) } else { r.below(maxv) + r.below(2) };
        match r.below(10) {
            0..=2 => { let i = if size > 0 && r.chance(9, 10) { r.below(size) } else { size + r.below(2) }; ops.push((1, vec![i, val(r)])); }
            3..=4 => { let i = if size > 0 && r.chance(9, 10) { r.below(size) } else { size }; ops.push((2, vec![i])); }
            5..=7 => { ops.push((3, vec![val(r)])); size += 1; }
            8 => { let n = if r.chance(1, 2) { r.below(size + 1) } else { size + r.below(20) }; ops.push((4, vec![n])); size = n; }
            _ => { if r.chance(1, 4) { ops.push((5, vec![])); size = 0; } else { ops.push((7, vec![])); } }
        }
    }
    // read everything back at the end and dump raw memory
    for i in 0..size.min(80) { ops.push((2, vec![i])); }
    ops.push((7, vec![]));
    ops
}

fn check_seq<T: Copy + PartialEq + std::fmt::Debug>(cx: &mut Ctx, cell: &str, class: Option<&str>, cj: Value,
        want: &[T], len: usize, get: impl Fn(usize) -> Option<T>) {
    if len != want.len() {
        cx.sum.fail(cell, class, cj, &format!("len {} want {}", len, want.len()));
        return;
    }
    for (i, w) in want.iter().enumerate() {
        let g = get(i);
        if g != Some(*w) {
            cx.sum.fail(cell, class, cj, &format!("element {} reads back {:?}, stored {:?}", i, g, w));
            return;
        }
    }
    if get(want.len()).is_some() || get(want.len() + 7).is_some() {
        cx.sum.fail(cell, class, cj, "read past the end was not refused");
    }
}

fn intvec_case<T: PackedInt + PartialEq + std::fmt::Debug + Copy + std::panic::RefUnwindSafe>(cx: &mut Ctx, tname: &str, vals: &[T], shown: Vec<String>, class: Option<&'static str>) {
    for (ctor, cname) in [(0, "from_slice"), (1, "from_slice_bulk"), (2, "from_slice_bulk_simd")] {
        let cell = format!("IntVec<{}>/{}", tname, cname);
        cx.sum.eval(&cell, &format!("{} {:?}", cell, shown), vals.len() >= 2);
        cx.sum.cell_status(&cell, "S-only");
        let cj = json!({"cell": "intvec", "type": tname, "ctor": ctor, "values": shown});
        let r = guarded(|| match ctor { 0 => IntVec::<T>::from_slice(vals), 1 => IntVec::<T>::from_slice_bulk(vals), _ => IntVec::<T>::from_slice_bulk_simd(vals) });
        match r {
            Err(p) => cx.sum.fail(&cell, class, cj, &format!("constructor panicked: {}", p)),
            Ok(Err(_)) => cx.sum.dist("build_refused"),
            Ok(Ok(iv)) => {
                let len = iv.len();
                let rr = guarded(|| { let mut out = vec![]; for i in 0..vals.len() + 8 { out.push(iv.get(i)); } out });
                match rr {
                    Err(p) => cx.sum.fail(&cell, class, cj, &format!("get panicked: {}", p)),
                    Ok(out) => check_seq(cx, &cell, class, cj, vals, len, |i| out.get(i).copied().flatten()),
                }
            }
        }
    }
}

macro_rules! intvec_family {
    ($cx:expr, $r:expr, $t:ty, $name:expr) => {{
        let r: &mut Rng = $r;
        let n = *r.pick(&[0usize, 1, 2, 3, 63, 64, 65, 127, 128, 129, 200]);
        let n = if r.chance(1, 2) { n.min(12) } else { n };
        let min = <$t>::MIN; let max = <$t>::MAX;
        let kind = r.below(7);
        let vals: Vec<$t> = (0..n).map(|i| match kind {
            0 => 42 as $t,
            1 => (i as i128 % 100) as $t,
            2 => (r.below(16)) as $t,
            3 => r.next() as $t,
            4 => if r.chance(1, 20) { max } else { (r.below(8)) as $t },
            5 => *r.pick(&[min, max, 0 as $t, 1 as $t, max - 1]),
            _ => { let mut x = r.next() as $t; if i % 2 == 0 { x = x >> 1; } x }
        }).collect();
        let _ = (min, max);
        let lo = vals.iter().map(|&v| v as i128).min().unwrap_or(0);
        let hi = vals.iter().map(|&v| v as i128).max().unwrap_or(0);
        let class = if std::mem::size_of::<$t>() == 8 && hi - lo >= (1i128 << 58) { Some("intvec_width_above_58") }
                    else { None };
        let shown: Vec<String> = vals.iter().map(|v| v.to_string()).collect();
        intvec_case::<$t>($cx, $name, &vals, shown, class);
    }};
}

fn sorted_case(cx: &mut Ctx, preset: usize, vals: &[u64]) {
    let (cfg, pname, w) = match preset {
        0 => (SortedUintVecConfig::default(), "default", 16u32),
        1 => (SortedUintVecConfig::performance_optimized(), "performance", 20),
        _ => (SortedUintVecConfig::memory_optimized(), "memory", 12),
    };
    let bs = cfg.block_size();
    let cell = format!("SortedUintVec/{}", pname);
    cx.sum.eval(&cell, &format!("{} {:?}", cell, vals), vals.len() >= 2);
    cx.sum.cell_status(&cell, "S-only");
    let cj = json!({"cell": "sorted", "preset": preset, "values": vals.iter().map(|v| v.to_string()).collect::<Vec<_>>()});
    let r = guarded(|| {
        let mut b = SortedUintVecBuilder::with_config(cfg);
        for &v in vals { if b.push(v).is_err() { return Err("push refused".to_string()); } }
        b.finish().map_err(|e| format!("{:?}", e))
    });
    // oracle for "reports an error": some in-block delta does not fit the offset width
    let fits = vals.chunks(bs).all(|c| c.iter().all(|&v| v - c[0] < (1u64 << w)));
    match r {
        Err(p) => cx.sum.fail(&cell, None, cj, &format!("build panicked: {}", p)),
        Ok(Err(_)) => { cx.sum.dist("sorted_build_refused"); if fits { cx.sum.dist("sorted_refused_although_fits"); } }
        Ok(Ok(sv)) => {
            let rr = guarded(|| {
                let mut out = vec![];
                for i in 0..vals.len() + 2 { out.push(sv.get(i).ok()); }
                let mut pairs = vec![];
                for i in 0..vals.len().saturating_sub(1) { pairs.push(sv.get2(i).ok()); }
                let mut blocks: Vec<Option<Vec<u64>>> = vec![];
                for b in 0..sv.num_blocks() { let mut o = vec![0u64; bs]; blocks.push(sv.get_block(b, &mut o).ok().map(|_| o)); }
                (sv.len(), out, pairs, blocks)
            });
            match rr {
                Err(p) => cx.sum.fail(&cell, None, cj, &format!("read panicked: {}", p)),
                Ok((len, out, pairs, blocks)) => {
                    check_seq(cx, &cell, None, cj.clone(), vals, len, |i| out.get(i).copied().flatten());
                    for (i, p) in pairs.iter().enumerate() {
                        if *p != Some((vals[i], vals[i + 1])) { cx.sum.fail(&cell, None, cj.clone(), &format!("get2({}) = {:?}", i, p)); break; }
                    }
                    for (b, blk) in blocks.iter().enumerate() {
                        let want = &vals[b * bs..((b + 1) * bs).min(vals.len())];
                        match blk {
                            Some(o) if &o[..want.len()] == want => {}
                            other => { cx.sum.fail(&cell, None, cj.clone(), &format!("get_block({}) = {:?}", b, other.as_ref().map(|o| &o[..want.len().min(4)]))); break; }
                        }
                    }
                }
            }
        }
    }
}

fn uintvector_case(cx: &mut Ctx, vals: &[u32], by_push: bool) {
    let cell = if by_push { "UintVector/push" } else { "UintVector/build_from" };
    cx.sum.eval(cell, &format!("{} {:?}", cell, vals), vals.len() >= 2);
    cx.sum.cell_status(cell, "S-only");
    let cj = json!({"cell": "uintvector", "push": by_push, "values": vals});
    let r = guarded(|| {
        let uv = if by_push { let mut u = UintVector::new(); for &v in vals { u.push(v).map_err(|e| format!("{:?}", e))?; } u }
                 else { UintVector::build_from(vals).map_err(|e| format!("{:?}", e))? };
        let out: Vec<Option<u32>> = (0..vals.len() + 8).map(|i| uv.get(i)).collect();
        Ok::<_, String>((uv.len(), out))
    });
    match r {
        Err(p) => cx.sum.fail(cell, None, cj, &format!("panicked: {}", p)),
        Ok(Err(_)) => cx.sum.dist("build_refused"),
        Ok(Ok((len, out))) => check_seq(cx, cell, None, cj, vals, len, |i| out.get(i).copied().flatten()),
    }
}

fn zip_case(cx: &mut Ctx, vals: &[u64], by_push: bool) {
    let cell = if by_push { "ZipIntVec/push" } else { "ZipIntVec/build_from" };
    cx.sum.eval(cell, &format!("{} {:?}", cell, vals), vals.len() >= 2);
    cx.sum.cell_status(cell, "S-only");
    let cj = json!({"cell": "zip", "push": by_push, "values": vals.iter().map(|v| v.to_string()).collect::<Vec<_>>()});
    let mn = vals.iter().min().copied().unwrap_or(0);
    let mx = vals.iter().max().copied().unwrap_or(0);
    let class = if mn == mx && mn == u64::MAX { Some("zip_all_equal_usize_max") } else if mx - mn >= (1u64 << 58) { Some("min0_width_above_58") } else { None };
    let src: Vec<usize> = vals.iter().map(|&v| v as usize).collect();
    let r = guarded(|| {
        let z = if by_push {
            let mut z = ZipIntVec::new(0, mn as usize, (mx as usize).max(mn as usize + 1));
            z.resize(0);
            for &v in &src { z.push_back(v); }
            z
        } else { ZipIntVec::build_from_usize(&src) };
        let out: Vec<u64> = (0..src.len()).map(|i| z.get(i) as u64).collect();
        (z.size(), out)
    });
    match r {
        Err(p) => cx.sum.fail(cell, class, cj, &format!("panicked: {}", p)),
        Ok((len, out)) => check_seq(cx, cell, class, cj, vals, len, |i| out.get(i).copied()),
    }
}

fn parse_u64s(v: &Value) -> Vec<u64> {
    v.as_array().map(|a| a.iter().map(|x| x.as_str().map(|s| s.parse::<u64>().unwrap_or(0)).unwrap_or_else(|| x.as_u64().unwrap_or(0))).collect()).unwrap_or_default()
}

fn run_one(cx: &mut Ctx, c: &Value) {
    match c["cell"].as_str() {
        Some("min0") => {
            let ops: Vec<(u32, Vec<u64>)> = c["ops"].as_array().unwrap().iter().map(|o| (o[0].as_u64().unwrap() as u32, parse_u64s(&o[1]))).collect();
            min0_history(cx, &ops, true);
        }
        Some("sorted") => sorted_case(cx, c["preset"].as_u64().unwrap_or(0) as usize, &parse_u64s(&c["values"])),
        Some("uintvector") => uintvector_case(cx, &parse_u64s(&c["values"]).iter().map(|&x| x as u32).collect::<Vec<_>>(), c["push"].as_bool().unwrap_or(false)),
        Some("zip") => zip_case(cx, &parse_u64s(&c["values"]), c["push"].as_bool().unwrap_or(false)),
        Some("intvec") => {
            let strs: Vec<String> = c["values"].as_array().unwrap().iter().map(|x| x.as_str().unwrap().to_string()).collect();
            macro_rules! go { ($t:ty, $n:expr) => {{ let v: Vec<$t> = strs.iter().map(|s| s.parse::<$t>().unwrap()).collect(); intvec_case::<$t>(cx, $n, &v, strs.clone(), None); }}; }
            match c["type"].as_str().unwrap_or("u32") {
                "u8" => go!(u8, "u8"), "u16" => go!(u16, "u16"), "u32" => go!(u32, "u32"), "u64" => go!(u64, "u64"),
                "i8" => go!(i8, "i8"), "i16" => go!(i16, "i16"), "i32" => go!(i32, "i32"), _ => go!(i64, "i64"),
            }
        }
        _ => {}
    }
}

pub fn run(args: &Args) {
    let mut cx = Ctx {
        sum: Summary::new("C09", "UintVecMin0: generated operation histories (new/set/get/push_back/resize/clear/build_from/dump) at widths 0,1,3,7,8,9,13,31,32,33,57,58 with values at mask and mask+1, every element read back and raw memory dumped, compared with the Coq model and with a shadow Vec; other containers: sequences of lengths around 64/128-element blocks (constant, small range, full range, outliers, type extremes), every element and two indices past the end read back; SortedUintVec deltas at 2^w-1, 2^w, 2^w+1; non-trivial = history of >=3 ops or sequence of >=2 elements"),
        shards: CoqShards::new(HEADER, 120),
        budget: if args.thorough { 12000 } else { 1400 },
    };
    let mut rng = Rng::new(args.seed);
    if let Some(f) = &args.replay {
        let v: Value = serde_json::from_str(&std::fs::read_to_string(f).expect("replay file")).expect("json");
        let c = if v.get("case").is_some() { v["case"].clone() } else { v };
        run_one(&mut cx, &c);
        let sh = cx.shards.write(&args.out);
        cx.sum.write(&args.out, sh);
        return;
    }
    if let Ok(rd) = std::fs::read_dir("/verif/corpus/C09") {
        let mut files: Vec<_> = rd.filter_map(|e| e.ok()).map(|e| e.path()).collect();
        files.sort();
        for p in files {
            if let Ok(v) = serde_json::from_str::<Value>(&std::fs::read_to_string(&p).unwrap_or_default()) {
                let c = if v.get("case").is_some() { v["case"].clone() } else { v };
                run_one(&mut cx, &c);
                cx.sum.dist("corpus_cases");
            }
        }
    }
    let nh = if args.thorough { 30000 } else { 2500 };
    for i in 0..nh {
        let ops = gen_history(&mut rng);
        if i < 2 { cx.sum.sample(json!({"min0_history": ops.iter().take(8).map(|(o, a)| json!([o, a.iter().take(6).collect::<Vec<_>>()])).collect::<Vec<_>>()})); }
        min0_history(&mut cx, &ops, false);
    }
    let nv = if args.thorough { 12000 } else { 1200 };
    for i in 0..nv {
        intvec_family!(&mut cx, &mut rng, u8, "u8");
        intvec_family!(&mut cx, &mut rng, u16, "u16");
        intvec_family!(&mut cx, &mut rng, u32, "u32");
        intvec_family!(&mut cx, &mut rng, u64, "u64");
        intvec_family!(&mut cx, &mut rng, i8, "i8");
        intvec_family!(&mut cx, &mut rng, i16, "i16");
        intvec_family!(&mut cx, &mut rng, i32, "i32");
        intvec_family!(&mut cx, &mut rng, i64, "i64");
        // sorted sequences with boundary deltas
        let preset = (i % 3) as usize;
        let w = [16u32, 20, 12][preset];
        let n = *rng.pick(&[0usize, 1, 2, 63, 64, 65, 127, 128, 129, 130, 200]);
        let mut cur = rng.below(1 << 20);
        let special_at = rng.below(n as u64 + 1) as usize;
        let mut vals = vec![];
        for k in 0..n {
            let step = if k == special_at && rng.chance(1, 2) { *rng.pick(&[(1u64 << w) - 1, 1u64 << w, (1u64 << w) + 1, (1u64 << w) / 2]) } else { let m = *rng.pick(&[1u64, 2, 50, 700]); rng.below(m) };
            cur = cur.saturating_add(step);
            vals.push(cur);
        }
        sorted_case(&mut cx, preset, &vals);
        if n >= 2 && rng.chance(1, 3) {
            // the last element of a block sits exactly 2^w-1 / 2^w above the block's first
            let bs = if preset == 1 { 128 } else { 64 };
            let m = bs.min(n);
            let base = vals[0];
            let mut v2: Vec<u64> = (0..m as u64).map(|k| base + k).collect();
            let top = *rng.pick(&[(1u64 << w) - 1, 1u64 << w]);
            *v2.last_mut().unwrap() = base + top.max(m as u64);
            sorted_case(&mut cx, preset, &v2);
        }
        let uv: Vec<u32> = (0..n).map(|k| match i % 5 { 0 => 7, 1 => k as u32, 2 => rng.next() as u32, 3 => if rng.chance(1, 30) { u32::MAX } else { rng.below(9) as u32 }, _ => (rng.below(1000) as u32) << (rng.below(22) as u32) }).collect();
        uintvector_case(&mut cx, &uv, false);
        uintvector_case(&mut cx, &uv, true);
        let zv: Vec<u64> = (0..n.max(1)).map(|_| { let sh = *rng.pick(&[1u32, 8, 20, 40, 57]); 1000 + rng.below(1u64 << sh) }).collect();
        zip_case(&mut cx, &zv, false);
        zip_case(&mut cx, &zv, true);
    }
    cx.sum.dist_max("coq_cases", cx.shards.len() as u64);
    let sh = cx.shards.write(&args.out);
    cx.sum.write(&args.out, sh);
}
