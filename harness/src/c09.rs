//! C09: packed / compressed integer vectors return every stored value unchanged.
//! Every cell is M+S: the direct shadow-Vec oracle decides the property on the real code, and a sample of the cases
//! is replayed in the Coq mechanism models (coq/C09/Cases.v): UintVecMin0 operation histories incl. raw memory
//! (CMin0), UintVecMin0::build_from_u32 / build_from_i32 (CMin0Typed), ZipIntVec (CZip), SortedUintVec + builder
//! (CSorted), IntVec<T> x 3 constructors x 8 types (CIntVec), UintVector bulk + push (CUintVec).
use crate::util::*;
use serde_json::{json, Value};
use zipora::containers::specialized::UintVector;
use zipora::containers::{UintVecMin0, ZipIntVec};

#[path = "c09_sorted.rs"] mod sorted;
#[path = "c09_intvec.rs"] mod intvec;
#[path = "c09_hist.rs"] mod hist;

const HEADER: &str = r#"From ZV.Common Require Import Base Run.
From ZV.C09 Require Import Cases.
Open Scope N_scope.
"#;

pub struct Ctx {
    pub sum: Summary, pub shards: CoqShards, pub budget: usize,
    pub model_sorted: bool, pub n_sorted_coq: usize, pub cap_sorted_coq: usize,
    pub model_intvec: bool, pub n_intvec_coq: usize, pub cap_intvec_coq: usize,
    pub model_zip: bool, pub n_zip_coq: usize, pub cap_zip_coq: usize,
    pub n_min0_coq: usize, pub cap_min0_coq: usize,
    pub model_uintvec: bool, pub n_uintvec_coq: usize, pub cap_uintvec_coq: usize,
    pub model_min0typed: bool, pub n_min0typed_coq: usize, pub cap_min0typed_coq: usize,
    /// replaying corpus/C09 at the start of a run: cases whose model evaluation is very expensive are decided by the oracle only
    pub corpus_mode: bool,
}

fn le_number(data: &[u8]) -> String {
    // decimal rendering of the little-endian number denoted by `data`
    let mut digits: Vec<u8> = vec![0]; // little-endian decimal digits
    for &b in data.iter().rev() {
        let mut carry = b as u32;
        for d in digits.iter_mut() {
            let v = (*d as u32) * 256 + carry;
            *d = (v % 10) as u8;
            carry = v / 10;
        }
        while carry > 0 { digits.push((carry % 10) as u8); carry /= 10; }
    }
    digits.iter().rev().map(|d| (b'0' + d) as char).collect()
}

/// get / set / push_back use unaligned 8-byte loads and stores at byte bits * idx / 8: the allocation has to carry the one of the last
/// field (the checked static reader says whether it does).  Without it the next read is undefined behaviour, not a value.
pub fn min0_carries_last_load(v: &UintVecMin0) -> bool {
    v.size() == 0 || v.uintbits() > 58 || UintVecMin0::fast_get(v.data(), v.uintbits(), v.uintmask(), v.size() - 1).is_ok()
}

/// One history on a single UintVecMin0.  Operations 0..=7 are the ones the Coq model knows (new, set, get, push_back, resize,
/// clear, build_from_usize, dump); 8.. are judged by the shadow only (get2, back, shrink_to_fit, resize_with_uintbits,
/// resize_with_wire_max_val, the static fast_get, build_from_u32 / build_from_i32 as the start of a history, Default,
/// compute_mem_size(_by_max_val)): a history that contains one of them is not sent to the model.
/// The shadow is a Vec<Option<u64>>: None = the property does not say what the element holds (grown by `resize`, or
/// reinterpreted by a change of the field width).
fn min0_history(cx: &mut Ctx, ops: &[(u32, Vec<u64>)], force: bool) {
    let cell = "UintVecMin0";
    let key = format!("{:?}", ops);
    cx.sum.eval(cell, &key, ops.len() >= 3);
    let cj = json!({"cell": "min0", "ops": ops.iter().map(|(o, a)| json!([o, a.iter().map(|x| x.to_string()).collect::<Vec<_>>()])).collect::<Vec<_>>()});
    let mut v = UintVecMin0::new_empty();
    let mut shadow: Vec<Option<u64>> = vec![];
    let mut obs: Vec<String> = vec![];
    let mut wide = false;
    let mut unmodelled = false;
    let mut cap: u64 = 0; // the largest value the vector was told it has to hold (new / build_from / push_back / resize_with_*)
    for (op, a) in ops {
        let a0 = a.get(0).copied().unwrap_or(0) as usize;
        let a1 = a.get(1).copied().unwrap_or(0) as usize;
        if *op >= 8 { unmodelled = true; cx.sum.dist(&format!("min0_op_{}", op)); }
        let n = shadow.len();
        // Some(true): the operation has to be refused (the API returns plain values, so the refusal is the documented panic)
        let mut must_refuse: Option<bool> = None;
        let mut bad: Option<String> = None;
        let known = |s: &Vec<Option<u64>>, i: usize, x: usize| -> bool { match s.get(i) { Some(Some(w)) => *w == x as u64, _ => true } };
        // the mutating operations work on the vector itself: a refused one leaves *this* object behind, and the history goes on with it
        // (`before` is put back only after a panic that is reported as a failure: what such a panic leaves is not a vector any more)
        let mutating = matches!(*op, 1 | 3 | 4 | 10 | 11 | 12);
        let before = if mutating { Some(v.clone()) } else { None };
        let mut refused_in_place = false;
        let r: Result<String, String> = match op {
            0 => { must_refuse = Some(false); guarded(|| { let nv = UintVecMin0::new(a0, a1); nv }).map(|nv| { v = nv; shadow = vec![Some(0); a0]; cap = a1 as u64; "[0]%Z".to_string() }) }
            1 => { // a value the vector was sized for, at an index below the size, has to be stored; beyond the field mask it is refused
                   must_refuse = if a0 < n && (a1 as u64) <= cap { Some(false) } else { None };
                   guarded(|| { v.set(a0, a1); }).map(|_| { if a0 < shadow.len() { shadow[a0] = Some(a1 as u64); } "[0]%Z".to_string() }) }
            2 => { let v2 = v.clone(); let r = guarded(move || v2.get(a0));
                   must_refuse = Some(a0 >= n);
                   if let Ok(x) = &r { if !known(&shadow, a0, *x) { bad = Some(format!("get({}) = {} but a Vec holds {:?}", a0, x, shadow[a0])); } }
                   r.map(|x| format!("[0; {}]%Z", x)) }
            3 => { must_refuse = Some(false); guarded(|| { v.push_back(a0); }).map(|_| { shadow.push(Some(a0 as u64)); cap = cap.max(a0 as u64); "[0]%Z".to_string() }) }
            4 => { must_refuse = Some(false); guarded(|| { v.resize(a0); }).map(|_| {
                       shadow.resize(a0, None); // bits beyond the old size are whatever memory held
                       "[0]%Z".to_string() }) }
            5 => { v.clear(); shadow.clear(); cap = 0; Ok("[0]%Z".to_string()) }
            6 => { let src: Vec<usize> = a.iter().map(|&x| x as usize).collect(); must_refuse = Some(false);
                   guarded(|| UintVecMin0::build_from_usize(&src)).map(|(nv, mn)| { v = nv; shadow = src.iter().map(|&x| Some((x - mn) as u64)).collect(); cap = shadow.iter().map(|x| x.unwrap()).max().unwrap_or(0); format!("[0; {}]%Z", mn) }) }
            7 => Ok(format!("[{}; {}; {}; {}]%Z", v.size(), v.uintbits(), v.data().len(), le_number(v.data()))),
            8 => { let v2 = v.clone(); let r = guarded(move || v2.get2(a0));
                   must_refuse = Some(a0.checked_add(1).map_or(true, |j| j >= n));
                   if let Ok([x, y]) = &r { if !known(&shadow, a0, *x) || !known(&shadow, a0 + 1, *y) { bad = Some(format!("get2({}) = [{}, {}] but a Vec holds {:?}, {:?}", a0, x, y, shadow.get(a0), shadow.get(a0 + 1))); } }
                   r.map(|_| String::new()) }
            9 => { let v2 = v.clone(); let r = guarded(move || v2.back());
                   must_refuse = Some(n == 0);
                   if let Ok(x) = &r { if n > 0 && !known(&shadow, n - 1, *x) { bad = Some(format!("back() = {} but a Vec holds {:?}", x, shadow[n - 1])); } }
                   r.map(|_| String::new()) }
            10 => { must_refuse = Some(false); guarded(|| { v.shrink_to_fit(); }).map(|_| String::new()) }
            11 | 12 => { // second argument u64::MAX = "what the vector has now" (the same width / the same maximum)
                   let cur = a1 == usize::MAX;
                   let arg = if !cur { a1 } else if *op == 11 { v.uintbits() } else { v.uintmask() };
                   let bits = if *op == 11 { arg } else if arg == 0 { 0 } else { 64 - (arg as u64).leading_zeros() as usize };
                   let same = bits == v.uintbits(); let fresh = v.mem_size() == 0;
                   must_refuse = Some(bits > 64);
                   let o = *op;
                   guarded(|| { if o == 11 { v.resize_with_uintbits(a0, arg) } else { v.resize_with_wire_max_val(a0, arg) }; }).map(|_| {
                       if fresh { shadow = vec![Some(0); a0]; }                 // nothing was allocated: everything is zero, as after new()
                       else if same { shadow.resize(a0, None); }               // same field width: the common prefix keeps its values
                       else { shadow = vec![None; a0]; }                       // another width reinterprets the bits: not constrained
                       cap = if *op == 12 { arg as u64 } else if bits >= 64 { u64::MAX } else { (1u64 << bits) - 1 };
                       String::new() }) }
            13 => { // the static reader over the raw bytes, as blob stores use it
                   if v.uintbits() > 58 { Ok(String::new()) } else {
                   let v2 = v.clone(); let r = guarded(move || UintVecMin0::fast_get(v2.data(), v2.uintbits(), v2.uintmask(), a0).ok());
                   let beyond = (a0 as u128 * v.uintbits() as u128) / 8 + 8 > v.data().len() as u128; // the load would leave the bytes handed in
                   match &r { Ok(Some(x)) => { if a0 < n && !known(&shadow, a0, *x) { bad = Some(format!("fast_get({}) = {} but a Vec holds {:?}", a0, x, shadow[a0])); }
                                               if a0 >= n && beyond { bad = Some(format!("fast_get({}) over {} bytes of {}-bit fields returned {} instead of the out-of-bounds error", a0, v.data().len(), v.uintbits(), x)); } }
                              Ok(None) => { if a0 < n { bad = Some(format!("fast_get({}) refuses an index below size {}", a0, n)); } }
                              Err(_) => {} }
                   must_refuse = Some(false);
                   r.map(|_| String::new()) } }
            14 => { let src: Vec<u32> = a.iter().map(|&x| x as u32).collect(); must_refuse = Some(false);
                   guarded(|| UintVecMin0::build_from_u32(&src)).map(|(nv, mn)| { v = nv; shadow = src.iter().map(|&x| Some((x - mn) as u64)).collect(); cap = shadow.iter().map(|x| x.unwrap()).max().unwrap_or(0); String::new() }) }
            15 => { let src: Vec<i32> = a.iter().map(|&x| x as u32 as i32).collect(); must_refuse = Some(false);
                   guarded(|| UintVecMin0::build_from_i32(&src)).map(|(nv, mn)| { v = nv; shadow = src.iter().map(|&x| Some((x as i64 - mn as i64) as u64)).collect(); cap = shadow.iter().map(|x| x.unwrap()).max().unwrap_or(0); String::new() }) }
            16 => { v = UintVecMin0::default(); shadow.clear(); cap = 0; Ok(String::new()) }
            _ => { // housekeeping accessors between the operations; the allocation must still carry the 8-byte load of the last field
                   let (b, sz) = (v.uintbits(), v.size());
                   let _ = (v.mem_size(), v.uintmask(), UintVecMin0::compute_mem_size_by_max_val(v.uintmask(), sz));
                   // the width computed for a value holds the value (new / build_from / push_back size their fields with it)
                   { let w = UintVecMin0::compute_uintbits(cap as usize); if w < 64 && (cap >> w) != 0 { bad = Some(format!("compute_uintbits({}) = {} does not hold the value", cap, w)); } }
                   if sz > 0 && b <= 58 { match UintVecMin0::fast_get(v.data(), b, v.uintmask(), sz - 1) {
                       Ok(x) => if !known(&shadow, sz - 1, x) { bad = Some(format!("fast_get(last) = {} but a Vec holds {:?}", x, shadow[sz - 1])); },
                       Err(_) => bad = Some(format!("the allocation of {} bytes does not carry an 8-byte load of the last of {} fields of {} bits", v.mem_size(), sz, b)) } }
                   Ok(String::new()) }
        };
        match r {
            Ok(s) => { if *op < 8 { obs.push(s); }
                       if must_refuse == Some(true) && bad.is_none() { bad = Some(format!("op {} {:?} on {} elements was not refused", op, a, n)); } }
            Err(msg) => {
                if *op < 8 { obs.push("[(-1)]%Z".to_string()); }
                // the recorded finding is about field widths above 58 bits: the arguments that carry a value or a width, not the indices
                let wide_arg = match op { 0 | 1 => a1 as u64 >= (1u64 << 58), 3 => a0 as u64 >= (1u64 << 58), 11 => a1 != usize::MAX && a1 > 58, 12 => a1 != usize::MAX && a1 as u64 >= (1u64 << 58),
                    6 | 14 => a.iter().max().copied().unwrap_or(0) - a.iter().min().copied().unwrap_or(0) >= (1u64 << 58), _ => false };
                if v.uintbits() > 58 || wide_arg { wide = true; }
                // a panic is a property violation unless it is the documented refusal of an out-of-range index/value
                let refusal = match must_refuse { Some(t) => t, None => msg.contains("out of bounds") || msg.contains("exceeds max") };
                if !refusal {
                    let class = if wide || msg.contains("58") || msg.contains("shift left") { Some("min0_width_above_58") } else { None };
                    cx.sum.fail(cell, class, cj.clone(), &format!("op {} {:?} panicked: {}", op, a, msg));
                    if let Some(b) = &before { v = b.clone(); }
                } else if mutating { refused_in_place = true; cx.sum.dist(&format!("min0_refused_op_{}", op)); }
            }
        }
        if let Some(d) = bad { let class = if v.uintbits() > 58 { Some("min0_width_above_58") } else { None }; cx.sum.fail(cell, class, cj.clone(), &d); }
        if v.size() != shadow.len() {
            cx.sum.fail(cell, None, cj.clone(), &format!("size {} but a Vec holds {}", v.size(), shadow.len()));
        }
        if v.is_empty() != shadow.is_empty() { cx.sum.fail(cell, None, cj.clone(), "is_empty wrong"); }
        if refused_in_place && v.size() != shadow.len() { return; } // reading on would be out of bounds
        if !min0_carries_last_load(&v) {
            cx.sum.fail(cell, None, cj.clone(), &format!("after op {} {:?}: the allocation of {} bytes does not carry the 8-byte load of the last of {} fields of {} bits", op, a, v.mem_size(), v.size(), v.uintbits()));
            return; // reading on would be undefined behaviour
        }
        if refused_in_place {
            // the refused operation changed nothing: every element the shadow knows reads back as before (and the field width is the old one)
            let class = if v.uintbits() > 58 { Some("min0_width_above_58") } else { None };
            if let Some(b) = &before { if b.uintbits() != v.uintbits() { cx.sum.fail(cell, class, cj.clone(), &format!("the refused op {} {:?} changed the field width from {} to {} bits", op, a, b.uintbits(), v.uintbits())); } }
            for i in 0..shadow.len().min(300) {
                if let Some(w) = shadow[i] {
                    let got = { let vr = &v; guarded(move || vr.get(i)) };
                    if got.as_ref().ok().map(|x| *x as u64) != Some(w) { cx.sum.fail(cell, class, cj.clone(), &format!("after the refused op {} {:?}: element {} reads {:?} but a Vec holds {}", op, a, i, got, w)); break; }
                }
            }
        }
    }
    // model comparison is meaningful only where the model is defined (bits <= 58 paths, modelled operations)
    if !wide && !unmodelled && (force || (cx.shards.len() < cx.budget && cx.n_min0_coq < cx.cap_min0_coq)) {
        cx.n_min0_coq += 1;
        let ops_coq: Vec<String> = ops.iter().map(|(o, a)| format!("({}, {})", o, coq_n_list(a.iter().map(|&x| x as u128)))).collect();
        let term = format!("CMin0 [{}] [{}]", ops_coq.join("; "), obs.join("; "));
        cx.shards.push(term, cj);
    }
}

/// Deterministic family "refused operations inside histories": at each width a vector is filled, then every refusal the type documents
/// (set at / beyond the size, set of mask + 1, get / get2 / back beyond the end, resize_with_uintbits beyond 64 bits) is asked for between
/// operations that are carried out; after each refused step the elements are read back from the object that refused.
/// `ext` = with the operations the model does not know (then the history is judged by the shadow only).
fn refused_histories() -> Vec<Vec<(u32, Vec<u64>)>> {
    let mut out = vec![];
    for (wi, &w) in [1u32, 3, 8, 13, 31, 32, 33, 57, 58].iter().enumerate() {
        for ext in [false, true] {
            let m: u64 = (1u64 << w) - 1;
            let n: u64 = [1u64, 7, 8, 9, 64][wi % 5];
            let mut ops: Vec<(u32, Vec<u64>)> = vec![(0, vec![n, m])];
            for i in 0..n { ops.push((1, vec![i, if i % 2 == 0 { m } else { m / 2 + 1 }])); }
            ops.push((1, vec![n, 1]));            // index = size
            ops.push((1, vec![0, m + 1]));        // value one above the mask, at an element that holds the mask
            ops.push((1, vec![n - 1, m + 1]));
            ops.push((2, vec![n]));
            ops.push((3, vec![m]));               // carried out: the vector grows by one
            ops.push((1, vec![n + 1, 0]));        // refused again, one beyond the new size
            ops.push((1, vec![u64::MAX / 64, 1])); // an index whose bit position overflows
            if ext { ops.push((8, vec![n])); ops.push((11, vec![n + 1, 65])); ops.push((11, vec![3, 4096])); ops.push((9, vec![])); ops.push((13, vec![n + 1])); }
            ops.push((1, vec![n, m / 2]));        // carried out
            ops.push((4, vec![n]));               // shrink by one
            ops.push((1, vec![n, m]));            // now refused
            if ext { ops.push((5, vec![])); ops.push((9, vec![])); ops.push((8, vec![0])); ops.push((1, vec![0, 0])); ops.push((3, vec![1])); ops.push((1, vec![0, 2])); ops.push((2, vec![0])); }
            else { for i in 0..n { ops.push((2, vec![i])); } }
            ops.push((7, vec![]));
            out.push(ops);
        }
    }
    out
}

/// `ext` = also the operations the model does not know (secondary entry points), every field width 0..=58
fn gen_history(r: &mut Rng, ext: bool) -> Vec<(u32, Vec<u64>)> {
    let mut ops: Vec<(u32, Vec<u64>)> = vec![];
    let width = if ext && r.chance(2, 3) { r.below(59) as u32 } else { *r.pick(&[0u32, 1, 3, 7, 8, 9, 13, 31, 32, 33, 57, 58]) };
    let maxv: u64 = if width == 0 { 0 } else { (1u64 << width) - 1 };
    let mut size: u64;
    let start = if ext { r.below(9) } else { r.below(6) };
    match start {
        0 | 1 => {
            let n = r.range(1, 70);
            let base = r.below(1000);
            let src: Vec<u64> = (0..n).map(|_| base + if maxv == 0 { 0 } else { r.below(maxv.min(u64::MAX - 1000) ) }).collect();
            ops.push((6, src));
            size = n;
        }
        2 | 3 => { size = r.below(70); ops.push((0, vec![size, maxv])); }
        4 | 5 => { size = 0; }
        6 => { // typed builders as the start of a history: what they leave behind is continued by push_back / set / resize
            let n = r.range(1, 70); let m32 = maxv.min(u32::MAX as u64);
            let signed = r.chance(1, 2);
            let base = if signed { *r.pick(&[i32::MIN as i64, -5, 0, i32::MAX as i64 - m32 as i64]) } else { *r.pick(&[0i64, 1000, (u32::MAX as u64 - m32) as i64]) };
            let mut src: Vec<u64> = (0..n).map(|_| { let x = base + if m32 == 0 { 0 } else { r.below(m32) + r.below(2) } as i64; if signed { (x.max(i32::MIN as i64).min(i32::MAX as i64) as i32) as u32 as u64 } else { x.max(0).min(u32::MAX as i64) as u64 } }).collect();
            if n >= 2 && r.chance(1, 2) { src[0] = if signed { (base as i32) as u32 as u64 } else { base as u64 }; }
            ops.push((if signed { 15 } else { 14 }, src)); size = n; }
        7 => { ops.push((16, vec![])); size = r.below(40); if r.chance(1, 2) { ops.push((11, vec![size, width as u64])); } else { ops.push((12, vec![size, maxv])); } }
        _ => { size = r.below(70); ops.push((0, vec![size, maxv])); for i in 0..size { let x = if maxv == 0 { 0 } else { r.below(maxv) + r.below(2) }; ops.push((1, vec![i, x])); } }
    }
    let nops = r.range(2, 14);
    for _ in 0..nops {
        let val = |r: &mut Rng| if maxv == 0 { r.below(3) } else if r.chance(1, 4) { maxv } else if r.chance(1, 8) { maxv.saturating_add(1) } else { r.below(maxv) + r.below(2) };
        let idx = |r: &mut Rng, size: u64| if size > 0 && r.chance(9, 10) { r.below(size) } else { size + r.below(2) };
        match r.below(if ext { 18 } else { 10 }) {
            0..=2 => { let i = idx(r, size); ops.push((1, vec![i, val(r)])); }
            3..=4 => { let i = if size > 0 && r.chance(9, 10) { r.below(size) } else { size }; ops.push((2, vec![i])); }
            5..=7 => { ops.push((3, vec![val(r)])); size += 1; }
            8 => { let n = if r.chance(1, 2) { r.below(size + 1) } else { size + r.below(20) }; ops.push((4, vec![n])); size = n; }
            9 => { if r.chance(1, 4) { ops.push((5, vec![])); size = 0; } else { ops.push((7, vec![])); } }
            10 | 11 => { let i = if size > 1 && r.chance(9, 10) { r.below(size - 1) } else if r.chance(1, 8) { u64::MAX } else { size.saturating_sub(1) + r.below(2) }; ops.push((8, vec![i])); }
            12 => ops.push((9, vec![])),
            13 | 14 => { ops.push((10, vec![])); if r.chance(1, 2) { ops.push((3, vec![val(r)])); size += 1; } }
            15 => { let i = if r.chance(1, 6) { *r.pick(&[1u64 << 61, (1u64 << 61) + 1, 1u64 << 58, u64::MAX, u64::MAX / 8 + 1, size + 64]) } else { idx(r, size) }; ops.push((13, vec![i])); }
            16 => { // change of size at the same width (keeps the prefix), rarely another width (then everything is rewritten)
                    let n = if r.chance(1, 2) { r.below(size + 1) } else { size + r.below(20) };
                    if r.chance(3, 4) { ops.push((if r.chance(1, 2) { 11 } else { 12 }, vec![n, u64::MAX])); size = n; }
                    else { let w2 = r.below(59); ops.push((11, vec![n, w2])); let m2 = if w2 == 0 { 0 } else { (1u64 << w2) - 1 };
                           for i in 0..n { ops.push((1, vec![i, if m2 == 0 { 0 } else { r.below(m2) + r.below(2) }])); }
                           // the generator's idea of the width is out of date from here on: finish the history
                           size = n; break; } }
            _ => ops.push((17, vec![])),
        }
    }
    // read everything back at the end and dump raw memory
    for i in 0..size.min(80) { ops.push((2, vec![i])); }
    if ext { for i in 0..size.min(80) { ops.push((if i % 2 == 0 { 8 } else { 13 }, vec![i])); } ops.push((9, vec![])); ops.push((17, vec![])); }
    ops.push((7, vec![]));
    ops
}


fn check_seq<T: Copy + PartialEq + std::fmt::Debug>(cx: &mut Ctx, cell: &str, class: Option<&str>, cj: Value,
        want: &[T], len: usize, get: impl Fn(usize) -> Option<T>) {
    if len != want.len() {
        cx.sum.fail(cell, class, cj, &format!("len {} want {}", len, want.len()));
        return;
    }
    for (i, w) in want.iter().enumerate() {
        let g = get(i);
        if g != Some(*w) {
            cx.sum.fail(cell, class, cj, &format!("element {} reads back {:?}, stored {:?}", i, g, w));
            return;
        }
    }
    if get(want.len()).is_some() || get(want.len() + 7).is_some() {
        cx.sum.fail(cell, class, cj, "read past the end was not refused");
    }
}

/// build_from(prefix) followed by push of the rest (and, at the end, a second build of everything for comparison): the state a
/// bulk build leaves behind is what the incremental path continues from.  Oracle-only.
fn uintvector_mixed_case(cx: &mut Ctx, vals: &[u32], split: usize) {
    let cell = "UintVector/build_from+push";
    let split = split.min(vals.len());
    cx.sum.eval(cell, &format!("{} {} {:?}", cell, split, vals), vals.len() >= 2);
    cx.sum.cell_status(cell, "S-only");
    let cj = json!({"cell": "uintvector_mixed", "split": split, "values": vals});
    let r = guarded(|| -> Result<Option<String>, String> {
        let mut u = UintVector::build_from(&vals[..split]).map_err(|e| format!("{:?}", e))?;
        for k in split..vals.len() {
            u.push(vals[k]).map_err(|e| format!("{:?}", e))?;
            if u.len() != k + 1 { return Ok(Some(format!("after build_from({} values) and {} pushes len() = {}", split, k + 1 - split, u.len()))); }
            // the bulk-built prefix, the pushed part and the end, after every push (sampled on long inputs)
            if k - split < 3 || (k + 1) % 64 <= 1 || k + 1 == vals.len() || k % 11 == 0 {
                for &j in &[0usize, split.saturating_sub(1), split.min(k), (k * 5 + 3) % (k + 1), k] {
                    if u.get(j) != Some(vals[j]) { return Ok(Some(format!("after build_from({} values) and {} pushes get({}) = {:?}, stored {}", split, k + 1 - split, j, u.get(j), vals[j]))); }
                }
                if u.get(k + 1).is_some() { return Ok(Some(format!("get({}) past the end is not refused", k + 1))); }
            }
        }
        for (j, &v) in vals.iter().enumerate() { if u.get(j) != Some(v) { return Ok(Some(format!("final read: get({}) = {:?}, stored {}", j, u.get(j), v))); } }
        if u.len() != vals.len() || u.is_empty() != vals.is_empty() { return Ok(Some(format!("final len() = {}", u.len()))); }
        Ok(None)
    });
    match r {
        Err(p) => cx.sum.fail(cell, None, cj, &format!("panicked: {}", p)),
        Ok(Err(_)) => cx.sum.dist("build_refused"),
        Ok(Ok(Some(m))) => cx.sum.fail(cell, None, cj, &m),
        Ok(Ok(None)) => {}
    }
}

/// `start` (push only): 0 UintVector::new(), 1 with_capacity(n / 2), 2 Default::default(), 3 with_capacity(0) - the model knows new() only,
/// and all of them have to behave like it
fn uintvector_case(cx: &mut Ctx, vals: &[u32], by_push: bool, force_coq: bool, rng: &mut Rng, start: u32) {
    let cell = if by_push { "UintVector/push" } else { "UintVector/build_from" };
    cx.sum.eval(cell, &format!("{} {:?}", cell, vals), vals.len() >= 2);
    cx.sum.cell_status(cell, if cx.model_uintvec { "M+S" } else { "S-only" });
    let cj = json!({"cell": "uintvector", "push": by_push, "start": start, "values": vals});
    let n = vals.len();
    if by_push { cx.sum.dist(&format!("uintvector_start_{}", start % 4)); }
    let r = guarded(|| {
        let mut mid: Vec<(usize, usize, Option<u32>, Option<u32>)> = vec![];
        let uv = if by_push {
            let mut u = match start % 4 { 0 => UintVector::new(), 1 => UintVector::with_capacity(n / 2), 2 => UintVector::default(), _ => UintVector::with_capacity(0) };
            if !u.is_empty() || u.get(0).is_some() { return Err("a new vector is not empty".to_string()); }
            for (k, &v) in vals.iter().enumerate() {
                u.push(v).map_err(|e| format!("{:?}", e))?;
                // the statistics calls between the pushes must not disturb anything
                if k % 5 == 0 { let _ = (u.compression_ratio(), u.memory_usage()); }
                // incremental construction: the prefix must be readable after every push (sampled)
                if k % 7 == 0 || (k + 1) % 64 <= 1 || k + 1 == n { let j = (k * 5 + 3) % (k + 1); mid.push((k, u.len(), u.get(j), u.get(k + 1))); }
            }
            u
        } else { UintVector::build_from(vals).map_err(|e| format!("{:?}", e))? };
        let out: Vec<Option<u32>> = (0..n + 8).map(|i| uv.get(i)).collect();
        Ok::<_, String>((uv.len(), uv.is_empty(), out, uv.get(usize::MAX), mid, uv.stats().1))
    });
    let mut obs: Vec<String> = vec![];
    let mut probes: Vec<String> = vec![];
    let mut coq_idx: Vec<usize> = vec![];
    match r {
        Err(p) => { obs.push("[(-1)]%Z".into()); cx.sum.fail(cell, None, cj.clone(), &format!("panicked: {}", p)) }
        Ok(Err(_)) => { obs.push("[1]%Z".into()); cx.sum.dist("build_refused") }
        Ok(Ok((len, empty, out, far, mid, stored))) => {
            if empty != (n == 0) { cx.sum.fail(cell, None, cj.clone(), "is_empty wrong"); }
            if far.is_some() { cx.sum.fail(cell, None, cj.clone(), "get(usize::MAX) not refused"); }
            let show = |g: &Option<u32>| match g { Some(v) => format!("0; {}", v), None => "1".to_string() };
            obs.push(format!("[0; {}; {}]%Z", len, stored));
            for (k, l, g, past) in &mid {
                let j = (k * 5 + 3) % (k + 1);
                probes.push(format!("({}, {})", k, j));
                obs.push(format!("[{}; {}; {}]%Z", l, show(g), show(past)));
            }
            for (k, l, g, past) in mid {
                let j = (k * 5 + 3) % (k + 1);
                if l != k + 1 || g != Some(vals[j]) || past.is_some() {
                    cx.sum.fail(cell, None, cj.clone(), &format!("after push #{}: len {} get({}) = {:?} (stored {}), get({}) = {:?}", k, l, j, g, vals[j], k + 1, past));
                    break;
                }
            }
            coq_idx = if n <= 300 { (0..n + 8).collect() } else { let mut v: Vec<usize> = (0..n + 8).step_by(37).collect(); v.extend([n - 1, n, n + 7]); v.sort(); v.dedup(); v };
            for &i in &coq_idx { obs.push(format!("[{}]%Z", show(&out[i]))); }
            obs.push(format!("[{}]%Z", show(&far)));
            check_seq(cx, cell, None, cj.clone(), vals, len, |i| out.get(i).copied().flatten());
        }
    }
    // model cost: every (re)compression packs its fields into one growing number
    let mn = vals.iter().min().copied().unwrap_or(0); let mx = vals.iter().max().copied().unwrap_or(0);
    let w = (32 - (mx - mn).leading_zeros()).max(1) as u64;
    let rounds: u64 = if by_push { (1..=(n as u64 / 64)).map(|k| (64 * k) * (64 * k) / 2).sum() } else { (n as u64) * (n as u64) / 2 };
    if cx.model_uintvec && (force_coq || (cx.shards.len() < cx.budget && cx.n_uintvec_coq < cx.cap_uintvec_coq && rounds * w <= 12_000_000 && rng.chance(1, 20))) {
        cx.n_uintvec_coq += 1;
        let mut all_idx: Vec<u128> = coq_idx.iter().map(|&i| i as u128).collect();
        if obs.len() > 1 { all_idx.push(usize::MAX as u128); }
        let term = format!("CUintVec {} {} [{}] {} [{}]", coq_bool(by_push), coq_n_list(vals.iter().map(|&v| v as u128)), probes.join("; "),
            coq_n_list(all_idx.into_iter()), obs.join("; "));
        cx.shards.push(term, cj);
    }
}

/// modes: 0 build_from_usize, 1 new(0,min,max)+push_back, 2 build_from_u32, 3 new(0,min,min+1)+push_back (bit expansion on the way)
fn zip_case(cx: &mut Ctx, vals: &[u64], mode: u32, force_coq: bool) {
    let cell = ["ZipIntVec/build_from", "ZipIntVec/push", "ZipIntVec/build_from_u32", "ZipIntVec/push_growing"][mode as usize % 4];
    cx.sum.eval(cell, &format!("{} {:?}", cell, vals), vals.len() >= 2);
    cx.sum.cell_status(cell, if cx.model_zip { "M+S" } else { "S-only" });
    let cj = json!({"cell": "zip", "mode": mode, "values": vals.iter().map(|v| v.to_string()).collect::<Vec<_>>()});
    let n = vals.len();
    let mn = vals.iter().min().copied().unwrap_or(0);
    let mx = vals.iter().max().copied().unwrap_or(0);
    let class = if mx - mn >= (1u64 << 58) { Some("min0_width_above_58") } else { None };
    let src: Vec<usize> = vals.iter().map(|&v| v as usize).collect();
    if (mode % 4 == 1 || mode % 4 == 3) && mn == u64::MAX { return; } // ZipIntVec::new needs min < max: no admissible pair
    let built = guarded(|| match mode % 4 {
        0 => ZipIntVec::build_from_usize(&src),
        2 => ZipIntVec::build_from_u32(&vals.iter().map(|&v| v as u32).collect::<Vec<_>>()),
        m => {
            let hi = if m == 1 { (mx as usize).max(mn as usize + 1) } else { mn as usize + 1 };
            let mut z = ZipIntVec::new(0, mn as usize, hi);
            z.resize(0);
            for &v in &src { z.push_back(v); }
            z
        }
    });
    let mut obs: Vec<String> = vec![];
    match built {
        Err(p) => { obs.push("[(-1)]%Z".into()); cx.sum.fail(cell, class, cj.clone(), &format!("construction panicked: {}", p)); }
        Ok(z) => {
            obs.push(format!("[0; {}; {}; {}]%Z", z.size(), z.uintbits(), z.min_val()));
            let mut gets: Vec<Result<usize, String>> = vec![];
            for i in 0..n { let z2 = &z; gets.push(guarded(move || z2.get(i))); }
            let mut bad: Option<String> = None;
            if z.size() != n { bad = Some(format!("size {} want {}", z.size(), n)); }
            if z.is_empty() != (n == 0) && bad.is_none() { bad = Some("is_empty wrong".into()); }
            for i in 0..n { if gets[i] != Ok(src[i]) && bad.is_none() { bad = Some(format!("element {} reads back {:?}, stored {}", i, gets[i], src[i])); } }
            for i in 0..n.saturating_sub(1) {
                let z2 = &z; let g2 = guarded(move || z2.get2(i));
                if g2 != Ok([src[i], src[i + 1]]) && bad.is_none() { bad = Some(format!("get2({}) = {:?}", i, g2)); }
            }
            if n > 0 { let z2 = &z; let b = guarded(move || z2.back()); if b != Ok(src[n - 1]) && bad.is_none() { bad = Some(format!("back() = {:?}", b)); } }
            // out-of-range reads must be refused (the API returns a plain usize, so the refusal is the documented panic)
            for i in [n, n + 1, usize::MAX] {
                let z2 = &z; let g = guarded(move || z2.get(i));
                obs.push(match &g { Ok(v) => format!("[0; {}]%Z", v), Err(_) => "[(-1)]%Z".into() });
                if let Ok(v) = g { if bad.is_none() { bad = Some(format!("get({}) past the end returned {}", i, v)); } }
            }
            { let z2 = &z; let g = guarded(move || z2.get2(n.saturating_sub(1))); if let Ok(v) = g { if bad.is_none() { bad = Some(format!("get2 past the end returned {:?}", v)); } } }
            if let Some(d) = bad { cx.sum.fail(cell, class, cj.clone(), &d); }
            obs.push(format!("[{}]%Z", gets.iter().map(|g| match g { Ok(v) => v.to_string(), Err(_) => "(-1)".to_string() }).collect::<Vec<_>>().join("; ")));
        }
    }
    if cx.model_zip && class.is_none() && n <= 200 && (force_coq || (cx.shards.len() < cx.budget && cx.n_zip_coq < cx.cap_zip_coq)) {
        cx.n_zip_coq += 1;
        cx.shards.push(format!("CZip {} {} [{}]", mode % 4, coq_n_list(vals.iter().map(|&v| v as u128)), obs.join("; ")), cj);
    }
}

/// UintVecMin0::build_from_i32 / build_from_u32 (value = min + stored offset)
fn min0_typed_case(cx: &mut Ctx, vals: &[i64], signed: bool, force_coq: bool) {
    let cell = if signed { "UintVecMin0/build_from_i32" } else { "UintVecMin0/build_from_u32" };
    cx.sum.eval(cell, &format!("{} {:?}", cell, vals), vals.len() >= 2);
    cx.sum.cell_status(cell, if cx.model_min0typed { "M+S" } else { "S-only" });
    let cj = json!({"cell": "min0typed", "signed": signed, "values": vals.iter().map(|v| v.to_string()).collect::<Vec<_>>()});
    // (size, uintbits, min, stored offsets)
    let r = guarded(|| {
        if signed { let v: Vec<i32> = vals.iter().map(|&x| x as i32).collect(); let (m, mn) = UintVecMin0::build_from_i32(&v); (m.size(), m.uintbits(), mn as i64, (0..v.len()).map(|i| m.get(i)).collect::<Vec<usize>>()) }
        else { let v: Vec<u32> = vals.iter().map(|&x| x as u32).collect(); let (m, mn) = UintVecMin0::build_from_u32(&v); (m.size(), m.uintbits(), mn as i64, (0..v.len()).map(|i| m.get(i)).collect::<Vec<usize>>()) }
    });
    let mut obs: Vec<String> = vec![];
    match r {
        Err(p) => { obs.push("[(-1)]%Z".into()); cx.sum.fail(cell, None, cj.clone(), &format!("panicked: {}", p)) }
        Ok((len, bits, mn, stored)) => {
            obs.push(format!("[0; {}; {}; {}]%Z", len, bits, coq_z(mn as i128)));
            obs.push(format!("[{}]%Z", stored.iter().map(|s| s.to_string()).collect::<Vec<_>>().join("; ")));
            let out: Vec<i64> = stored.iter().map(|&s| mn + s as i64).collect();
            check_seq(cx, cell, None, cj.clone(), vals, len, |i| out.get(i).copied());
        }
    }
    if cx.model_min0typed && (force_coq || (cx.shards.len() < cx.budget && cx.n_min0typed_coq < cx.cap_min0typed_coq)) {
        cx.n_min0typed_coq += 1;
        cx.shards.push(format!("CMin0Typed {} {} [{}]", coq_bool(signed), coq_z_list(vals.iter().map(|&v| v as i128)), obs.join("; ")), cj);
    }
}

fn parse_u64s(v: &Value) -> Vec<u64> {
    v.as_array().map(|a| a.iter().map(|x| x.as_str().map(|s| s.parse::<u64>().unwrap_or(0)).unwrap_or_else(|| x.as_u64().unwrap_or(0))).collect()).unwrap_or_default()
}

fn run_one(cx: &mut Ctx, c: &Value, rng: &mut Rng) {
    match c["cell"].as_str() {
        Some("min0") => {
            let ops: Vec<(u32, Vec<u64>)> = c["ops"].as_array().unwrap().iter().map(|o| (o[0].as_u64().unwrap() as u32, parse_u64s(&o[1]))).collect();
            min0_history(cx, &ops, true);
        }
        Some("ziphist") => {
            let ops: Vec<(u32, Vec<u64>)> = c["ops"].as_array().unwrap().iter().map(|o| (o[0].as_u64().unwrap() as u32, parse_u64s(&o[1]))).collect();
            hist::zip_history(cx, &ops);
        }
        Some("big") => hist::big_case(cx, c),
        Some("sorted") => {
            let cfg = if let Some(a) = c["cfg"].as_array() { sorted::SCfg { log2: a[0].as_u64().unwrap_or(6) as u8, ow: a[1].as_u64().unwrap_or(16) as u8, sw: a[2].as_u64().unwrap_or(32) as u8, simd: a[3].as_u64().unwrap_or(1) != 0 } }
                      else { sorted::preset(c["preset"].as_u64().unwrap_or(0) as usize) };
            sorted::sorted_case_via(cx, cfg, &parse_u64s(&c["values"]), true, c["via"].as_u64().unwrap_or(0) as u32)
        }
        Some("uintvector_mixed") => uintvector_mixed_case(cx, &parse_u64s(&c["values"]).iter().map(|&x| x as u32).collect::<Vec<_>>(), c["split"].as_u64().unwrap_or(0) as usize),
        Some("uintvector") => uintvector_case(cx, &parse_u64s(&c["values"]).iter().map(|&x| x as u32).collect::<Vec<_>>(), c["push"].as_bool().unwrap_or(false), true, rng, c["start"].as_u64().unwrap_or(0) as u32),
        Some("zip") => { let mode = c["mode"].as_u64().map(|m| m as u32).unwrap_or(if c["push"].as_bool().unwrap_or(false) { 1 } else { 0 }); zip_case(cx, &parse_u64s(&c["values"]), mode, true) }
        Some("min0typed") => { let v: Vec<i64> = c["values"].as_array().unwrap().iter().map(|x| x.as_str().unwrap_or("0").parse::<i64>().unwrap_or(0)).collect(); min0_typed_case(cx, &v, c["signed"].as_bool().unwrap_or(false), true) }
        Some("intvec") => {
            let strs: Vec<String> = c["values"].as_array().unwrap().iter().map(|x| x.as_str().unwrap().to_string()).collect();
            let ctor = c["ctor"].as_u64().unwrap_or(0) as usize;
            macro_rules! go { ($t:ty) => {{ let v: Vec<$t> = strs.iter().map(|s| s.parse::<$t>().unwrap()).collect(); intvec::intvec_case::<$t>(cx, &v, "replay", &[ctor.min(2)], 1, rng); }}; }
            match c["type"].as_str().unwrap_or("u32") {
                "u8" => go!(u8), "u16" => go!(u16), "u32" => go!(u32), "u64" => go!(u64),
                "i8" => go!(i8), "i16" => go!(i16), "i32" => go!(i32), _ => go!(i64),
            }
        }
        _ => {}
    }
}

fn all_types(cx: &mut Ctx, rng: &mut Rng, size_class: u32) {
    intvec::gen_intvec::<u8>(cx, rng, size_class); intvec::gen_intvec::<u16>(cx, rng, size_class);
    intvec::gen_intvec::<u32>(cx, rng, size_class); intvec::gen_intvec::<u64>(cx, rng, size_class);
    intvec::gen_intvec::<i8>(cx, rng, size_class); intvec::gen_intvec::<i16>(cx, rng, size_class);
    intvec::gen_intvec::<i32>(cx, rng, size_class); intvec::gen_intvec::<i64>(cx, rng, size_class);
}

pub fn run(args: &Args) {
    if std::env::var("C09_LOUD").is_ok() { std::panic::set_hook(Box::new(|i| { if let Some(l) = i.location() { if l.file().contains("harness") || l.file().contains("c09") { eprintln!("harness panic at {}:{}", l.file(), l.line()); } } })); }
    let th = args.thorough;
    let mut cx = Ctx {
        sum: Summary::new("C09", "UintVecMin0: generated operation histories (new/set/get/push_back/resize/clear/build_from/dump) at widths 0,1,3,7,8,9,13,31,32,33,57,58 with values at mask and mask+1, every element read back and raw memory dumped, compared with the Coq model and with a shadow Vec; IntVec<8 types> x 3 constructors: all sequences of length <=4 over {0,1,MAX-1,MAX,MIN}, then 13 shapes (constant, arithmetic, sorted small/big steps, sorted with a jump near the end, one inversion, small range, full range, few huge outliers, type extremes, per-block bases, around zero, shifted random) at lengths 0..257 around 4/8/32/64/128/256 and (fewer) around 1000/1024/2048/10000/16384, read back at every index (sampled above 400) and five indices past the end; SortedUintVec: three presets and custom (block 16..256, offset 8..32, sample 16..64 bits, simd on/off, some invalid) x sorted sequences whose in-block deltas sit at 2^w-1, 2^w, 2^w+1 and whose bases sit at the sample-width limit and at u64::MAX, get/get2/get_block at every index and past the end; IntVec additionally: one vector of more than 10000 elements whose short last block carries the widest offsets (full analysis, block layout) and 59..63-bit fields whose last field ends in the last byte of the buffer (n*w = 121..127 mod 128); ZipIntVec: build_from_usize/u32, push with fixed and growing width, values up to usize::MAX; UintVector build_from and push (prefix re-read during construction) incl. runs and >1000 elements; UintVecMin0::build_from_i32/u32 incl. i32::MIN with i32::MAX; breadth: half of the UintVecMin0 histories also use get2, back, shrink_to_fit, resize_with_uintbits / resize_with_wire_max_val, the static fast_get (incl. indices at 2^61), typed builders and Default as starts, every width 0..58, with the allocation checked to carry the last 8-byte load after every operation; ZipIntVec histories over all 17 entry points with a swap partner; SortedUintVec fed by push / extend / both / new / default / with_pool / a builder reused after refusals, re-read through to_bytes + from_bytes and through larger and shorter block buffers; UintVector started by with_capacity / Default and a bulk-built prefix of every layout continued by pushes that change the layout; IntVec read through a clone, unique minimum / maximum at the ends of the 8- and 16-element scan chunks and around the 128-element switch, sizes thr-1, thr, thr+1 of the full analysis per element size (17408 one-byte elements, 10001 otherwise); every container at 65535, 65536, 65537 and 2^20+1 elements described by (container, kind, n, seed); non-trivial = history of >=3 ops or sequence of >=2 elements"),
        shards: CoqShards::new(HEADER, 100),
        budget: if th { 12000 } else { 1500 },
        model_sorted: MODEL_SORTED, n_sorted_coq: 0, cap_sorted_coq: if th { 4000 } else { 450 },
        model_intvec: MODEL_INTVEC, n_intvec_coq: 0, cap_intvec_coq: if th { 4000 } else { 300 },
        model_zip: MODEL_ZIP, n_zip_coq: 0, cap_zip_coq: if th { 2000 } else { 200 },
        n_min0_coq: 0, cap_min0_coq: if th { 3000 } else { 350 },
        model_uintvec: MODEL_UINTVEC, n_uintvec_coq: 0, cap_uintvec_coq: if th { 1500 } else { 150 },
        model_min0typed: MODEL_MIN0TYPED, n_min0typed_coq: 0, cap_min0typed_coq: if th { 500 } else { 50 },
        corpus_mode: false,
    };
    let mut rng = Rng::new(args.seed);
    if let Some(f) = &args.replay {
        let v: Value = serde_json::from_str(&std::fs::read_to_string(f).expect("replay file")).expect("json");
        let c = if v.get("case").is_some() { v["case"].clone() } else { v };
        run_one(&mut cx, &c, &mut rng);
        let sh = cx.shards.write(&args.out);
        cx.sum.write(&args.out, sh);
        return;
    }
    let corpus = if std::path::Path::new("corpus/C09").is_dir() { "corpus/C09" } else { "/verif/corpus/C09" };
    if let Ok(rd) = std::fs::read_dir(corpus) {
        let mut files: Vec<_> = rd.filter_map(|e| e.ok()).map(|e| e.path()).collect();
        files.sort();
        for p in files {
            if let Ok(v) = serde_json::from_str::<Value>(&std::fs::read_to_string(&p).unwrap_or_default()) {
                let c = if v.get("case").is_some() { v["case"].clone() } else { v };
                cx.corpus_mode = true;
                run_one(&mut cx, &c, &mut rng);
                cx.corpus_mode = false;
                cx.sum.dist("corpus_cases");
            }
        }
    }
    // enumerated small universe (IntVec)
    intvec::enum_small::<u8>(&mut cx, &mut rng); intvec::enum_small::<i8>(&mut cx, &mut rng);
    intvec::enum_small::<u16>(&mut cx, &mut rng); intvec::enum_small::<i16>(&mut cx, &mut rng);
    intvec::enum_small::<u32>(&mut cx, &mut rng); intvec::enum_small::<i32>(&mut cx, &mut rng);
    intvec::enum_small::<u64>(&mut cx, &mut rng); intvec::enum_small::<i64>(&mut cx, &mut rng);
    macro_rules! each_type { ($f:ident) => { intvec::$f::<u8>(&mut cx, &mut rng); intvec::$f::<i8>(&mut cx, &mut rng); intvec::$f::<u16>(&mut cx, &mut rng); intvec::$f::<i16>(&mut cx, &mut rng);
        intvec::$f::<u32>(&mut cx, &mut rng); intvec::$f::<i32>(&mut cx, &mut rng); intvec::$f::<u64>(&mut cx, &mut rng); intvec::$f::<i64>(&mut cx, &mut rng); }; }
    each_type!(minmax_position_family);
    each_type!(analysis_threshold_family);
    // the full analysis (more than 10000 elements), replayed in the model
    match rng.below(4) { 0 => intvec::full_analysis_case::<u16>(&mut cx, &mut rng), 1 => intvec::full_analysis_case::<u32>(&mut cx, &mut rng),
                         2 => intvec::full_analysis_case::<i32>(&mut cx, &mut rng), _ => intvec::full_analysis_case::<u64>(&mut cx, &mut rng) }
    // UintVector: a bulk-built prefix of each layout (raw: fewer than 4 / incompressible; min-max; run length), continued by pushes across the
    // 64-value recompression marks whose values make the recompression change the layout
    for pk in 0..4u32 { for &split in &[1usize, 3, 4, 5, 63, 64, 65, 130] { for &np in &[1usize, 63, 64, 65, 128, 129] { for tk in 0..3u32 {
        let pre = |k: usize| -> u32 { match pk { 0 => (k as u32).wrapping_mul(0x9E37_79B1) ^ 0x8000_0000, 1 => 1000 + (k as u32 * 7) % 200, 2 => 40 + (k / 9) as u32, _ => 4_000_000_000 + (k % 3) as u32 } };
        let tail = |k: usize| -> u32 { match tk { 0 => if k % 2 == 0 { u32::MAX } else { 0 }, 1 => 77, _ => pre(split + k) } };
        let vals: Vec<u32> = (0..split).map(|k| pre(k)).chain((0..np).map(|k| tail(k))).collect();
        uintvector_mixed_case(&mut cx, &vals, split);
    } } } }
    // refused operations inside histories (deterministic): UintVecMin0 (modelled and extended operation sets), ZipIntVec, and a
    // SortedUintVecBuilder that refuses values between accepted ones, inside a block, at a block boundary and as the very first answer
    for ops in refused_histories() { min0_history(&mut cx, &ops, false); cx.sum.dist("refused_family_min0"); }
    for ops in hist::refused_zip_histories() { hist::zip_history(&mut cx, &ops); cx.sum.dist("refused_family_zip"); }
    for p in 0..3usize {
        let c = sorted::preset(p);
        let bs = 1u64 << c.log2;
        for &at in &[1u64, 2, bs - 1, bs, bs + 1, 2 * bs] {
            // ascending by 3 with a value below its predecessor at `at` (refused), an equal value after it (accepted), one more refusal inside the extend chunk
            let mut vals: Vec<u64> = vec![];
            for k in 0..(2 * bs + 9) { if k == at { vals.push((3 * k).saturating_sub(4)); vals.push(3 * k - 3); } else if k == at + 4 { vals.push(0); } vals.push(3 * k + 1000 * (k / bs)); }
            sorted::sorted_case_via(&mut cx, c, &vals, false, 5);
            cx.sum.dist("refused_family_sorted_builder");
        }
    }
    let nh = if th { 40000 } else { 3000 };
    for i in 0..nh {
        let ops = gen_history(&mut rng, i % 2 == 1);
        if i < 2 { cx.sum.sample(json!({"min0_history": ops.iter().take(8).map(|(o, a)| json!([o, a.iter().take(6).collect::<Vec<_>>()])).collect::<Vec<_>>()})); }
        min0_history(&mut cx, &ops, false);
    }
    let nv = if th { 12000 } else { 2000 };
    for i in 0..nv {
        all_types(&mut cx, &mut rng, 0);
        if i % 12 == 0 { all_types(&mut cx, &mut rng, 1); }
        if i % 5 == 0 { intvec::tight_tail_case::<u64>(&mut cx, &mut rng, 40); intvec::tight_tail_case::<i64>(&mut cx, &mut rng, 40); }
        if i % 175 == 3 { all_types(&mut cx, &mut rng, 2); }
        sorted::gen_sorted(&mut cx, &mut rng, i);
        sorted::gen_sorted(&mut cx, &mut rng, i + 1);
        // UintVector
        let n = if i % 40 == 7 { *rng.pick(&[1000usize, 1001, 1002, 1063, 1064, 1100]) } else { *rng.pick(&[0usize, 1, 2, 3, 4, 5, 63, 64, 65, 127, 128, 129, 130, 191, 192, 193, 200, 300]) };
        let mut run_left = 0u64; let mut run_val = 0u32;
        let uv: Vec<u32> = (0..n).map(|k| match i % 7 {
            0 => 7, 1 => k as u32, 2 => rng.next() as u32, 3 => if rng.chance(1, 30) { u32::MAX } else { rng.below(9) as u32 },
            4 => (rng.below(1000) as u32) << (rng.below(22) as u32),
            5 => { if run_left == 0 { run_left = 1 + rng.below(40); run_val = if rng.chance(1, 4) { rng.next() as u32 } else { rng.below(5) as u32 }; } run_left -= 1; run_val }
            _ => u32::MAX - rng.below(3) as u32 }).collect();
        uintvector_case(&mut cx, &uv, false, false, &mut rng, 0);
        uintvector_case(&mut cx, &uv, true, false, &mut rng, (i % 4) as u32);
        { let sp = *rng.pick(&[0usize, 1, 2, 63, 64, 65, n / 2, n.saturating_sub(1), n]); uintvector_mixed_case(&mut cx, &uv, sp); }
        // ZipIntVec
        { let ops = hist::gen_zip_history(&mut rng); if i < 2 { cx.sum.sample(json!({"zip_history": ops.iter().take(8).map(|(o, a)| json!([hist::ZIP_OPS[*o as usize], a.iter().take(4).collect::<Vec<_>>()])).collect::<Vec<_>>()})); } hist::zip_history(&mut cx, &ops); }
        let zn = *rng.pick(&[1usize, 1, 2, 3, 10, 63, 64, 65, 130]);
        let sh = *rng.pick(&[0u32, 1, 8, 20, 40, 57, 58, 59, 63]);
        let zbase = match rng.below(4) { 0 => 0u64, 1 => 1000, 2 => u64::MAX - if sh >= 63 { u64::MAX >> 1 } else { (1u64 << sh) - 1 }, _ => rng.next() >> 1 };
        let zv: Vec<u64> = (0..zn).map(|_| zbase.saturating_add(if sh == 0 { 0 } else { rng.below(1u64 << sh) + if rng.chance(1, 6) { 0 } else { 0 } })).collect();
        let mut zv = zv; if sh > 0 && sh < 63 && zn >= 2 && rng.chance(1, 2) { zv[0] = zbase; zv[zn - 1] = zbase.saturating_add((1u64 << sh) - 1); }
        zip_case(&mut cx, &zv, 0, false);
        zip_case(&mut cx, &zv, 1, false);
        zip_case(&mut cx, &zv, 3, false);
        let zv32: Vec<u64> = zv.iter().map(|&v| v & 0xFFFF_FFFF).collect();
        zip_case(&mut cx, &zv32, 2, false);
        // UintVecMin0 typed builders
        let tn = *rng.pick(&[1usize, 2, 3, 64, 65]);
        let tv: Vec<i64> = (0..tn).map(|_| match i % 4 { 0 => rng.below(100) as i64 - 50, 1 => *rng.pick(&[i32::MIN as i64, i32::MAX as i64, 0, -1, 1]), 2 => (rng.next() as i32) as i64, _ => i32::MIN as i64 + rng.below(1000) as i64 }).collect();
        min0_typed_case(&mut cx, &tv, true, false);
        let tu: Vec<i64> = tv.iter().map(|&x| (x as i32 as u32) as i64).collect();
        min0_typed_case(&mut cx, &tu, false, false);
    }
    // sizes across 2^16 / 2^20 and the 64 KiB marks, described by (container, kind, n, seed); last, so that a defect that small
    // histories show as well is reported (and shrunk) on one of those
    hist::gen_big(&mut cx, &mut rng);
    if th { for _ in 0..4 { hist::gen_big(&mut cx, &mut rng); } }
    { let ok = zipora::memory::SecureMemoryPool::new(zipora::memory::SecurePoolConfig::small_secure()).ok().and_then(|p| std::sync::Arc::try_unwrap(p).ok()).is_some();
      cx.sum.dist_max("sorted_with_pool_constructible", ok as u64); }
    cx.sum.dist_max("coq_cases", cx.shards.len() as u64);
    cx.sum.dist_max("coq_cases_min0", cx.n_min0_coq as u64);
    cx.sum.dist_max("coq_cases_sorted", cx.n_sorted_coq as u64);
    cx.sum.dist_max("coq_cases_zip", cx.n_zip_coq as u64);
    cx.sum.dist_max("coq_cases_intvec", cx.n_intvec_coq as u64);
    cx.sum.dist_max("coq_cases_uintvector", cx.n_uintvec_coq as u64);
    cx.sum.dist_max("coq_cases_min0typed", cx.n_min0typed_coq as u64);
    let sh = cx.shards.write(&args.out);
    cx.sum.write(&args.out, sh);
}

// which mechanism models exist on the Coq side (coq/C09/Cases.v must know the constructor)
const MODEL_SORTED: bool = true;
const MODEL_INTVEC: bool = true;
const MODEL_ZIP: bool = true;
const MODEL_UINTVEC: bool = true;
const MODEL_MIN0TYPED: bool = true;
