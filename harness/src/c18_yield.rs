//! C18, M+S cells added with coq/C18/ModelYield.v: the yielding loops of fiber_yield.rs and FiberIoUtils::batch_process driven by
//! hand (kind 19: every `Poll::Pending` is one suspension, so the exact interleaving of function calls and suspensions is
//! observed without any scheduler), and `buffered(max_concurrent)` of concurrent_with_yield / process_files_parallel over gated
//! operations (kind 20: how many operations have been started after every gate = the sliding window with head-of-line blocking).
use super::*;
use zipora::concurrency::pipeline::FilterStage;
use std::sync::atomic::AtomicBool;
use std::sync::Mutex;
use std::task::{Context, Poll, Wake, Waker};

const YIELD: i64 = 100000;
const CHUNK: i64 = 100001;
const FILTERED: i64 = 100002;
type Fb = fn(Vec<i64>) -> ZResult<Vec<i64>>;

struct FlagWake(AtomicBool);
impl Wake for FlagWake {
    fn wake(self: Arc<Self>) { self.0.store(true, Ordering::SeqCst); }
    fn wake_by_ref(self: &Arc<Self>) { self.0.store(true, Ordering::SeqCst); }
}

type TLog = Arc<Mutex<Vec<i64>>>;

/// polls until the future is ready (every Pending is logged as a suspension); None = not ready after `max` polls
fn drive<T>(fut: &mut Pin<Box<dyn Future<Output = T> + '_>>, log: &TLog, max: usize) -> Option<T> {
    let flag = Arc::new(FlagWake(AtomicBool::new(false)));
    let waker = Waker::from(flag);
    let mut cx = Context::from_waker(&waker);
    for _ in 0..max {
        match fut.as_mut().poll(&mut cx) {
            Poll::Ready(v) => return Some(v),
            Poll::Pending => log.lock().unwrap().push(YIELD),
        }
    }
    None
}

/// which: 1 process_vec_yielding, 2 run_with_yield, 3 YieldingIterator::for_each, 4 FiberIoUtils::batch_process, 7 YieldingIterator::collect;
/// the stages' own process_batch: 8 MapStage (trait default), 9 BatchMapStage without batch function (max_concurrency 4), 10 BatchMapStage
/// with a batch function, 11 FilterStage (keeps x when x mod 3 != 0)
pub(super) fn yield_trace_case(cx: &mut Ctx, which: u64, interval: usize, xs: &[i64], force: bool) {
    let cell = match which { 1 => "CooperativeUtils::process_vec_yielding", 2 => "CooperativeUtils::run_with_yield", 4 => "FiberIoUtils::batch_process",
                             8..=11 => "PipelineStage::process_batch (MapStage / BatchMapStage / FilterStage)", _ => "YieldingIterator" };
    let case = json!({"cell": "yieldtrace", "kind": 19, "which": which, "limit": interval, "ops": xs});
    cx.sum.eval(cell, &format!("yt {} {} {:?}", which, interval, xs), xs.len() >= 2);
    cx.sum.cell_status(cell, "M+S");
    let xv = xs.to_vec();
    let n = xs.len();
    let log: TLog = Arc::new(Mutex::new(vec![]));
    let lg = log.clone();
    let max_polls = 4 * n + 16;
    let r = guarded(move || -> Option<Option<Vec<i64>>> {
        let l2 = lg.clone();
        let mut fut: Pin<Box<dyn Future<Output = Option<Vec<i64>>>>> = match which {
            1 => Box::pin(async move { CooperativeUtils::process_vec_yielding(xv, interval, move |x| { l2.lock().unwrap().push(x); stage(x) }).await.ok() }),
            2 => Box::pin(async move { CooperativeUtils::run_with_yield(n, interval, move |i| { l2.lock().unwrap().push(i as i64); stage(xv[i]) }).await.ok() }),
            3 => Box::pin(async move {
                let seen: TLog = Arc::new(Mutex::new(vec![]));
                let s2 = seen.clone();
                let res = YieldingIterator::new(xv.into_iter(), interval).for_each(move |x| { l2.lock().unwrap().push(x); stage(x).map(|y| s2.lock().unwrap().push(y)) }).await;
                let seen = seen.lock().unwrap().clone();
                match res { Ok(cnt) => if cnt == seen.len() { Some(seen) } else { Some(vec![i64::MIN + 1]) }, Err(_) => None }
            }),
            4 => Box::pin(async move {
                FiberIoUtils::batch_process(xv, interval, move |b: Vec<i64>| -> Pin<Box<dyn Future<Output = ZResult<Vec<i64>>> + Send>> {
                    { let mut g = l2.lock().unwrap(); g.push(CHUNK); g.extend_from_slice(&b); }
                    Box::pin(async move { b.into_iter().map(stage).collect() })
                }).await.ok()
            }),
            8 => Box::pin(async move {
                let st = MapStage::new("m".to_string(), move |x: i64| { l2.lock().unwrap().push(x); stage(x) });
                st.process_batch(xv).await.ok()
            }),
            9 => Box::pin(async move {
                let st = BatchMapStage::<_, Fb>::new("bm".to_string(), move |x: i64| { l2.lock().unwrap().push(x); stage(x) }).with_max_concurrency(4);
                st.process_batch(xv).await.ok()
            }),
            10 => Box::pin(async move {
                let st = BatchMapStage::with_batch_support("bb".to_string(), stage, move |b: Vec<i64>| -> ZResult<Vec<i64>> {
                    { let mut g = l2.lock().unwrap(); g.push(CHUNK); g.extend_from_slice(&b); }
                    b.into_iter().map(stage).collect()
                });
                st.process_batch(xv).await.ok()
            }),
            11 => Box::pin(async move {
                let st = FilterStage::new("f".to_string(), move |x: &i64| { l2.lock().unwrap().push(*x); x.rem_euclid(3) != 0 });
                st.process_batch(xv).await.ok().map(|v: Vec<Option<i64>>| v.into_iter().map(|o| o.unwrap_or(FILTERED)).collect())
            }),
            _ => Box::pin(async move {
                let col: Vec<i64> = YieldingIterator::new(xv.into_iter().inspect(move |x| l2.lock().unwrap().push(*x)), interval).collect().await;
                Some(col)
            }),
        };
        drive(&mut fut, &lg, max_polls)
    });
    let want = match which { 7 => Some(xs.to_vec()), 11 => Some(xs.iter().map(|&x| if x.rem_euclid(3) != 0 { x } else { FILTERED }).collect()), _ => seq_map(xs, false) };
    match r {
        Err(p) => cx.sum.fail(cell, None, case, &format!("panicked: {}", p)),
        Ok(None) => cx.sum.fail(cell, None, case, &format!("still pending after {} polls (every suspension had woken the task)", max_polls)),
        Ok(Some(got)) => {
            let mut obs = obs_opt(&got);
            obs.push(-7);
            obs.extend(log.lock().unwrap().iter().cloned());
            cx.coq(19, which, interval as u64, xs, &obs, &case, force);
            if got != want { cx.sum.fail(cell, None, case, &format!("returned {:?}, applying the function in input order gives {:?}", got, want)); }
        }
    }
}

/// which: 0 CooperativeUtils::concurrent_with_yield, 5 FiberIoUtils::process_files_parallel; operation i waits for gate i
pub(super) fn buffered_case(cx: &mut Ctx, which: u64, limit: usize, xs: &[i64], gates_in: &[i64], force: bool) {
    let cell = if which == 0 { "CooperativeUtils::concurrent_with_yield" } else { "FiberIoUtils::process_files_parallel" };
    let n = xs.len();
    let mut gates: Vec<i64> = vec![];
    for &g in gates_in { if g >= 0 && (g as usize) < n && !gates.contains(&g) { gates.push(g); } }
    for i in 0..n { if !gates.contains(&(i as i64)) { gates.push(i as i64); } }
    let case = json!({"cell": "buffered", "kind": 20, "which": which, "limit": limit, "ops": xs, "gates": gates});
    cx.sum.eval(cell, &format!("bf {} {} {:?} {:?}", which, limit, xs, gates), n >= 2);
    cx.sum.cell_status(cell, "M+S");
    cx.sum.dist(&format!("buffered_ops_vs_limit={}", if n < limit { "below" } else if n == limit { "equal" } else { "above" }));
    let xv = xs.to_vec();
    let gv = gates.clone();
    let r = guarded(move || with_rt(0, async move {
        let started = Arc::new(AtomicU32::new(0));
        let mut txs: Vec<Option<tokio::sync::oneshot::Sender<()>>> = vec![];
        let mut rxs = vec![];
        for _ in 0..n { let (tx, rx) = tokio::sync::oneshot::channel::<()>(); txs.push(Some(tx)); rxs.push(Some(rx)); }
        let mut fut: Pin<Box<dyn Future<Output = Option<Vec<i64>>>>> = if which == 0 {
            let ops: Vec<Pin<Box<dyn Future<Output = ZResult<i64>> + Send>>> = xv.iter().cloned().enumerate().map(|(i, x)| {
                let rx = rxs[i].take().unwrap();
                let st = started.clone();
                Box::pin(async move { st.fetch_add(1, Ordering::SeqCst); let _ = rx.await; stage(x) }) as Pin<Box<dyn Future<Output = ZResult<i64>> + Send>>
            }).collect();
            Box::pin(async move { CooperativeUtils::concurrent_with_yield(ops, limit).await.ok() })
        } else {
            let slots: Arc<Mutex<Vec<Option<tokio::sync::oneshot::Receiver<()>>>>> = Arc::new(Mutex::new(rxs));
            let st = started.clone();
            let paths: Vec<String> = xv.iter().enumerate().map(|(i, x)| format!("{}:{}", i, x)).collect();
            Box::pin(async move {
                FiberIoUtils::process_files_parallel(paths, limit, move |p: String| -> Pin<Box<dyn Future<Output = ZResult<i64>> + Send>> {
                    let mut it = p.split(':');
                    let i: usize = it.next().unwrap().parse().unwrap();
                    let x: i64 = it.next().unwrap().parse().unwrap();
                    let rx = slots.lock().unwrap()[i].take();
                    let st = st.clone();
                    Box::pin(async move { st.fetch_add(1, Ordering::SeqCst); if let Some(rx) = rx { let _ = rx.await; } stage(x) })
                }).await.ok()
            })
        };
        let flag = Arc::new(FlagWake(AtomicBool::new(false)));
        let waker = Waker::from(flag.clone());
        let mut cxp = Context::from_waker(&waker);
        let mut result: Option<Option<Vec<i64>>> = None;
        let mut obs: Vec<i64> = vec![];
        let mut settle = |fut: &mut Pin<Box<dyn Future<Output = Option<Vec<i64>>>>>, result: &mut Option<Option<Vec<i64>>>| {
            if result.is_some() { return; }
            for _ in 0..(8 * n + 32) {
                flag.0.store(false, Ordering::SeqCst);
                match fut.as_mut().poll(&mut cxp) {
                    Poll::Ready(v) => { *result = Some(v); return; }
                    Poll::Pending => if !flag.0.load(Ordering::SeqCst) { return; },
                }
            }
        };
        settle(&mut fut, &mut result);
        obs.push(started.load(Ordering::SeqCst) as i64);
        for &g in &gv {
            if let Some(tx) = txs[g as usize].take() { let _ = tx.send(()); }
            settle(&mut fut, &mut result);
            obs.push(started.load(Ordering::SeqCst) as i64);
        }
        obs.push(-7);
        match &result { Some(v) => obs.extend(obs_opt(v)), None => obs.push(-9) }
        (obs, result)
    }));
    match r {
        Err(p) => cx.sum.fail(cell, None, case, &format!("panicked: {}", p)),
        Ok((obs, result)) => {
            let mut ops: Vec<i64> = xs.to_vec();
            ops.extend_from_slice(&gates);
            cx.coq(20, limit as u64, n as u64, &ops, &obs, &case, force);
            let want = seq_map(xs, false);
            match result {
                None => cx.sum.fail(cell, None, case, "every operation has finished, the call has not returned"),
                Some(got) => if got != want { cx.sum.fail(cell, None, case, &format!("returned {:?}, applying the function in input order gives {:?}", got, want)); }
            }
        }
    }
}

/// hook-driven executor history with shutdown (coq/C18/ModelLife.v, kind 22): task code = submit, 10+w = find_task of worker w,
/// 30+w = balance of worker w, 7 = shutdown(), 5 = total_queued; then every worker asks for work until a whole pass is empty
pub(super) fn life_hist_case(cx: &mut Ctx, nw: usize, cap: usize, ops_in: &[i64], force: bool) {
    let cell = "WorkStealingExecutor/shutdown history (hook)";
    let ops: Vec<i64> = ops_in.iter().cloned().filter(|&o| is_task_code(o) && code_beh(o) == 0 || o == 5 || o == 7 || (10..10 + nw as i64).contains(&o) || (30..30 + nw as i64).contains(&o)).collect();
    let case = json!({"cell": "lifehist", "kind": 22, "nw": nw, "cap": cap, "ops": ops});
    let nsub = ops.iter().filter(|&&o| o >= 1000).count();
    let ov = ops.clone();
    let r = guarded(move || {
        let ex = match WorkStealingExecutor::verif_new_paused(nw, cap) { Ok(e) => e, Err(_) => return None };
        let counters: Arc<Vec<AtomicU32>> = Arc::new((0..nsub + 1).map(|_| AtomicU32::new(0)).collect());
        let mut obs: Vec<i64> = vec![];
        let mut accepted = vec![false; nsub];
        let mut out = vec![0u32; nsub];
        let mut problems: Vec<String> = vec![];
        let mut next = 0usize;
        let mut down = false;
        let took = |t: Option<Box<dyn Task>>, out: &mut Vec<u32>| -> i64 { match t { None => -1, Some(t) => { let id = task_id(&t); if id >= 0 && (id as usize) < out.len() { out[id as usize] += 1; } id } } };
        for &o in &ov {
            if o >= 1000 {
                let ok = submit_k(&ex, 0, next, CountTask { id: next, prio: code_prio(o), steal: code_steal(o), beh: 0, counters: counters.clone(), nest: None }).is_ok();
                if ok && down && problems.is_empty() { problems.push(format!("task {} was accepted after shutdown(): every worker has been aborted, nothing will run it", next)); }
                accepted[next] = ok;
                obs.push(ok as i64);
                next += 1;
            } else if o >= 30 { ex.verif_balance((o - 30) as usize); }
            else if o >= 10 { let t = ex.verif_find_task((o - 10) as usize); obs.push(took(t, &mut out)); }
            else if o == 7 { let e2 = ex.clone(); let _ = with_rt(0, async move { e2.shutdown().await }); down = true; }
            else { obs.push(ex.total_queued() as i64); }
        }
        obs.push(-7);
        for _ in 0..(nsub + 2) {
            let mut any = false;
            for w in 0..nw { let t = ex.verif_find_task(w); let v = took(t, &mut out); if v >= 0 { obs.push(v); any = true; } }
            if !any { break; }
        }
        obs.push(-7);
        let left = ex.total_queued();
        obs.push(left as i64);
        for i in 0..nsub {
            if accepted[i] && out[i] == 0 { problems.push(format!("task {} was accepted but no worker's find_task ever returns it (total_queued = {})", i, left)); break; }
            if out[i] > 1 { problems.push(format!("task {} was handed out {} times", i, out[i])); break; }
            if !accepted[i] && out[i] > 0 { problems.push(format!("task {} was refused by submit but handed out", i)); break; }
        }
        Some((obs, problems))
    });
    match r {
        Err(p) => { cx.sum.eval(cell, &format!("lh {} {} {:?}", nw, cap, ops), true); cx.sum.fail(cell, None, case, &format!("panicked: {}", p)) }
        Ok(None) => { cx.sum.dist("hook_missing_shutdown_history_cell_skipped"); }
        Ok(Some((obs, problems))) => {
            cx.sum.eval(cell, &format!("lh {} {} {:?}", nw, cap, ops), nsub >= 2 && ops.contains(&7));
            cx.sum.cell_status(cell, "M+S");
            let stripped: Vec<i64> = ops.iter().map(|&o| if o >= 1000 { o % 10000 } else { o }).collect();
            cx.coq(22, nw as u64, cap as u64, &stripped, &obs, &case, force);
            if let Some(p) = problems.first() { cx.sum.fail(cell, None, case, p); }
        }
    }
}

/// one FiberYield (obj 0, param = initial_budget: 1 yield_now, 2 force_yield, 3 reset) or one YieldPoint (obj 1, param = interval:
/// 1 checkpoint, 2 yield_now, 3 reset) driven by hand: suspensions of every operation, then budget() / total_yields() resp. operation_count()
pub(super) fn fy_hist_case(cx: &mut Ctx, obj: u64, param: usize, ops_in: &[i64], force: bool) {
    let cell = if obj == 0 { "FiberYield (budget history)" } else { "YieldPoint (history)" };
    let ops: Vec<i64> = ops_in.iter().cloned().filter(|o| (1..=3).contains(o)).take(600).collect();
    let param = if obj == 0 { param.min(255) } else { param };
    let case = json!({"cell": "fyhist", "kind": 23, "obj": obj, "param": param as u64, "ops": ops});
    cx.sum.eval(cell, &format!("fy {} {} {:?}", obj, param, ops), ops.len() >= 2);
    cx.sum.cell_status(cell, "M+S");
    let ov = ops.clone();
    let r = guarded(move || -> Result<Vec<i64>, String> {
        use zipora::concurrency::fiber_yield::{FiberYield, YieldConfig, YieldPoint};
        let log: TLog = Arc::new(Mutex::new(vec![]));
        let mut obs = vec![];
        let susp = |log: &TLog| -> i64 { let mut g = log.lock().unwrap(); let n = g.len() as i64; g.clear(); n };
        if obj == 0 {
            let fy = FiberYield::with_config(YieldConfig { initial_budget: param as u8, ..YieldConfig::default() });
            for (i, &o) in ov.iter().enumerate() {
                match o {
                    1 => { let mut f: Pin<Box<dyn Future<Output = ()> + '_>> = Box::pin(fy.yield_now()); if drive(&mut f, &log, 8).is_none() { return Err(format!("operation {}: yield_now did not give control back after 8 polls", i)); } }
                    2 => { let mut f: Pin<Box<dyn Future<Output = ()> + '_>> = Box::pin(fy.force_yield()); if drive(&mut f, &log, 8).is_none() { return Err(format!("operation {}: force_yield did not give control back after 8 polls", i)); } }
                    _ => fy.reset(),
                }
                obs.push(susp(&log)); obs.push(fy.budget() as i64); obs.push(fy.total_yields() as i64);
            }
        } else {
            let yp = YieldPoint::new(param);
            for (i, &o) in ov.iter().enumerate() {
                match o {
                    1 => { let mut f: Pin<Box<dyn Future<Output = ()> + '_>> = Box::pin(yp.checkpoint()); if drive(&mut f, &log, 8).is_none() { return Err(format!("operation {}: checkpoint did not give control back after 8 polls", i)); } }
                    2 => { let mut f: Pin<Box<dyn Future<Output = ()> + '_>> = Box::pin(yp.yield_now()); if drive(&mut f, &log, 8).is_none() { return Err(format!("operation {}: yield_now did not give control back after 8 polls", i)); } }
                    _ => yp.reset(),
                }
                obs.push(susp(&log)); obs.push(yp.operation_count() as i64);
            }
        }
        Ok(obs)
    });
    match r {
        Err(p) => cx.sum.fail(cell, None, case, &format!("panicked: {}", p)),
        Ok(Err(e)) => cx.sum.fail(cell, None, case, &e),
        Ok(Ok(obs)) => cx.coq(23, obj, param as u64, &ops, &obs, &case, force),
    }
}

fn mk_blob(i: usize, j: usize) -> Vec<u8> { let mut b = vec![i as u8]; b.extend(std::iter::repeat(j as u8).take(j % 3)); b }

/// one AsyncMemoryBlobStore, a history of operations (see coq/C18/ModelStore.v, kind 21): 2000 + k put_batch of k blobs, 1 put,
/// 100 + j remove of the j-th id handed out so far, 4000 get_batch of all ids handed out in reverse order, 4001 in order of issue
/// followed by an id that was never handed out, 4002 the live ids only, anything else len
pub(super) fn store_case(cx: &mut Ctx, preset: u64, ops_in: &[i64], force: bool) {
    let cell = "AsyncMemoryBlobStore::put_batch/get_batch";
    let ops: Vec<i64> = ops_in.iter().cloned().filter(|&o| (2000..2040).contains(&o) || o == 1 || (100..1000).contains(&o) || (4000..=4002).contains(&o) || o == 5).take(200).collect();
    let case = json!({"cell": "storehist", "kind": 21, "preset": preset, "ops": ops});
    cx.sum.eval(cell, &format!("sh {} {:?}", preset, ops), ops.len() >= 2);
    cx.sum.cell_status(cell, "M+S");
    let ov = ops.clone();
    let r = guarded(move || with_rt(0, async move {
        let store = match preset { 0 => AsyncMemoryBlobStore::new(), 1 => AsyncMemoryBlobStore::with_capacity(2), _ => AsyncMemoryBlobStore::default() };
        let mut shadow: std::collections::HashMap<u32, Vec<u8>> = std::collections::HashMap::new();
        let mut issued: Vec<u32> = vec![];
        let mut obs: Vec<i64> = vec![];
        let mut bad: Option<String> = None;
        let blobs_obs = |r: &Option<Vec<Vec<u8>>>, obs: &mut Vec<i64>| match r { Some(bs) => for b in bs { obs.push(-1); obs.extend(b.iter().map(|&x| x as i64)); }, None => obs.push(-2) };
        for (i, &o) in ov.iter().enumerate() {
            if (2000..3000).contains(&o) {
                let k = (o - 2000) as usize;
                let blobs: Vec<Vec<u8>> = (0..k).map(|j| mk_blob(i, j)).collect();
                let refs: Vec<&[u8]> = blobs.iter().map(|b| b.as_slice()).collect();
                match store.put_batch(refs).await {
                    Ok(ids) => {
                        if ids.len() != k && bad.is_none() { bad = Some(format!("operation {}: put_batch of {} blobs returned {} ids", i, k, ids.len())); }
                        for (j, &id) in ids.iter().enumerate() {
                            if (shadow.contains_key(&id) || ids[..j].contains(&id)) && bad.is_none() { bad = Some(format!("operation {}: put_batch handed out id {} which is in use", i, id)); }
                            if j < k { shadow.insert(id, blobs[j].clone()); }
                            obs.push(id as i64);
                        }
                        issued.extend(ids);
                    }
                    Err(e) => { obs.push(-3); if bad.is_none() { bad = Some(format!("operation {}: put_batch failed: {:?}", i, e)); } }
                }
            } else if o == 1 {
                let b = mk_blob(i, 7);
                match store.put(&b).await {
                    Ok(id) => { if shadow.contains_key(&id) && bad.is_none() { bad = Some(format!("operation {}: put handed out id {} which is in use", i, id)); } shadow.insert(id, b); issued.push(id); obs.push(id as i64); }
                    Err(e) => { obs.push(-3); if bad.is_none() { bad = Some(format!("operation {}: put failed: {:?}", i, e)); } }
                }
            } else if (100..1000).contains(&o) {
                if !issued.is_empty() {
                    let id = issued[(o - 100) as usize % issued.len()];
                    let ok = store.remove(id).await.is_ok();
                    if ok != shadow.remove(&id).is_some() && bad.is_none() { bad = Some(format!("operation {}: remove({}) returned {}", i, id, if ok { "Ok" } else { "Err" })); }
                    obs.push(ok as i64);
                }
            } else if (4000..=4002).contains(&o) {
                let ids: Vec<u32> = match o { 4000 => issued.iter().rev().cloned().collect(), 4001 => { let mut v = issued.clone(); v.push(4000000000); v }, _ => issued.iter().cloned().filter(|id| shadow.contains_key(id)).collect() };
                let got = store.get_batch(ids.clone()).await.ok();
                let want: Option<Vec<Vec<u8>>> = ids.iter().map(|id| shadow.get(id).cloned()).collect();
                if got != want && bad.is_none() { bad = Some(format!("operation {}: get_batch({:?}) returned {:?}, the records put under these ids are {:?}", i, ids, got, want)); }
                blobs_obs(&got, &mut obs);
            } else {
                let n = store.len().await;
                if n != shadow.len() && bad.is_none() { bad = Some(format!("operation {}: len() = {}, {} records are live", i, n, shadow.len())); }
                obs.push(n as i64);
            }
            obs.push(-7);
        }
        (obs, bad)
    }));
    match r {
        Err(p) => cx.sum.fail(cell, None, case, &format!("panicked: {}", p)),
        Ok((obs, bad)) => {
            cx.coq(21, preset, 0, &ops, &obs, &case, force);
            if let Some(b) = bad { cx.sum.fail(cell, None, case, &b); }
        }
    }
}

pub(super) fn generate(cx: &mut Ctx) {
    let thorough = cx.thorough;
    // kind 22: executor histories with shutdown through the hook: 1..3 workers, capacities 0..4, the shutdown early / in the middle / last
    for rep in 0..(if thorough { 400 } else { 80 }) {
        let mut r = cx.rng.clone();
        let nw = 1 + r.below(3) as usize;
        let cap = r.below(5) as usize;
        let n = 3 + r.below(8) as usize;
        let at = match rep % 4 { 0 => 0, 1 => n, _ => r.below(n as u64 + 1) as usize };
        let mut ops: Vec<i64> = vec![];
        for i in 0..n {
            if i == at { ops.push(7); }
            ops.push(match r.below(8) { 0 | 1 | 2 | 3 => 1000 + 2 * r.below(3) as i64 + r.below(2) as i64, 4 | 5 => 10 + r.below(nw as u64) as i64, 6 => 30 + r.below(nw as u64) as i64, _ => 5 });
        }
        if at >= n { ops.push(7); }
        if rep % 2 == 0 { ops.push(1000 + r.below(2) as i64); ops.push(1003); }
        cx.rng = r;
        life_hist_case(cx, nw, cap, &ops, false);
    }
    // kind 23: FiberYield budgets 0, 1, 2, 16, 255 and YieldPoint intervals 0, 1, 2, 3, 16, 17: histories of 4..40 operations (300 in
    // one case per object: the u8 budget and the interval wrap many times)
    for rep in 0..(if thorough { 200 } else { 40 }) {
        let mut r = cx.rng.clone();
        let obj = (rep % 2) as u64;
        let param = if obj == 0 { *r.pick(&[0usize, 1, 2, 16, 255]) } else { *r.pick(&[0usize, 1, 2, 3, 16, 17]) };
        let n = if rep < 2 { 300 } else { 4 + r.below(37) as usize };
        let ops: Vec<i64> = (0..n).map(|_| match r.below(10) { 0..=6 => 1, 7 | 8 => 2, _ => 3 }).collect();
        cx.rng = r;
        fy_hist_case(cx, obj, param, &ops, false);
    }
    // kind 21: blob store histories
    for rep in 0..(if thorough { 300 } else { 70 }) {
        let mut r = cx.rng.clone();
        let n = 2 + r.below(9) as usize;
        let mut ops: Vec<i64> = vec![];
        if rep % 4 == 0 { ops.push(2000 + r.below(4) as i64); }
        for _ in 0..n {
            ops.push(match r.below(10) { 0 | 1 | 2 => 2000 + *r.pick(&[0i64, 1, 2, 3, 5, 9]), 3 => 1, 4 | 5 => 100 + r.below(12) as i64, 6 => 4000, 7 => 4001, 8 => 4002, _ => 5 });
        }
        if rep % 3 == 0 { ops.push(4002); ops.push(4000); }
        let preset = r.below(3);
        cx.rng = r;
        store_case(cx, preset, &ops, false);
    }
    // kind 19: every loop, intervals 0, 1, 2, 3, n - 1, n, n + 1, 16, 17 on 0..40 items, with and without a failing item
    let lens: Vec<usize> = if thorough { vec![0, 1, 2, 3, 4, 5, 7, 8, 9, 15, 16, 17, 18, 33, 40] } else { vec![0, 1, 2, 3, 5, 8, 17, 33] };
    for &n in &lens {
        for fail in 0..2u64 {
            if n == 0 && fail == 1 { continue; }
            let mut r = cx.rng.clone();
            let xs = rand_items(&mut r, n, fail);
            cx.rng = r;
            for &which in &[1u64, 2, 3, 4, 7] {
                if which == 7 && fail == 1 { continue; }
                let mut ivs = vec![0usize, 1, 2, 3, n.saturating_sub(1), n, n + 1, 16, 17];
                ivs.sort(); ivs.dedup();
                for iv in ivs {
                    if !thorough && n > 8 && iv > 3 && iv != 16 && iv != n { continue; }
                    yield_trace_case(cx, which, iv, &xs, false);
                }
            }
            // the stages' own process_batch (no interval)
            for &which in &[8u64, 9, 10, 11] {
                if which == 11 && fail == 1 { continue; }
                yield_trace_case(cx, which, 0, &xs, true);
            }
        }
    }
    // kind 20: buffered windows: 0..7 gated operations, limits 0, 1, 2, 3, n, n + 2, random gate orders (first / last / middle first)
    let lens: Vec<usize> = if thorough { vec![0, 1, 2, 3, 4, 5, 6, 7, 9] } else { vec![0, 1, 2, 3, 4, 6] };
    for &n in &lens {
        for rep in 0..(if thorough { 6 } else { 3 }) {
            let mut r = cx.rng.clone();
            let xs = rand_items(&mut r, n, if rep % 3 == 2 { 1 } else { 0 });
            let mut gates: Vec<i64> = (0..n as i64).collect();
            match rep % 3 { 0 => gates.reverse(), 1 => { for i in (1..n).rev() { let j = r.below(i as u64 + 1) as usize; gates.swap(i, j); } } _ => { if n > 2 { gates.swap(0, n / 2); } } }
            cx.rng = r;
            for &which in &[0u64, 5] {
                let mut lims = vec![0usize, 1, 2, 3, n, n + 2];
                lims.sort(); lims.dedup();
                for lim in lims { buffered_case(cx, which, lim, &xs, &gates, false); }
            }
        }
    }
}
