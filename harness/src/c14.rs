//! C14: every operation that picks a SIMD/BMI2/POPCNT implementation at run time returns what its
//! portable scalar definition returns, independent of alignment, length and detected CPU tier.
//!
//! Process layout: the parent spawns one child per dispatch tier (the repo hook `ZIPORA_VERIF_DISABLE`
//! masks the detected CPU features for the whole process), each child runs the same generators against
//! the real code with the dumb oracles below, inputs placed inside mmap'ed regions bracketed by PROT_NONE
//! guard pages (reads/writes outside the slices fault).  A child that dies leaves the case it was running
//! in a shared file ("crumb"); the parent turns that into a failure.  Every case is explicit
//! (`op`, `a`, `b`, `k`, placement, tier), so a replay reruns exactly it.
use crate::util::*;
use serde_json::{json, Value};
use std::cmp::Ordering;
use std::collections::BTreeMap;

const HEADER: &str = r#"From ZV.Common Require Import Base Run.
From ZV.C14 Require Import Model.
Open Scope N_scope.
Definition case_t : Type := N * list N * list N * N * option (list Z).
Definition ok (c : case_t) : bool :=
  let '(op, a, b, k, expect) := c in eqb_olz (run_case op a b k) expect.
"#;

/// (label, features reported absent)
const TIERS: [(&str, &str); 6] = [
    ("native", ""),
    ("avx2", "avx512"),
    ("sse", "avx512,avx2,avx"),
    ("scalar", "avx512,avx2,avx,bmi2,bmi1,popcnt,lzcnt,sse42,sse41"),
    // mixed tiers (oracle only, no model cases): SSE4.1 without SSE4.2 is the only way into the
    // `Sse2` UTF-8 kernel and pairs BMI2 with the table CRC and scalar memory kernels; BMI masked
    // alone pairs the software bit helpers with AVX-512 / POPCNT kernels
    ("sse41", "avx512,avx2,avx,sse42"),
    ("nobmi", "bmi2,bmi1"),
];
const MODEL_TIERS: usize = 4;

// ---------------------------------------------------------------------------------------------
// guard-page regions
// ---------------------------------------------------------------------------------------------
const PAGE: usize = 4096;
const DATA_PAGES: usize = 3;
struct Region { base: *mut u8 }
impl Region {
    fn new() -> Region {
        unsafe {
            let total = (DATA_PAGES + 2) * PAGE;
            let p = libc::mmap(std::ptr::null_mut(), total, libc::PROT_READ | libc::PROT_WRITE,
                               libc::MAP_PRIVATE | libc::MAP_ANONYMOUS, -1, 0) as *mut u8;
            assert!(p as isize != -1, "mmap");
            libc::mprotect(p as *mut libc::c_void, PAGE, libc::PROT_NONE);
            libc::mprotect(p.add((DATA_PAGES + 1) * PAGE) as *mut libc::c_void, PAGE, libc::PROT_NONE);
            Region { base: p.add(PAGE) }
        }
    }
    fn cap() -> usize { DATA_PAGES * PAGE }
    /// placement: 0..=63 alignment (address mod 64), straddling the first inner page boundary;
    /// 64 flush against the end guard; 65 flush against the start guard.
    fn offset(n: usize, mode: u64) -> usize {
        match mode {
            64 => Self::cap() - n,
            65 => 0,
            m => {
                let off0 = PAGE - (n / 2).min(2000);
                (off0 / 64) * 64 + (m as usize % 64)
            }
        }
    }
    /// Fill the data pages with `surround`, copy `data` to its place, return the slice.
    fn put(&self, data: &[u8], mode: u64, surround: u8) -> &'static mut [u8] {
        let off = Self::offset(data.len(), mode);
        unsafe {
            std::ptr::write_bytes(self.base, surround, Self::cap());
            std::ptr::copy_nonoverlapping(data.as_ptr(), self.base.add(off), data.len());
            std::slice::from_raw_parts_mut(self.base.add(off), data.len())
        }
    }
    /// true if everything outside [off, off+n) still equals `surround`
    fn untouched(&self, n: usize, mode: u64, surround: u8) -> bool {
        let off = Self::offset(n, mode);
        let all = unsafe { std::slice::from_raw_parts(self.base, Self::cap()) };
        all[..off].iter().all(|&b| b == surround) && all[off + n..].iter().all(|&b| b == surround)
    }
}

struct Crumb { p: *mut u8, cap: usize }
impl Crumb {
    fn open(path: &str) -> Crumb {
        use std::os::unix::io::AsRawFd;
        let cap = 1 << 16;
        let f = std::fs::OpenOptions::new().read(true).write(true).create(true).truncate(true).open(path).expect("crumb");
        f.set_len(cap as u64).unwrap();
        let p = unsafe {
            libc::mmap(std::ptr::null_mut(), cap, libc::PROT_READ | libc::PROT_WRITE, libc::MAP_SHARED, f.as_raw_fd(), 0) as *mut u8
        };
        assert!(p as isize != -1);
        Crumb { p, cap }
    }
    fn set(&self, s: &str) {
        let b = s.as_bytes();
        let n = b.len().min(self.cap - 4);
        unsafe {
            std::ptr::copy_nonoverlapping((n as u32).to_le_bytes().as_ptr(), self.p, 4);
            std::ptr::copy_nonoverlapping(b.as_ptr(), self.p.add(4), n);
        }
    }
    fn read(path: &str) -> Option<Value> {
        let b = std::fs::read(path).ok()?;
        if b.len() < 4 { return None; }
        let n = u32::from_le_bytes([b[0], b[1], b[2], b[3]]) as usize;
        if n == 0 || 4 + n > b.len() { return None; }
        serde_json::from_slice(&b[4..4 + n]).ok()
    }
}

// ---------------------------------------------------------------------------------------------
// context
// ---------------------------------------------------------------------------------------------
struct Ctx {
    sum: Summary,
    shards: CoqShards,
    coq_per_op: usize,
    coq_used: BTreeMap<u32, usize>,
    rng: Rng,
    tier: String,    // label
    disable: String, // feature mask of this process
    ra: Region,
    rb: Region,
    rd: Region,
    crumb: Option<Crumb>,
    force_coq: bool,
    objs: std::rc::Rc<wide::Objs>,
}

#[derive(Clone, Copy)]
struct Place { a: u64, b: u64 }

impl Ctx {
    fn case(&self, cell: &str, op: &str, a: &[u8], b: &[u8], k: u64, pl: Place) -> Value {
        json!({"cell": cell, "op": op, "tier": self.disable, "a": a, "b": b, "k": k.to_string(), "pa": pl.a, "pb": pl.b})
    }
    fn begin(&mut self, cell: &str, cj: &Value, nontrivial: bool) {
        if let Some(c) = &self.crumb { c.set(&cj.to_string()); }
        let key = cj.to_string();
        self.sum.eval(cell, &key, nontrivial);
    }
    fn fail(&mut self, cell: &str, class: Option<&str>, cj: &Value, detail: String) {
        self.failc(cell, class, cj, &detail);
    }
    /// record a failure and count it per entry point (visible in the evidence distribution)
    fn failc(&mut self, cell: &str, class: Option<&str>, cj: &Value, detail: &str) {
        let mut what = detail;
        for sep in [" = ", " panicked", ":", " positions", " refused", " left", " wrote", " accepted"] {
            if let Some(i) = what.find(sep) { what = &what[..i]; }
        }
        self.sum.dist(&format!("fail[{}] {} @{}", class.unwrap_or("UNLISTED"), what, self.tier));
        self.sum.fail(cell, class, cj.clone(), detail);
    }
    /// model case for Coq: (op, a, b, k, expected observation)
    fn coq(&mut self, op: u32, a: &[u8], b: &[u8], k: u64, obs: Option<Vec<i128>>, cj: &Value) {
        if !TIERS[..MODEL_TIERS].iter().any(|t| t.1 == self.disable) { return; }
        let used = self.coq_used.entry(op).or_insert(0);
        if !self.force_coq && *used >= self.coq_per_op { return; }
        if a.len() > 300 && !self.force_coq && *used * 4 >= self.coq_per_op { return; } // few long ones
        *used += 1;
        let term = format!("({}, {}, {}, {}, {})", op, coq_bytes(a), coq_bytes(b), k,
                           coq_opt(obs.as_ref().map(|v| coq_z_list(v.iter().cloned()))));
        let mut c = cj.clone();
        c["model_op"] = json!(op);
        c["impl_obs"] = json!(obs.as_ref().map(|v| v.iter().map(|x| x.to_string()).collect::<Vec<_>>()));
        self.shards.push(term, c);
    }
}

fn sign(o: Ordering) -> i32 { match o { Ordering::Less => -1, Ordering::Equal => 0, Ordering::Greater => 1 } }
fn isign(x: i32) -> i32 { x.signum() }
fn opt_i(o: Option<usize>) -> Vec<i128> { vec![o.map(|x| x as i128).unwrap_or(-1)] }
fn bytes_i(b: &[u8]) -> Vec<i128> { b.iter().map(|&x| x as i128).collect() }

// ---------------------------------------------------------------------------------------------
// reference definitions (as dumb as possible)
// ---------------------------------------------------------------------------------------------
fn ref_find(h: &[u8], n: &[u8]) -> Option<usize> {
    if n.is_empty() { return Some(0); }
    if n.len() > h.len() { return None; }
    (0..=h.len() - n.len()).find(|&i| &h[i..i + n.len()] == n)
}
fn ref_crc32c(data: &[u8], mut crc: u32) -> u32 {
    for &b in data {
        crc ^= b as u32;
        for _ in 0..8 { crc = if crc & 1 != 0 { (crc >> 1) ^ 0x82f63b78 } else { crc >> 1 }; }
    }
    crc
}
const B64: &[u8; 64] = b"ABCDEFGHIJKLMNOPQRSTUVWXYZabcdefghijklmnopqrstuvwxyz0123456789+/";
const B64URL: &[u8; 64] = b"ABCDEFGHIJKLMNOPQRSTUVWXYZabcdefghijklmnopqrstuvwxyz0123456789-_";
fn ref_b64(data: &[u8], alpha: &[u8; 64], pad: bool) -> Vec<u8> {
    let mut out = vec![];
    for ch in data.chunks(3) {
        let b0 = ch[0] as u32;
        let b1 = *ch.get(1).unwrap_or(&0) as u32;
        let b2 = *ch.get(2).unwrap_or(&0) as u32;
        let v = (b0 << 16) | (b1 << 8) | b2;
        out.push(alpha[(v >> 18) as usize & 63]);
        out.push(alpha[(v >> 12) as usize & 63]);
        if ch.len() > 1 { out.push(alpha[(v >> 6) as usize & 63]); } else if pad { out.push(b'='); }
        if ch.len() > 2 { out.push(alpha[v as usize & 63]); } else if pad { out.push(b'='); }
    }
    out
}
fn ref_hex(data: &[u8], upper: bool) -> Vec<u8> {
    let t: &[u8; 16] = if upper { b"0123456789ABCDEF" } else { b"0123456789abcdef" };
    data.iter().flat_map(|&b| [t[(b >> 4) as usize], t[(b & 15) as usize]]).collect()
}
fn ref_hexval(c: u8) -> Option<u8> {
    match c { b'0'..=b'9' => Some(c - b'0'), b'a'..=b'f' => Some(c - b'a' + 10), b'A'..=b'F' => Some(c - b'A' + 10), _ => None }
}
fn ref_hex_decode(h: &[u8]) -> Option<Vec<u8>> {
    if h.len() % 2 != 0 { return None; }
    h.chunks(2).map(|c| Some(ref_hexval(c[0])? * 16 + ref_hexval(c[1])?)).collect()
}
fn ref_pdep(src: u64, mask: u64) -> u64 {
    let (mut r, mut k) = (0u64, 0);
    for i in 0..64 { if mask >> i & 1 == 1 { if src >> k & 1 == 1 { r |= 1 << i; } k += 1; } }
    r
}
fn ref_pext(src: u64, mask: u64) -> u64 {
    let (mut r, mut k) = (0u64, 0);
    for i in 0..64 { if mask >> i & 1 == 1 { if src >> i & 1 == 1 { r |= 1 << k; } k += 1; } }
    r
}
fn ref_popcnt(x: u64) -> u32 { (0..64).filter(|&i| x >> i & 1 == 1).count() as u32 }
fn ref_select(x: u64, k: u32) -> Option<u32> { (0..64u32).filter(|&i| x >> i & 1 == 1).nth(k as usize) }
fn ref_rev(x: u64, bits: u32) -> u64 { (0..bits).fold(0u64, |r, i| r | ((x >> i & 1) << (bits - 1 - i))) }
/// glob match, `*` any run of characters, `?` one character (over chars, as the scalar definition)
fn ref_wild(t: &[char], p: &[char]) -> bool {
    // dynamic programme
    let mut dp = vec![vec![false; p.len() + 1]; t.len() + 1];
    dp[0][0] = true;
    for j in 1..=p.len() { dp[0][j] = p[j - 1] == '*' && dp[0][j - 1]; }
    for i in 1..=t.len() {
        for j in 1..=p.len() {
            dp[i][j] = match p[j - 1] {
                '*' => dp[i - 1][j] || dp[i][j - 1],
                '?' => dp[i - 1][j - 1],
                c => c == t[i - 1] && dp[i - 1][j - 1],
            };
        }
    }
    dp[t.len()][p.len()]
}

// ---------------------------------------------------------------------------------------------
// operations: each runs the real entry points on one explicit case and applies the oracle
// ---------------------------------------------------------------------------------------------
macro_rules! check {
    ($cx:expr, $cell:expr, $cj:expr, $call:expr, $want:expr, $what:expr) => {{
        match guarded(|| $call) {
            Err(p) => $cx.fail($cell, None, $cj, format!("{} panicked: {}", $what, p)),
            Ok(got) => { let want = $want; if got != want { $cx.fail($cell, None, $cj, format!("{} = {:?}, scalar definition gives {:?}", $what, got, want)); } }
        }
    }};
}

#[path = "c14_wide.rs"]
mod wide;

/// width of the vector loop memory::simd_ops uses in this process for a buffer of length n (0 = scalar)
fn memops_width(disable: &str) -> u64 {
    if !disable.contains("avx512") { 64 } else if !disable.contains("avx2") { 32 } else if !disable.contains("sse41") { 16 } else { 0 }
}
/// width of the ASCII fast path of io::simd_validation::utf8 (avx512 feature is off in the build)
fn utf8_width(disable: &str) -> u64 {
    if !disable.contains("avx2") { 32 } else if !disable.contains("sse41") || !disable.contains("sse42") { 16 } else { 0 }
}

fn op_compare(cx: &mut Ctx, a: &[u8], b: &[u8], pl: Place) {
    use zipora::memory::simd_ops::*;
    let cell = "memory::simd_ops/compare";
    let cj = cx.case(cell, "compare", a, b, 0, pl);
    cx.begin(cell, &cj, a.len().min(b.len()) >= 16);
    let sa: &[u8] = cx.ra.put(a, pl.a, 0xA5);
    let sb: &[u8] = cx.rb.put(b, pl.b, 0x5A);
    let want = sign(a.cmp(b));
    let ops = SimdMemOps::new();
    check!(cx, cell, &cj, isign(ops.compare(sa, sb)), want, "sign(SimdMemOps::compare)");
    check!(cx, cell, &cj, isign(fast_compare(sa, sb)), want, "sign(fast_compare)");
    check!(cx, cell, &cj, isign(fast_compare_cache_optimized(sa, sb)), want, "sign(fast_compare_cache_optimized)");
    check!(cx, cell, &cj, isign(ops.compare_cache_optimized(sb, sa)), -want, "sign(compare_cache_optimized(b,a))");
    if let Ok(v) = guarded(|| ops.compare(sa, sb)) {
        cx.coq(0, a, b, memops_width(&cx.disable), Some(vec![isign(v) as i128]), &cj);
        cx.coq(18, a, b, 0, Some(vec![isign(v) as i128]), &cj);
    }
    // io::simd_memory::search::compare_strings and string::simd_search::sse42_strcmp (Ordering)
    let cell2 = "io::simd_memory::search/compare_strings";
    cx.sum.eval(cell2, "", false);
    let want_o = a.cmp(b);
    check!(cx, cell2, &cj, zipora::io::simd_memory::compare_strings(sa, sb), want_o, "compare_strings");
    check!(cx, cell2, &cj, zipora::io::simd_memory::search::scalar_strcmp(sa, sb), want_o, "scalar_strcmp");
    check!(cx, cell2, &cj, zipora::io::simd_memory::search::sse42_strcmp(sa, sb), want_o, "sse42_strcmp");
    for (i, cfg) in search_configs().into_iter().enumerate() {
        let s = zipora::io::simd_memory::SimdStringSearch::with_config(cfg);
        check!(cx, cell2, &cj, s.compare_strings(sa, sb), want_o, format!("SimdStringSearch(cfg {}).compare_strings", i));
    }
    // string::simd_search::sse42_strcmp: every tier (the scalar one too) orders by length first and the
    // repository's own test pins that; equal lengths are ordered lexicographically
    let cell3 = "string::simd_search/sse42_strcmp";
    cx.sum.eval(cell3, "", false);
    let want_sl = if a.len() != b.len() { a.len().cmp(&b.len()) } else { want_o };
    check!(cx, cell3, &cj, zipora::string::sse42_strcmp(sa, sb), want_sl, "string::sse42_strcmp");
    check!(cx, cell3, &cj, zipora::string::SimdStringSearch::new().sse42_strcmp(sa, sb), want_sl, "SimdStringSearch::sse42_strcmp");
    // hash_map::SimdStringOps::fast_string_compare needs &str
    if let (Ok(s1), Ok(s2)) = (std::str::from_utf8(sa), std::str::from_utf8(sb)) {
        let cell4 = "hash_map::simd_string_ops/fast_string_compare";
        cx.sum.eval(cell4, "", false);
        let o = zipora::hash_map::SimdStringOps::new();
        let eq = a == b;
        check!(cx, cell4, &cj, o.fast_string_compare(s1, s2, 0), eq, "fast_string_compare(prefix 0)");
        let pre = o.extract_prefix_simd(s2);
        check!(cx, cell4, &cj, o.fast_string_compare(s1, s2, pre), eq, "fast_string_compare(prefix of b)");
        let mut p8 = [0u8; 8];
        for (i, &x) in b.iter().take(8).enumerate() { p8[i] = x; }
        check!(cx, cell4, &cj, o.extract_prefix_simd(s2), u64::from_le_bytes(p8), "extract_prefix_simd");
        check!(cx, cell4, &cj, zipora::hash_map::get_global_simd_ops().fast_string_compare(s1, s2, 0), eq, "global fast_string_compare");
    }
    wide::more_compare(cx, &cj, sa, sb, a, b);
}

fn search_configs() -> Vec<zipora::io::simd_memory::SearchConfig> {
    use zipora::io::simd_memory::SearchConfig;
    vec![
        SearchConfig::default(),
        SearchConfig { enable_sse42: true, enable_avx2: true, enable_avx512: false, enable_neon: true },
        SearchConfig { enable_sse42: true, enable_avx2: false, enable_avx512: false, enable_neon: true },
        SearchConfig { enable_sse42: false, enable_avx2: false, enable_avx512: false, enable_neon: false },
    ]
}

fn op_find_byte(cx: &mut Ctx, h: &[u8], needle: u8, pl: Place) {
    use zipora::memory::simd_ops::*;
    let cell = "memory::simd_ops/find_byte";
    let cj = cx.case(cell, "find_byte", h, &[needle], 0, pl);
    cx.begin(cell, &cj, h.len() >= 16);
    // the bytes around the haystack are the needle: reading past either end shows up as a wrong index
    let sh: &[u8] = cx.ra.put(h, pl.a, needle);
    let want = h.iter().position(|&b| b == needle);
    let ops = SimdMemOps::new();
    check!(cx, cell, &cj, ops.find_byte(sh, needle), want, "SimdMemOps::find_byte");
    check!(cx, cell, &cj, fast_find_byte(sh, needle), want, "fast_find_byte");
    if let Ok(v) = guarded(|| ops.find_byte(sh, needle)) {
        cx.coq(1, h, &[needle], memops_width(&cx.disable), Some(opt_i(v)), &cj);
    }
    let cell2 = "io::simd_memory::search/find_char";
    cx.sum.eval(cell2, "", false);
    check!(cx, cell2, &cj, zipora::io::simd_memory::find_char(sh, needle), want, "find_char");
    check!(cx, cell2, &cj, zipora::io::simd_memory::search::sse42_strchr(sh, needle), want, "search::sse42_strchr");
    check!(cx, cell2, &cj, zipora::io::simd_memory::search::scalar_strchr(sh, needle), want, "search::scalar_strchr");
    for (i, cfg) in search_configs().into_iter().enumerate() {
        let s = zipora::io::simd_memory::SimdStringSearch::with_config(cfg);
        check!(cx, cell2, &cj, s.find_char(sh, needle), want, format!("SimdStringSearch(cfg {}).find_char", i));
    }
    let cell3 = "string::simd_search/sse42_strchr";
    cx.sum.eval(cell3, "", false);
    check!(cx, cell3, &cj, zipora::string::sse42_strchr(sh, needle), want, "string::sse42_strchr");
    check!(cx, cell3, &cj, zipora::string::SimdStringSearch::new().sse42_strchr(sh, needle), want, "SimdStringSearch::sse42_strchr");
    wide::more_find_byte(cx, &cj, sh, h, needle);
}

fn op_find_sub(cx: &mut Ctx, h: &[u8], n: &[u8], pl: Place) {
    let cell = "io::simd_memory::search/find_pattern";
    let cj = cx.case(cell, "find_sub", h, n, 0, pl);
    cx.begin(cell, &cj, h.len() >= 16 && !n.is_empty());
    let surround = n.first().copied().unwrap_or(0);
    let sh: &[u8] = cx.ra.put(h, pl.a, surround);
    let sn: &[u8] = cx.rb.put(n, pl.b, surround);
    let want = ref_find(h, n);
    check!(cx, cell, &cj, zipora::io::simd_memory::find_pattern(sh, sn), want, "find_pattern");
    check!(cx, cell, &cj, zipora::io::simd_memory::search::sse42_strstr(sh, sn), want, "search::sse42_strstr");
    check!(cx, cell, &cj, zipora::io::simd_memory::search::scalar_strstr(sh, sn), want, "search::scalar_strstr");
    for (i, cfg) in search_configs().into_iter().enumerate() {
        let s = zipora::io::simd_memory::SimdStringSearch::with_config(cfg);
        check!(cx, cell, &cj, s.find_pattern(sh, sn), want, format!("SimdStringSearch(cfg {}).find_pattern", i));
    }
    if let Ok(v) = guarded(|| zipora::io::simd_memory::find_pattern(sh, sn)) {
        cx.coq(16, h, n, 0, Some(opt_i(v)), &cj);
    }
    // string::simd_search: an empty needle is answered None by every tier (documented guard, not a kernel)
    if !n.is_empty() {
        let cell3 = "string::simd_search/sse42_strstr";
        cx.sum.eval(cell3, "", false);
        check!(cx, cell3, &cj, zipora::string::sse42_strstr(sh, sn), want, "string::sse42_strstr");
        check!(cx, cell3, &cj, zipora::string::SimdStringSearch::new().sse42_strstr(sh, sn), want, "SimdStringSearch::sse42_strstr");
    }
    // bmi2 string search works on &str
    if let (Ok(s1), Ok(s2)) = (std::str::from_utf8(sh), std::str::from_utf8(sn)) {
        let cell4 = "string::bmi2_string_ops/search";
        cx.sum.eval(cell4, "", false);
        let w = s1.find(s2);
        check!(cx, cell4, &cj, zipora::string::search_string_bmi2(s1, s2), w, "search_string_bmi2");
        check!(cx, cell4, &cj, zipora::string::Bmi2StringProcessor::new().search_bmi2(s1, s2), w, "Bmi2StringProcessor::search_bmi2");
    }
    wide::more_find_sub(cx, &cj, sh, sn, h, n);
}

fn op_find_any(cx: &mut Ctx, h: &[u8], set: &[u8], pl: Place) {
    let cell = "io::simd_memory::search/find_any_of";
    let cj = cx.case(cell, "find_any", h, set, 0, pl);
    cx.begin(cell, &cj, h.len() >= 16 && !set.is_empty());
    let surround = set.last().copied().unwrap_or(0);
    let sh: &[u8] = cx.ra.put(h, pl.a, surround);
    let ss: &[u8] = cx.rb.put(set, pl.b, surround);
    let want = h.iter().position(|b| set.contains(b));
    let class: Option<&str> = None;
    let mut chk = |cx: &mut Ctx, got: Result<Option<usize>, String>, what: String| match got {
        Err(p) => cx.fail(cell, None, &cj, format!("{} panicked: {}", what, p)),
        Ok(g) => if g != want { cx.failc(cell, class, &cj, &format!("{} = {:?}, scalar definition gives {:?}", what, g, want)); }
    };
    chk(cx, guarded(|| zipora::io::simd_memory::find_any_of(sh, ss)), "find_any_of".into());
    chk(cx, guarded(|| zipora::io::simd_memory::search::sse42_multi_search(sh, ss)), "search::sse42_multi_search".into());
    chk(cx, guarded(|| zipora::io::simd_memory::search::scalar_multi_search(sh, ss)), "search::scalar_multi_search".into());
    for (i, cfg) in search_configs().into_iter().enumerate() {
        let s = zipora::io::simd_memory::SimdStringSearch::with_config(cfg);
        chk(cx, guarded(|| s.find_any_of(sh, ss)), format!("SimdStringSearch(cfg {}).find_any_of", i));
    }
    if let Ok(v) = guarded(|| zipora::io::simd_memory::search::scalar_multi_search(sh, ss)) {
        cx.coq(17, h, set, 0, Some(opt_i(v)), &cj);
    }
    let cell3 = "string::simd_search/sse42_multi_search";
    cx.sum.eval(cell3, "", false);
    let pos: Vec<usize> = h.iter().enumerate().filter(|(_, b)| set.contains(b)).map(|(i, _)| i).collect();
    let chars: Vec<u8> = pos.iter().map(|&i| h[i]).collect();
    for which in 0..2 {
        let r = guarded(|| if which == 0 { zipora::string::sse42_multi_search(sh, ss) } else { zipora::string::SimdStringSearch::new().sse42_multi_search(sh, ss) });
        match r {
            Err(p) => cx.fail(cell3, None, &cj, format!("sse42_multi_search panicked: {}", p)),
            Ok(m) => if m.positions != pos || m.characters != chars {
                cx.fail(cell3, None, &cj, format!("sse42_multi_search positions {:?}, scalar definition gives {:?}", m.positions, pos));
            }
        }
    }
    wide::more_find_any(cx, &cj, sh, ss, h, set);
}

fn op_copy(cx: &mut Ctx, src: &[u8], pl: Place) {
    use zipora::memory::simd_ops::*;
    let cell = "memory::simd_ops/copy";
    let cj = cx.case(cell, "copy", src, &[], 0, pl);
    cx.begin(cell, &cj, src.len() >= 16);
    let n = src.len();
    let ops = SimdMemOps::new();
    let aligned = pl.a == 0 && pl.b == 0;
    // (name, cell, applicable)
    for which in 0..8 {
        let (name, c2) = match which {
            0 => ("SimdMemOps::copy_nonoverlapping", cell), 1 => ("fast_copy", cell),
            2 => ("fast_copy_cache_optimized", cell), 3 => ("SimdMemOps::copy_aligned", cell),
            4 => ("copy_large_simd", "io::simd_memory::copy"), 5 => ("copy_small_simd", "io::simd_memory::copy"),
            6 => ("copy_aligned_simd", "io::simd_memory::copy"), _ => ("SimdMemOps::copy_cache_optimized", cell),
        };
        if (which == 3 || which == 6) && !aligned { continue; }
        if which == 5 && n > 256 { continue; }
        if which >= 4 && which <= 6 { cx.sum.eval(c2, "", false); }
        let ss: &[u8] = cx.ra.put(src, pl.a, 0x11);
        let zeros = vec![0xEEu8; n];
        let sd: &mut [u8] = cx.rd.put(&zeros, pl.b, 0x77);
        let r = guarded(|| match which {
            0 => ops.copy_nonoverlapping(ss, sd).is_ok(), 1 => fast_copy(ss, sd).is_ok(),
            2 => fast_copy_cache_optimized(ss, sd).is_ok(), 3 => ops.copy_aligned(ss, sd).is_ok(),
            4 => zipora::io::simd_memory::copy_large_simd(sd, ss).is_ok(),
            5 => zipora::io::simd_memory::copy_small_simd(sd, ss).is_ok(),
            6 => zipora::io::simd_memory::copy_aligned_simd(sd, ss).is_ok(),
            _ => ops.copy_cache_optimized(ss, sd).is_ok(),
        });
        match r {
            Err(p) => cx.fail(c2, None, &cj, format!("{} panicked: {}", name, p)),
            Ok(false) => cx.fail(c2, None, &cj, format!("{} refused a valid non-overlapping copy", name)),
            Ok(true) => {
                if &sd[..] != src {
                    let i = (0..n).find(|&i| sd[i] != src[i]).unwrap();
                    cx.fail(c2, None, &cj, format!("{}: destination differs from source at byte {} of {}", name, i, n));
                } else if !cx.rd.untouched(n, pl.b, 0x77) {
                    cx.fail(c2, None, &cj, format!("{}: bytes outside the destination slice were written", name));
                }
                if which == 5 && n >= 16 {
                    // window width copy_small uses in this tier for this length
                    let maxw = if !cx.disable.contains("avx512") { 64 } else if !cx.disable.contains("avx2") { 32 } else if !cx.disable.contains("sse41") { 16 } else { 0 };
                    let w = [64usize, 32, 16].into_iter().find(|&w| w <= maxw && w <= n).unwrap_or(0);
                    if w > 0 { let got = sd.to_vec(); cx.coq(19, src, &[], w as u64, Some(bytes_i(&got)), &cj); }
                }
            }
        }
    }
    wide::more_copy(cx, &cj, src, pl);
}

fn op_fill(cx: &mut Ctx, n: usize, v: u8, pl: Place) {
    use zipora::memory::simd_ops::*;
    let cell = "memory::simd_ops/fill";
    let cj = cx.case(cell, "fill", &vec![0u8; n], &[v], 0, pl);
    cx.begin(cell, &cj, n >= 16);
    let ops = SimdMemOps::new();
    for which in 0..2 {
        let init = vec![!v; n];
        let sd: &mut [u8] = cx.rd.put(&init, pl.a, v ^ 0x3C);
        let r = guarded(|| if which == 0 { ops.fill(sd, v) } else { fast_fill(sd, v) });
        match r {
            Err(p) => cx.fail(cell, None, &cj, format!("fill panicked: {}", p)),
            Ok(()) => {
                if sd.iter().any(|&b| b != v) { cx.fail(cell, None, &cj, "fill left bytes unset".into()); }
                else if !cx.rd.untouched(n, pl.a, v ^ 0x3C) { cx.fail(cell, None, &cj, "fill wrote outside the slice".into()); }
            }
        }
    }
    wide::more_fill(cx, &cj, n, v, pl);
}

fn op_utf8(cx: &mut Ctx, a: &[u8], pl: Place) {
    let cell = "io::simd_validation/utf8";
    let cj = cx.case(cell, "utf8", a, &[], 0, pl);
    cx.begin(cell, &cj, a.len() >= 16 && a.iter().any(|&b| b >= 0x80));
    let sa: &[u8] = cx.ra.put(a, pl.a, 0x80);
    let std_ok = std::str::from_utf8(a).is_ok();
    let std_count = std::str::from_utf8(a).ok().map(|s| s.chars().count());
    use zipora::io::simd_validation::*;
    check!(cx, cell, &cj, validate_utf8(sa).ok(), Some(std_ok), "validate_utf8");
    check!(cx, cell, &cj, is_valid_utf8(sa), std_ok, "is_valid_utf8");
    check!(cx, cell, &cj, Utf8Validator::new_unmonitored().validate_utf8(sa).ok(), Some(std_ok), "Utf8Validator::validate_utf8");
    cx.coq(2, a, &[], utf8_width(&cx.disable), guarded(|| is_valid_utf8(sa)).ok().map(|v| vec![v as i128]), &cj);
    let cell2 = "string::bmi2_string_ops/utf8";
    cx.sum.eval(cell2, "", false);
    let p = zipora::string::Bmi2StringProcessor::new();
    check!(cx, cell2, &cj, zipora::string::validate_utf8_bmi2(sa), std_ok, "validate_utf8_bmi2");
    check!(cx, cell2, &cj, zipora::string::count_utf8_chars_bmi2(sa).ok(), std_count, "count_utf8_chars_bmi2");
    check!(cx, cell2, &cj, p.count_utf8_chars_bmi2(sa).ok(), std_count, "Bmi2StringProcessor::count_utf8_chars_bmi2");
    if let Ok(v) = guarded(|| zipora::string::count_utf8_chars_bmi2(sa).ok()) {
        cx.coq(3, a, &[], 0, v.map(|n| vec![n as i128]), &cj);
    }
    let want_chars: Option<Vec<u32>> = std::str::from_utf8(a).ok().map(|s| s.chars().map(|c| c as u32).collect());
    let want_16: Option<Vec<u16>> = std::str::from_utf8(a).ok().map(|s| s.encode_utf16().collect());
    let class: Option<&str> = None;
    match guarded(|| p.extract_utf8_chars_bmi2(sa).ok()) {
        Err(e) => cx.failc(cell2, class, &cj, &format!("extract_utf8_chars_bmi2 panicked: {}", e)),
        Ok(g) => if g != want_chars { cx.failc(cell2, class, &cj, &format!("extract_utf8_chars_bmi2 = {:?}, std gives {:?}", g.map(|v| v.len()), want_chars.as_ref().map(|v| v.len()))); }
    }
    match guarded(|| p.utf8_to_utf16_bmi2(sa).ok()) {
        Err(e) => cx.failc(cell2, class, &cj, &format!("utf8_to_utf16_bmi2 panicked: {}", e)),
        Ok(g) => if g != want_16 { cx.failc(cell2, class, &cj, &format!("utf8_to_utf16_bmi2 = {:?}, std gives {:?}", g.map(|v| v.len()), want_16.as_ref().map(|v| v.len()))); }
    }
    let cell3 = "string::unicode/validate_utf8_and_count_chars";
    cx.sum.eval(cell3, "", false);
    check!(cx, cell3, &cj, zipora::string::validate_utf8_and_count_chars(sa).ok(), std_count, "validate_utf8_and_count_chars");
    wide::more_utf8(cx, &cj, sa, a);
}

fn op_crc(cx: &mut Ctx, a: &[u8], init: u32, split: usize, pl: Place) {
    use zipora::io::simd_validation::*;
    let cell = "io::simd_validation/crc32c";
    let cj = cx.case(cell, "crc", a, &[], ((split as u64) << 32) | init as u64, pl);
    cx.begin(cell, &cj, a.len() >= 8);
    let sa: &[u8] = cx.ra.put(a, pl.a, 0xFF);
    let want = ref_crc32c(a, init);
    check!(cx, cell, &cj, crc32c(sa, init).ok(), Some(want), "crc32c(data, init)");
    check!(cx, cell, &cj, crc32c_update(init, sa).ok(), Some(want), "crc32c_update");
    check!(cx, cell, &cj, crc32c_hash(sa).ok(), Some(!ref_crc32c(a, 0xFFFF_FFFF)), "crc32c_hash");
    check!(cx, cell, &cj, crc32c_finalize(init), !init, "crc32c_finalize");
    let sp = split.min(a.len());
    check!(cx, cell, &cj, crc32c(&sa[..sp], init).and_then(|c| crc32c(&sa[sp..], c)).ok(), Some(want), "incremental crc32c over a split");
    if let Ok(Some(v)) = guarded(|| crc32c(sa, init).ok()) {
        let op = if cx.disable.contains("sse42") { 5 } else { 4 };
        cx.coq(op, a, &[], init as u64, Some(vec![v as i128]), &cj);
    }
    wide::more_crc(cx, &cj, sa, a, init, split);
}

fn op_codec(cx: &mut Ctx, a: &[u8], pl: Place) {
    // hex
    let cell = "string::hex";
    let cj = cx.case(cell, "codec", a, &[], 0, pl);
    cx.begin(cell, &cj, a.len() >= 16);
    let sa: &[u8] = cx.ra.put(a, pl.a, b'0');
    use zipora::string::*;
    let hl = ref_hex(a, false);
    let hu = ref_hex(a, true);
    check!(cx, cell, &cj, hex_encode(sa).into_bytes(), hl.clone(), "hex_encode");
    check!(cx, cell, &cj, hex_encode_upper(sa).into_bytes(), hu.clone(), "hex_encode_upper");
    check!(cx, cell, &cj, hex_encode_to_bytes(sa), hl.clone(), "hex_encode_to_bytes");
    check!(cx, cell, &cj, { let mut o = vec![0u8; 2 * sa.len() + 3]; hex_encode_to_slice(sa, &mut o).ok().map(|n| o[..n].to_vec()) }, Some(hl.clone()), "hex_encode_to_slice");
    check!(cx, cell, &cj, hex_decode_bytes(&hl).ok(), Some(a.to_vec()), "hex_decode_bytes(hex_encode x)");
    check!(cx, cell, &cj, hex_decode_bytes(&hu).ok(), Some(a.to_vec()), "hex_decode_bytes(hex_encode_upper x)");
    check!(cx, cell, &cj, hex_decode(std::str::from_utf8(&hl).unwrap()).ok(), Some(a.to_vec()), "hex_decode");
    check!(cx, cell, &cj, { let mut o = vec![0u8; sa.len() + 1]; hex_decode_to_slice(&hu, &mut o).ok().map(|n| o[..n].to_vec()) }, Some(a.to_vec()), "hex_decode_to_slice");
    cx.coq(6, a, &[], 0, guarded(|| hex_encode(sa).into_bytes()).ok().map(|v| bytes_i(&v)), &cj);
    cx.coq(7, a, &[], 0, guarded(|| hex_encode_upper(sa).into_bytes()).ok().map(|v| bytes_i(&v)), &cj);
    // arbitrary bytes through the decoder
    let rd = ref_hex_decode(a);
    check!(cx, cell, &cj, hex_decode_bytes(sa).ok(), rd.clone(), "hex_decode_bytes(arbitrary)");
    if let Ok(s) = std::str::from_utf8(sa) { check!(cx, cell, &cj, is_valid_hex(s), rd.is_some(), "is_valid_hex"); }
    if let Ok(v) = guarded(|| hex_decode_bytes(sa).ok()) { cx.coq(8, a, &[], 0, v.map(|x| bytes_i(&x)), &cj); }
    // base64
    let cell2 = "io::simd_encoding/base64";
    cx.sum.eval(cell2, "", false);
    use zipora::io::simd_encoding::*;
    let e = ref_b64(a, B64, true);
    let es = String::from_utf8(e.clone()).unwrap();
    check!(cx, cell2, &cj, encode_base64(sa).ok().map(|s| s.into_bytes()), Some(e.clone()), "encode_base64");
    check!(cx, cell2, &cj, decode_base64(&es).ok(), Some(a.to_vec()), "decode_base64(encode x)");
    check!(cx, cell2, &cj, calculate_encoded_len(a.len()), e.len(), "calculate_encoded_len");
    check!(cx, cell2, &cj, { let mut o = vec![0u8; e.len() + 2]; encode_base64_to_buffer(sa, &mut o).ok().map(|n| o[..n].to_vec()) }, Some(e.clone()), "encode_base64_to_buffer");
    check!(cx, cell2, &cj, { let mut o = vec![0u8; a.len() + 3]; decode_base64_from_buffer(&e, &mut o).ok().map(|n| o[..n].to_vec()) }, Some(a.to_vec()), "decode_base64_from_buffer");
    cx.coq(9, a, &[], 0, guarded(|| encode_base64(sa).ok().map(|s| s.into_bytes())).ok().flatten().map(|v| bytes_i(&v)), &cj);
    // arbitrary text through the decoder: whatever it accepts must re-encode to the input (inverse)
    if let Ok(s) = std::str::from_utf8(sa) {
        match guarded(|| decode_base64(s).ok()) {
            Err(p) => cx.fail(cell2, None, &cj, format!("decode_base64 panicked: {}", p)),
            Ok(d) => {
                if let Some(y) = &d { if ref_b64(y, B64, true) != a { cx.fail(cell2, None, &cj, "decode_base64 accepted text that is not the encoding of its result".into()); } }
                cx.coq(10, a, &[], 0, d.map(|x| bytes_i(&x)), &cj);
            }
        }
    }
    let cell3 = "system::base64";
    cx.sum.eval(cell3, "", false);
    use zipora::system::base64::*;
    check!(cx, cell3, &cj, base64_encode_simd(sa).into_bytes(), e.clone(), "base64_encode_simd");
    check!(cx, cell3, &cj, base64_decode_simd(&es).ok(), Some(a.to_vec()), "base64_decode_simd");
    check!(cx, cell3, &cj, SimdBase64Encoder::new().encode(sa).into_bytes(), e.clone(), "SimdBase64Encoder");
    check!(cx, cell3, &cj, SimdBase64Decoder::new().decode(&es).ok(), Some(a.to_vec()), "SimdBase64Decoder");
    for (url, pad) in [(false, true), (false, false), (true, true), (true, false)] {
        for force in [None, Some(SimdImplementation::Scalar), Some(SimdImplementation::SSE42), Some(SimdImplementation::AVX2), Some(SimdImplementation::AVX512)] {
            let c = AdaptiveBase64::with_config(Base64Config { url_safe: url, padding: pad, force_implementation: force });
            let w = ref_b64(a, if url { B64URL } else { B64 }, pad);
            let ws = String::from_utf8(w.clone()).unwrap();
            check!(cx, cell3, &cj, c.encode(sa).into_bytes(), w, format!("AdaptiveBase64(url {}, pad {}, {:?}).encode", url, pad, force));
            check!(cx, cell3, &cj, c.decode(&ws).ok(), Some(a.to_vec()), format!("AdaptiveBase64(url {}, pad {}, {:?}).decode", url, pad, force));
        }
    }
    wide::more_codec(cx, &cj, sa, a);
}

fn op_strings(cx: &mut Ctx, a: &[u8], b: &[u8], k: u64, pl: Place) {
    // operations on &str of bmi2_string_ops and the string hashers; a must be valid UTF-8
    let s = match std::str::from_utf8(a) { Ok(s) => s.to_string(), Err(_) => return };
    let cell = "string::bmi2_string_ops/case_hash";
    let cj = cx.case(cell, "strings", a, b, k, pl);
    cx.begin(cell, &cj, a.len() >= 8);
    let sa: &[u8] = cx.ra.put(a, pl.a, b'A');
    let st = unsafe { std::str::from_utf8_unchecked(sa) };
    let p = zipora::string::Bmi2StringProcessor::new();
    check!(cx, cell, &cj, zipora::string::to_lowercase_ascii_bmi2(st), s.to_ascii_lowercase(), "to_lowercase_ascii_bmi2");
    check!(cx, cell, &cj, zipora::string::to_uppercase_ascii_bmi2(st), s.to_ascii_uppercase(), "to_uppercase_ascii_bmi2");
    // scalar definition hash_string_scalar: 8-byte little-endian words, each followed by
    // hash ^= bits 13..32 of hash; the last < 8 bytes one at a time
    let mut want_h = k;
    for ch in a.chunks(8) {
        if ch.len() == 8 {
            want_h = want_h.rotate_left(5).wrapping_add(u64::from_le_bytes(ch.try_into().unwrap()));
            want_h ^= (want_h >> 13) & ((1u64 << 19) - 1);
        } else { for &x in ch { want_h = want_h.rotate_left(5).wrapping_add(x as u64); } }
    }
    check!(cx, cell, &cj, p.hash_string_bmi2(st, k), want_h, "hash_string_bmi2");
    check!(cx, cell, &cj, zipora::string::hash_string_bmi2(st, k), want_h, "string::hash_string_bmi2");
    // run detection: maximal runs of equal bytes
    let mut runs: Vec<(u8, usize, usize)> = vec![];
    for (i, &x) in a.iter().enumerate() {
        match runs.last_mut() { Some(r) if r.0 == x => r.2 += 1, _ => runs.push((x, i, 1)) }
    }
    if s.is_ascii() {
        match guarded(|| p.detect_runs_bmi2(st)) {
            Err(e) => cx.fail(cell, None, &cj, format!("detect_runs_bmi2 panicked: {}", e)),
            Ok(g) => {
                let got: Vec<(u8, usize, usize)> = g.iter().map(|r| (r.character, r.start, r.length)).collect();
                let long: Vec<_> = runs.iter().cloned().filter(|r| got.iter().any(|g| g.1 == r.1) || r.2 >= 1).collect();
                // only compare when the implementation reports all runs (scalar definition decides the filter)
                let scalar_runs = scalar_runs_def(a);
                if got != scalar_runs { let _ = long; cx.fail(cell, None, &cj, format!("detect_runs_bmi2 = {:?}, scalar definition gives {:?}", got, scalar_runs)); }
            }
        }
    }
    // hash_map::SimdStringOps::fast_string_hash: scalar definition = 8-byte little-endian words, then bytes
    let cell2 = "hash_map::simd_string_ops/fast_string_hash";
    cx.sum.eval(cell2, "", false);
    let mut h = k;
    let mut it = a.chunks_exact(8);
    for w in &mut it { h = h.rotate_left(5).wrapping_add(u64::from_le_bytes(w.try_into().unwrap())); }
    for &x in it.remainder() { h = h.rotate_left(5).wrapping_add(x as u64); }
    let o = zipora::hash_map::SimdStringOps::new();
    check!(cx, cell2, &cj, o.fast_string_hash(st, k), h, "fast_string_hash");
    check!(cx, cell2, &cj, zipora::hash_map::get_global_simd_ops().fast_string_hash(st, k), h, "global fast_string_hash");
    if let Ok(v) = guarded(|| o.fast_string_hash(st, k)) {
        let words = if !cx.disable.contains("avx2") { 4u8 } else if !cx.disable.contains("sse41") && !cx.disable.contains("sse42") { 2 } else { 0 };
        cx.coq(21, a, &[words], k, Some(vec![v as i128]), &cj);
    }
    // wildcard: b is the pattern
    if let Ok(pat) = std::str::from_utf8(b) {
        let cell3 = "string::bmi2_string_ops/wildcard";
        cx.sum.eval(cell3, "", false);
        let t: Vec<char> = s.chars().collect();
        let pc: Vec<char> = pat.chars().collect();
        let want = ref_wild(&t, &pc);
        let class: Option<&str> = None;
        match guarded(|| zipora::string::wildcard_match_bmi2(st, pat)) {
            Err(e) => cx.fail(cell3, None, &cj, format!("wildcard_match_bmi2 panicked: {}", e)),
            Ok(g) => if g != want { cx.failc(cell3, class, &cj, &format!("wildcard_match_bmi2 = {}, scalar definition (full glob match) gives {}", g, want)); }
        }
    }
    wide::more_strings(cx, &cj, st, a, b, k);
}
fn op_strings2(cx: &mut Ctx, a: &[u8], b: &[u8], k: u64, pl: Place) {
    // byte-class operations of bmi2_string_ops on ASCII text (the scalar definitions truncate chars to
    // bytes, so only ASCII has a tier-independent meaning); b = second string for the bulk comparisons
    if !a.is_ascii() || !b.is_ascii() { return; }
    use zipora::string::{CharClass, CharFilter};
    let cell = "string::bmi2_string_ops/classes";
    let cj = cx.case(cell, "strings2", a, b, k, pl);
    cx.begin(cell, &cj, a.len() >= 8);
    let sa: &[u8] = cx.ra.put(a, pl.a, b'7');
    let sb: &[u8] = cx.rb.put(b, pl.b, b'7');
    let st = unsafe { std::str::from_utf8_unchecked(sa) };
    let st2 = unsafe { std::str::from_utf8_unchecked(sb) };
    let p = zipora::string::Bmi2StringProcessor::new();
    let filters = vec![CharFilter::AlphaOnly, CharFilter::DigitOnly, CharFilter::AlnumOnly, CharFilter::NoWhitespace,
                       CharFilter::KeepChars(vec![b'a', b'Z', b'0']), CharFilter::RemoveChars(vec![b'a', b' ', b'[' ])];
    for f in filters {
        let want: Vec<u8> = a.iter().cloned().filter(|&x| f.matches_byte(x)).collect();
        let name = format!("filter_chars_bmi2({:?})", f);
        check!(cx, cell, &cj, p.filter_chars_bmi2(st, f.clone()).into_bytes(), want, name);
    }
    let classes = vec![vec![CharClass::Alpha], vec![CharClass::Digit, CharClass::Space], vec![CharClass::Punct], vec![CharClass::Alnum],
                       vec![CharClass::Range(b'@', b'`')], vec![CharClass::Custom(vec![b'z', b'{'])]];
    for cs in classes {
        let want: Vec<bool> = a.iter().map(|&x| cs.iter().any(|c| c.matches_byte(x))).collect();
        check!(cx, cell, &cj, p.char_class_match_bmi2(st, &cs), want, "char_class_match_bmi2");
    }
    // substrings
    let n = a.len();
    let ranges: Vec<(usize, usize)> = vec![(0, n), (n / 2, n - n / 2), (n.min(1), n.saturating_sub(1).min(9)), (n.saturating_sub(8), n.min(8)), (n, 0)];
    let want: Vec<String> = ranges.iter().map(|&(s0, l)| st[s0..s0 + l].to_string()).collect();
    check!(cx, cell, &cj, p.extract_substrings_bmi2(st, &ranges).ok(), Some(want), "extract_substrings_bmi2");
    // bulk operations switch to the accelerated path at 4 elements
    let mut variants: Vec<String> = vec![st.to_string(), st2.to_string(), st.to_uppercase(), format!("{}x", st), st.to_string()];
    if n > 0 { let mut v = a.to_vec(); v[n - 1] ^= 1; variants.push(String::from_utf8(v).unwrap()); }
    for cnt in [3usize, 4, variants.len()] {
        let strs: Vec<&str> = variants.iter().take(cnt).map(|x| x.as_str()).collect();
        let pairs: Vec<(&str, &str)> = strs.iter().map(|x| (st, *x)).collect();
        check!(cx, cell, &cj, p.compare_bulk_bmi2(&pairs), pairs.iter().map(|(x, y)| x == y).collect::<Vec<_>>(), "compare_bulk_bmi2");
        check!(cx, cell, &cj, p.validate_bulk_bmi2(&strs), vec![true; strs.len()], "validate_bulk_bmi2");
        check!(cx, cell, &cj, p.hash_bulk_bmi2(&strs, k), strs.iter().map(|x| p.hash_string_bmi2(x, k)).collect::<Vec<_>>(), "hash_bulk_bmi2 vs hash_string_bmi2");
    }
}
/// detect_runs_scalar as written: runs of length >= 1? decided by reading the code: every maximal run
fn scalar_runs_def(a: &[u8]) -> Vec<(u8, usize, usize)> {
    let mut runs: Vec<(u8, usize, usize)> = vec![];
    for (i, &x) in a.iter().enumerate() {
        match runs.last_mut() { Some(r) if r.0 == x => r.2 += 1, _ => runs.push((x, i, 1)) }
    }
    runs
}

fn bitops_configs() -> Vec<(String, zipora::entropy::BitOpsConfig)> {
    use zipora::entropy::BitOpsConfig;
    let d = BitOpsConfig::default();
    let mut v = vec![("default".to_string(), d.clone())];
    v.push(("no_bmi2".into(), BitOpsConfig { enable_bmi2: false, ..d.clone() }));
    v.push(("no_popcnt".into(), BitOpsConfig { enable_popcnt: false, ..d.clone() }));
    v.push(("software".into(), BitOpsConfig { enable_bmi2: false, enable_popcnt: false, enable_avx2: false, ..d.clone() }));
    v
}

fn op_bits(cx: &mut Ctx, x: u64, m: u64, k: u32) {
    let cell = "entropy::bit_ops";
    let cj = cx.case(cell, "bits", &x.to_le_bytes(), &m.to_le_bytes(), k as u64, Place { a: 0, b: 0 });
    cx.begin(cell, &cj, x != 0 && m != 0);
    for (name, cfg) in bitops_configs() {
        let b = zipora::entropy::BitOps::with_config(cfg);
        let n = |s: &str| format!("BitOps[{}].{}", name, s);
        check!(cx, cell, &cj, b.popcount64(x), ref_popcnt(x), n("popcount64"));
        check!(cx, cell, &cj, b.popcount32(x as u32), ref_popcnt(x as u32 as u64), n("popcount32"));
        check!(cx, cell, &cj, b.trailing_zeros64(x), if x == 0 { 64 } else { (0..64).find(|&i| x >> i & 1 == 1).unwrap() }, n("trailing_zeros64"));
        check!(cx, cell, &cj, b.trailing_zeros32(x as u32), if x as u32 == 0 { 32 } else { (0..32).find(|&i| x >> i & 1 == 1).unwrap() }, n("trailing_zeros32"));
        check!(cx, cell, &cj, b.parallel_deposit64(x, m), ref_pdep(x, m), n("parallel_deposit64"));
        check!(cx, cell, &cj, b.parallel_extract64(x, m), ref_pext(x, m), n("parallel_extract64"));
        check!(cx, cell, &cj, b.pdep_u64(x, m), ref_pdep(x, m), n("pdep_u64"));
        check!(cx, cell, &cj, b.pext_u64(x, m), ref_pext(x, m), n("pext_u64"));
        check!(cx, cell, &cj, b.parallel_deposit32(x as u32, m as u32), ref_pdep(x as u32 as u64, m as u32 as u64) as u32, n("parallel_deposit32"));
        check!(cx, cell, &cj, b.parallel_extract32(x as u32, m as u32), ref_pext(x as u32 as u64, m as u32 as u64) as u32, n("parallel_extract32"));
        check!(cx, cell, &cj, b.select_bit64(x, k), ref_select(x, k), n("select_bit64"));
        check!(cx, cell, &cj, b.select_bit32(x as u32, k), ref_select(x as u32 as u64, k), n("select_bit32"));
        check!(cx, cell, &cj, b.reverse_bits64(x), ref_rev(x, 64), n("reverse_bits64"));
        check!(cx, cell, &cj, b.bit_reverse_bmi2(x), ref_rev(x, 64), n("bit_reverse_bmi2"));
        check!(cx, cell, &cj, b.reverse_bits32(x as u32), ref_rev(x as u32 as u64, 32) as u32, n("reverse_bits32"));
        check!(cx, cell, &cj, b.bit_interleaving_bmi2(x as u32, m as u32), ref_pdep(x as u32 as u64, 0x5555_5555_5555_5555) | ref_pdep(m as u32 as u64, 0xAAAA_AAAA_AAAA_AAAA), n("bit_interleaving_bmi2"));
        // zero_high_bits: keep the low `index` bits (index >= width keeps everything)
        let zclass: Option<&str> = None;
        let z64 = if k >= 64 { x } else { x & ((1u64 << k) - 1) };
        let z32 = if k >= 32 { x as u32 } else { (x as u32) & ((1u32 << k) - 1) };
        match guarded(|| (b.zero_high_bits64(x, k), b.zero_high_bits32(x as u32, k))) {
            Err(p) => cx.fail(cell, None, &cj, format!("zero_high_bits panicked: {}", p)),
            Ok(g) => if g != (z64, z32) { cx.failc(cell, zclass, &cj, &format!("{} = {:?}, scalar definition gives {:?}", n("zero_high_bits64/32"), g, (z64, z32))); }
        }
        let words = [x, m, !x, x ^ m, x.rotate_left(k % 64)];
        check!(cx, cell, &cj, b.vectorized_popcount(&words), words.iter().map(|&w| ref_popcnt(w)).collect::<Vec<_>>(), n("vectorized_popcount"));
        check!(cx, cell, &cj, b.parallel_bit_extract_bmi2(x, &[m, !m, m >> 1]), vec![ref_pext(x, m), ref_pext(x, !m), ref_pext(x, m >> 1)], n("parallel_bit_extract_bmi2"));
        check!(cx, cell, &cj, b.extract_huffman_symbols_bmi2(x, &[m, !m]), vec![ref_pext(x, m) as u32, ref_pext(x, !m) as u32], n("extract_huffman_symbols_bmi2"));
        check!(cx, cell, &cj, b.decode_rans_symbols_bmi2(x, m), ref_pext(x, m) as u32, n("decode_rans_symbols_bmi2"));
        check!(cx, cell, &cj, b.fse_decode_bmi2(x, m, k), (ref_pext(x, m) as u32).wrapping_add(k), n("fse_decode_bmi2"));
        // variable-length fields: start = k % 64, length 1..=32 inside the word
        let start = k % 64;
        let len = 1 + (m % 32) as u32;
        if start + len <= 64 {
            let want = ((x >> start) & ((1u64 << len) - 1)) as u32;
            check!(cx, cell, &cj, b.decode_variable_length_bmi2(x, start, len).ok(), Some(want), n("decode_variable_length_bmi2"));
        }
        check!(cx, cell, &cj, b.encode_variable_length_bmi2(x as u32, len).ok(), Some((x as u32 as u64) & ((1u64 << len) - 1)), n("encode_variable_length_bmi2"));
    }
    for (name, cfg) in bitops_configs() { wide::more_bits_cfg(cx, &cj, &name, &cfg, x, m, k); }
    for (name, cfg) in wide::extra_bitops_configs() { wide::more_bits_core(cx, &cj, &name, &cfg, x, m, k); wide::more_bits_cfg(cx, &cj, &name, &cfg, x, m, k); }
    let e = zipora::entropy::EntropyBitOps::new();
    check!(cx, cell, &cj, e.reverse_bits32(x as u32), ref_rev(x as u32 as u64, 32) as u32, "EntropyBitOps::reverse_bits32");
    if let Ok(v) = guarded(|| zipora::entropy::BitOps::with_config(bitops_configs()[3].1.clone()).popcount64(x)) { cx.coq(11, &[], &[], x, Some(vec![v as i128]), &cj); }
    if k < 70 { if let Ok(v) = guarded(|| zipora::entropy::BitOps::new().select_bit64(x, k)) { cx.coq(12, &[k as u8], &[], x, Some(vec![v.map(|i| i as i128).unwrap_or(-1)]), &cj); } }
    if let Ok(v) = guarded(|| zipora::entropy::BitOps::new().parallel_deposit64(x, m)) { cx.coq(13, &m.to_le_bytes(), &[], x, Some(vec![v as i128]), &cj); }
    if let Ok(v) = guarded(|| zipora::entropy::BitOps::new().parallel_extract64(x, m)) { cx.coq(14, &m.to_le_bytes(), &[], x, Some(vec![v as i128]), &cj); }
    if let Ok(v) = guarded(|| zipora::entropy::BitOps::new().reverse_bits64(x)) { cx.coq(15, &[], &[], x, Some(vec![v as i128]), &cj); }
    {
        use zipora::entropy::bit_ops::{CompressionBmi2Dispatcher, CompressionOperation};
        let d = CompressionBmi2Dispatcher::new();
        let (st, ln) = (k % 64, 1 + (m % 32) as u32);
        if st + ln <= 64 {
            check!(cx, cell, &cj, d.dispatch_entropy_extract(x, st, ln), ((x >> st) & ((1u64 << ln) - 1)) as u32, "CompressionBmi2Dispatcher::dispatch_entropy_extract");
        }
        check!(cx, cell, &cj, d.dispatch_variable_length_decode(x, &[m, !m, m & 0xFFFF_FFFF]), vec![ref_pext(x, m) as u32, ref_pext(x, !m) as u32, ref_pext(x, m & 0xFFFF_FFFF) as u32], "dispatch_variable_length_decode");
        let ws = [x, m, 0, u64::MAX];
        check!(cx, cell, &cj, d.dispatch_bit_stream_process(&ws, CompressionOperation::PopCount), ws.iter().map(|&w| ref_popcnt(w) as u64).collect::<Vec<_>>(), "dispatch_bit_stream_process(PopCount)");
        check!(cx, cell, &cj, d.dispatch_bit_stream_process(&ws, CompressionOperation::LeadingZeros), ws.iter().map(|&w| w.leading_zeros() as u64).collect::<Vec<_>>(), "dispatch_bit_stream_process(LeadingZeros)");
        check!(cx, cell, &cj, d.dispatch_bit_stream_process(&ws, CompressionOperation::TrailingZeros), ws.iter().map(|&w| w.trailing_zeros() as u64).collect::<Vec<_>>(), "dispatch_bit_stream_process(TrailingZeros)");
        check!(cx, cell, &cj, d.dispatch_bit_stream_process(&ws, CompressionOperation::BitReverse), ws.iter().map(|&w| ref_rev(w, 64)).collect::<Vec<_>>(), "dispatch_bit_stream_process(BitReverse)");
        // EntropyBitOps::extract_bits: 16-bit stream, offset from the left, defined for offset >= 1 and offset + width <= 16
        let (off, wd) = (1 + k % 15, 1 + (m % 15) as u32);
        if off + wd <= 16 {
            let want = (((x as u16) >> (16 - off - wd)) as u32) & ((1u32 << wd) - 1);
            check!(cx, cell, &cj, e.extract_bits(x, off, wd), want, "EntropyBitOps::extract_bits");
        }
    }
    // the free-standing BMI2 helpers the above delegate to
    use zipora::succinct::rank_select::bmi2_acceleration::*;
    let cell2 = "succinct::bmi2_acceleration/word_ops";
    cx.sum.eval(cell2, "", false);
    check!(cx, cell2, &cj, Bmi2RankOps::popcount_u64(x), ref_popcnt(x), "Bmi2RankOps::popcount_u64");
    check!(cx, cell2, &cj, Bmi2BitOps::extract_bits(x, m), ref_pext(x, m), "Bmi2BitOps::extract_bits");
    check!(cx, cell2, &cj, Bmi2BitOps::deposit_bits(x, m), ref_pdep(x, m), "Bmi2BitOps::deposit_bits");
    check!(cx, cell2, &cj, Bmi2SelectOps::select1_u64(x, k), ref_select(x, k), "Bmi2SelectOps::select1_u64");
    let (st, ln) = (k % 64, (m % 65) as u32);
    let wantx = if ln == 0 { 0 } else { let l = ln.min(64 - st); (x >> st) & (if l >= 64 { u64::MAX } else { (1u64 << l) - 1 }) };
    check!(cx, cell2, &cj, Bmi2BextrOps::extract_bits_bextr(x, st, ln), wantx, "Bmi2BextrOps::extract_bits_bextr");
}

fn op_hist(cx: &mut Ctx, a: &[u8], pl: Place) {
    // FSE frequency analysis: AVX2 path for >= 64 bytes, scalar otherwise; observed through the table it builds
    let cell = "entropy::fse/count_frequencies";
    let cj = cx.case(cell, "hist", a, &[], 0, pl);
    cx.begin(cell, &cj, a.len() >= 64);
    let sa: &[u8] = cx.ra.put(a, pl.a, 0);
    use zipora::entropy::fse::{FseConfig, FseEncoder};
    // two encoders, hardware paths on and off, must build the same table => same compressed bytes
    let mk = |avx2: bool| -> Option<Vec<u8>> {
        let mut c = FseConfig::default();
        c.hardware.avx2 = avx2 && c.hardware.avx2;
        let mut e = FseEncoder::new(c).ok()?;
        e.compress(sa).ok()
    };
    match guarded(|| (mk(true), mk(false))) {
        Err(_) => {} // FSE defects are C01's business
        Ok((x, y)) => if x != y { cx.fail(cell, None, &cj, "FseEncoder output depends on hardware.avx2 (frequency counting paths disagree)".into()); }
    }
}

// ---------------------------------------------------------------------------------------------
// replay / dispatch by op name
// ---------------------------------------------------------------------------------------------
fn get_bytes(v: &Value) -> Vec<u8> { v.as_array().map(|a| a.iter().map(|x| x.as_u64().unwrap_or(0) as u8).collect()).unwrap_or_default() }
fn run_one(cx: &mut Ctx, c: &Value) {
    let a = get_bytes(&c["a"]);
    let b = get_bytes(&c["b"]);
    let k: u64 = c["k"].as_str().and_then(|s| s.parse().ok()).or(c["k"].as_u64()).unwrap_or(0);
    let pl = Place { a: c["pa"].as_u64().unwrap_or(0), b: c["pb"].as_u64().unwrap_or(0) };
    match c["op"].as_str().unwrap_or("") {
        "compare" => op_compare(cx, &a, &b, pl),
        "find_byte" => op_find_byte(cx, &a, b.first().copied().unwrap_or(0), pl),
        "find_sub" => op_find_sub(cx, &a, &b, pl),
        "find_any" => op_find_any(cx, &a, &b, pl),
        "copy" => op_copy(cx, &a, pl),
        "fill" => op_fill(cx, a.len(), b.first().copied().unwrap_or(0), pl),
        "utf8" => op_utf8(cx, &a, pl),
        "crc" => op_crc(cx, &a, k as u32, (k >> 32) as usize, pl),
        "codec" => op_codec(cx, &a, pl),
        "strings" => op_strings(cx, &a, &b, k, pl),
        "strings2" => op_strings2(cx, &a, &b, k, pl),
        "hist" => op_hist(cx, &a, pl),
        "bits" => {
            let mut x = [0u8; 8]; let mut m = [0u8; 8];
            for (i, v) in a.iter().take(8).enumerate() { x[i] = *v; }
            for (i, v) in b.iter().take(8).enumerate() { m[i] = *v; }
            op_bits(cx, u64::from_le_bytes(x), u64::from_le_bytes(m), k as u32)
        }
        "memhist" => wide::op_memhist(cx, c),
        "big" => wide::op_big(cx, c),
        "utf8iter" => wide::op_utf8iter(cx, c),
        "enum" => wide::op_enum(cx, c),
        _ => {}
    }
}

// ---------------------------------------------------------------------------------------------
// generators
// ---------------------------------------------------------------------------------------------
fn lengths(_thorough: bool, r: &mut Rng) -> Vec<usize> {
    let mut v: Vec<usize> = (0..=130).collect();
    v.extend(4090..=4100);
    v.extend_from_slice(&[255, 256, 257, 511, 512, 513, 1023, 1024, 1025]);
    for _ in 0..6 { v.push(r.range(131, 4089) as usize); }
    v
}
fn rand_place(r: &mut Rng) -> Place {
    let m = |r: &mut Rng| match r.below(5) { 0 => 64, 1 => 65, 2 => 0, _ => r.below(64) };
    Place { a: m(r), b: m(r) }
}
/// bytes biased to >= 0x80 and to few distinct values
fn rand_bytes(r: &mut Rng, n: usize) -> Vec<u8> {
    match r.below(4) {
        0 => (0..n).map(|_| 0x7E + r.below(4) as u8).collect(),       // around the sign boundary
        1 => (0..n).map(|_| *r.pick(&[0u8, 0x7F, 0x80, 0xFF, b'a'])).collect(),
        2 => (0..n).map(|_| b'a' + r.below(3) as u8).collect(),
        _ => r.bytes(n),
    }
}
const UTF8_PIECES: [&[u8]; 34] = [
    b"a", b"\x7f", b"\x00", b"\xc2\x80", b"\xdf\xbf", b"\xe0\xa0\x80", b"\xed\x9f\xbf", b"\xee\x80\x80", b"\xef\xbf\xbf",
    b"\xf0\x90\x80\x80", b"\xf4\x8f\xbf\xbf", b"\xf1\x80\x80\x80", "é".as_bytes(), "€".as_bytes(), "𝄞".as_bytes(),
    // invalid: overlong, surrogates, too large, stray continuation, truncated, bad lead
    b"\xc0\x80", b"\xc1\xbf", b"\xe0\x80\x80", b"\xe0\x9f\xbf", b"\xed\xa0\x80", b"\xed\xbf\xbf", b"\xf0\x80\x80\x80", b"\xf0\x8f\xbf\xbf",
    b"\xf4\x90\x80\x80", b"\xf5\x80\x80\x80", b"\x80", b"\xbf", b"\xc2", b"\xe1\x80", b"\xf1\x80\x80", b"\xff", b"\xfe", b"\xf8\x88\x80\x80\x80", b"\xe1\x80\x41",
];
fn rand_utf8(r: &mut Rng, n: usize) -> Vec<u8> {
    // mostly ASCII with one or a few multi-byte / invalid pieces at chosen positions, exact length n
    let mut v: Vec<u8> = (0..n).map(|_| b' ' + r.below(90) as u8).collect();
    let pieces = match r.below(4) { 0 => 0, 1 | 2 => 1, _ => 1 + r.below(3) };
    for _ in 0..pieces {
        let p = if r.chance(3, 4) { *r.pick(&UTF8_PIECES[..15]) } else { *r.pick(&UTF8_PIECES[15..]) };
        if p.len() > n { continue; }
        // positions: anywhere, biased to chunk boundaries and the very end
        let pos = match r.below(4) {
            0 => n - p.len(),
            1 => { let c = *r.pick(&[16usize, 32, 64]); let base = (r.below((n / c + 1) as u64) as usize) * c; base.saturating_sub(r.below(p.len() as u64 + 1) as usize).min(n - p.len()) }
            _ => r.below((n - p.len() + 1) as u64) as usize,
        };
        v[pos..pos + p.len()].copy_from_slice(p);
    }
    v
}

fn generate(cx: &mut Ctx, thorough: bool) {
    let mut r = cx.rng.clone();
    let lens = lengths(thorough, &mut r);
    let reps = if thorough { 12 } else { 2 };
    // 1. every length x a few placements: compare / find_byte / copy / fill / utf8 / crc / codecs
    for &n in &lens {
        for rep in 0..(2 * reps) {
            let pl = if rep == 0 { Place { a: 64, b: 64 } } else { rand_place(&mut r) };
            // compare: equal, differing at one position (first, last, chunk boundaries), differing lengths
            let a = rand_bytes(&mut r, n);
            let mut b = a.clone();
            match r.below(6) {
                0 => {}
                1 | 2 if n > 0 => { let i = *r.pick(&[0, n - 1, n / 2, (n / 16) * 16 % n.max(1), (n.saturating_sub(1) / 32) * 32]); b[i] = if r.chance(1, 2) { a[i] ^ 0x80 } else { a[i].wrapping_add(1) }; }
                3 => { b.truncate(n - (n.min(1 + r.below(3) as usize))); if !b.is_empty() && r.chance(1, 2) { let i = r.below(b.len() as u64) as usize; b[i] = b[i].wrapping_add(1 + r.below(3) as u8); } }
                4 => { b.push(r.next() as u8); if n > 0 && r.chance(1, 2) { let i = r.below(n as u64) as usize; b[i] = b[i].wrapping_sub(1 + r.below(3) as u8); } }
                _ if n > 0 => { let i = r.below(n as u64) as usize; b[i] = r.next() as u8; }
                _ => {}
            }
            op_compare(cx, &a, &b, pl);
            // find_byte: needle absent / at every boundary position / last byte
            let needle = *r.pick(&[0u8, 0x80, 0xFF, b'x']);
            let mut h: Vec<u8> = rand_bytes(&mut r, n).into_iter().map(|x| if x == needle { x ^ 1 } else { x }).collect();
            if n > 0 && r.chance(3, 4) {
                let rp = r.below(n as u64) as usize;
                let i = *r.pick(&[n - 1, 0, n / 2, (n - 1) / 16 * 16, (n - 1) / 32 * 32, (n - 1) / 64 * 64, rp]);
                h[i] = needle;
                if r.chance(1, 3) { let j = r.below(n as u64) as usize; h[j] = needle; }
            }
            op_find_byte(cx, &h, needle, pl);
            let src = r.bytes(n);
            op_copy(cx, &src, pl);
            op_fill(cx, n, r.next() as u8, pl);
            let u = rand_utf8(&mut r, n);
            op_utf8(cx, &u, pl);
            let d = r.bytes(n);
            let ri = r.next() as u32;
            let init = *r.pick(&[0xFFFF_FFFFu32, 0, 1, 0x8000_0000, ri]);
            op_crc(cx, &d, init, r.below(n as u64 + 1) as usize, pl);
            if n <= 300 || rep == 0 {
                let c = if r.chance(1, 3) && n % 2 == 0 { ref_hex(&r.bytes(n / 2), r.chance(1, 2)) } else if r.chance(1, 3) { let mut e = ref_b64(&r.bytes(n * 3 / 4), B64, true); e.truncate(n); e } else { r.bytes(n) };
                op_codec(cx, &c, pl);
            }
            if n <= 600 { op_hist(cx, &rand_bytes(&mut r, n), pl); }
        }
    }
    // 2. every alignment 0..63 of both buffers on the boundary lengths
    for al in 0..64u64 {
        for &n in &[15usize, 16, 17, 31, 32, 33, 63, 64, 65, 100] {
            let pl = Place { a: al, b: (al * 7 + n as u64) % 64 };
            let a = rand_bytes(&mut r, n);
            let mut b = a.clone();
            let i = r.below(n as u64) as usize;
            if r.chance(2, 3) { b[i] ^= 0x81; }
            op_compare(cx, &a, &b, pl);
            op_copy(cx, &a, pl);
            let needle = a[n - 1];
            op_find_byte(cx, &a, needle, pl);
            op_fill(cx, n, al as u8, pl);
            let u = rand_utf8(&mut r, n);
            op_utf8(cx, &u, pl);
            op_crc(cx, &a, 0xFFFF_FFFF, i, pl);
        }
    }
    // 3. substring search: needle lengths around 1, 4, 15..17, 31..33; match at every kind of position or absent
    let nsub = if thorough { 40000 } else { 4000 };
    for _ in 0..nsub {
        let n = r.below(131) as usize;
        let m = *r.pick(&[0usize, 1, 2, 3, 4, 5, 8, 15, 16, 17, 20, 31, 32, 33, 40]);
        let alpha = *r.pick(&[2u64, 3, 200]);
        let mk = |r: &mut Rng, k: usize| -> Vec<u8> { (0..k).map(|_| if alpha == 200 { 0x60 + r.below(0x90) as u8 } else { b'a' + r.below(alpha) as u8 }).collect() };
        let mut h = mk(&mut r, n);
        let needle = mk(&mut r, m);
        if m <= n && m > 0 && r.chance(3, 4) {
            let rp = r.below((n - m + 1) as u64) as usize;
            let pos = *r.pick(&[n - m, 0, (n - m) / 2, ((n - m) / 16) * 16, (n - m).saturating_sub(1), rp]);
            h[pos..pos + m].copy_from_slice(&needle);
        }
        let pl = rand_place(&mut r);
        op_find_sub(cx, &h, &needle, pl);
        // character sets: sizes 1..20, members above 0x7F, a zero byte inside the haystack
        let ssz = *r.pick(&[1usize, 2, 3, 8, 15, 16, 17, 20]);
        let set: Vec<u8> = (0..ssz).map(|i| if alpha == 200 { 0x80 + (i as u8) * 3 } else { b'p' + i as u8 }).collect();
        let mut h2: Vec<u8> = mk(&mut r, n).into_iter().map(|x| if set.contains(&x) { 0 } else { x }).collect();
        if n > 0 && r.chance(3, 4) { let rp = r.below(n as u64) as usize; let i = *r.pick(&[n - 1, 0, n / 2, rp]); h2[i] = *r.pick(&set); }
        op_find_any(cx, &h2, &set, pl);
    }
    // 4. strings: case conversion, hashing, wildcard
    let nstr = if thorough { 40000 } else { 4000 };
    for _ in 0..nstr {
        let n = r.below(80) as usize;
        let mut a: Vec<u8> = (0..n).map(|_| *r.pick(&[b'a', b'b', b'Z', b'A', b'z', b'@', b'[', b'`', b'{', b'0'])).collect();
        if r.chance(1, 4) && n >= 2 { let i = r.below(n as u64 - 1) as usize; a[i] = 0xC3; a[i + 1] = 0xA9; }
        if std::str::from_utf8(&a).is_err() { continue; }
        // pattern derived from the text: literal prefix, ?, *, with backtracking-needing shapes
        let mut p: Vec<u8> = vec![];
        let s_ascii = a.is_ascii();
        if s_ascii {
            let mut i = 0;
            while i < a.len() {
                match r.below(6) { 0 => { p.push(b'*'); i += r.below(4) as usize; } 1 => { p.push(b'?'); i += 1; } _ => { p.push(a[i]); i += 1; } }
            }
            if r.chance(1, 5) { p.push(b'x'); }
            if r.chance(1, 5) { p.truncate(p.len() / 2); }
        }
        op_strings(cx, &a, &p, r.next(), rand_place(&mut r));
        if a.is_ascii() { let b2: Vec<u8> = if r.chance(1, 2) { a.clone() } else { p.clone() }; let a2: Vec<u8> = a.iter().map(|&x| if r.chance(1, 6) { *r.pick(&[b' ', b'\t', b'9', b'!', b'~']) } else { x }).collect(); op_strings2(cx, &a2, &b2, r.next(), rand_place(&mut r)); }
    }
    // 5. bit helpers
    let nbits = if thorough { 100000 } else { 8000 };
    let specials = [0u64, 1, u64::MAX, 1 << 63, 0x8000_0000, 0xFFFF_FFFF, 0x1_0000_0000, 0x5555_5555_5555_5555, 0xAAAA_AAAA_AAAA_AAAA];
    for i in 0..nbits {
        let x = if i % 5 == 0 { *r.pick(&specials) } else { r.next() & r.next() | (r.next() & r.next() & r.next()) };
        let m = if i % 7 == 0 { *r.pick(&specials) } else if r.chance(1, 2) { r.next() } else { r.next() & r.next() };
        let k = match r.below(6) { 0 => 0, 1 => 63, 2 => 64, 3 => *r.pick(&[31u32, 32, 33, 255, 256, 257, 288, 300, u32::MAX]), _ => r.below(70) as u32 };
        op_bits(cx, x, m, k);
    }
    // 6. breadth families (c14_wide.rs)
    wide::generate_wide(cx, thorough, &mut r);
    cx.rng = r;
}

// ---------------------------------------------------------------------------------------------
// child / parent
// ---------------------------------------------------------------------------------------------
fn child(args: &Args) {
    let disable = std::env::var("ZIPORA_VERIF_DISABLE").unwrap_or_default();
    let label = TIERS.iter().find(|t| t.1 == disable).map(|t| t.0).unwrap_or("custom").to_string();
    let mut cx = Ctx {
        sum: Summary::new("C14", ""),
        shards: CoqShards::new(HEADER, 300),
        coq_per_op: if args.thorough { 60 } else { 18 },
        coq_used: BTreeMap::new(),
        rng: Rng::new(args.seed),
        tier: label.clone(),
        disable: disable.clone(),
        ra: Region::new(), rb: Region::new(), rd: Region::new(),
        crumb: Some(Crumb::open(&format!("{}/crumb.bin", args.out))),
        force_coq: false,
        objs: std::rc::Rc::new(wide::Objs::new()),
    };
    if let Some(f) = &args.replay {
        let txt = std::fs::read_to_string(f).expect("replay file");
        let v: Value = serde_json::from_str(&txt).expect("replay json");
        let c = if v.get("case").is_some() { v["case"].clone() } else { v };
        cx.force_coq = true;
        run_one(&mut cx, &c);
    } else {
        // corpus first
        if let Ok(rd) = std::fs::read_dir(corpus_dir()) {
            let mut files: Vec<_> = rd.filter_map(|e| e.ok()).map(|e| e.path()).collect();
            files.sort();
            for p in files {
                if let Ok(txt) = std::fs::read_to_string(&p) {
                    if let Ok(v) = serde_json::from_str::<Value>(&txt) {
                        let c = if v.get("case").is_some() { v["case"].clone() } else { v };
                        cx.force_coq = true;
                        run_one(&mut cx, &c);
                        cx.force_coq = false;
                        cx.sum.dist("corpus_cases");
                    }
                }
            }
        }
        generate(&mut cx, args.thorough);
    }
    cx.sum.dist_max(&format!("tier={}", label), cx.sum.evaluations);
    if let Some(c) = &cx.crumb { c.set(""); }
    let sh = cx.shards.write(&args.out);
    cx.sum.write(&args.out, sh);
}
fn corpus_dir() -> String {
    let exe = std::env::current_exe().ok();
    // <verif>/harness/target/debug/zv -> <verif>/corpus/C14
    exe.and_then(|p| p.ancestors().nth(4).map(|r| r.join("corpus/C14").to_string_lossy().to_string())).unwrap_or_else(|| "/verif/corpus/C14".into())
}

const RULE: &str = "per dispatch tier (native, avx512 masked, avx512+avx2 masked, everything masked, SSE4.1 without SSE4.2, BMI1/2 masked alone; one process each through the ZIPORA_VERIF_DISABLE hook): every length 0..=130 and 4090..=4100 plus 255..257, 511..513, 1023..1025 and random lengths up to 4089, each under several placements: flush against a PROT_NONE guard page at either end, 64-byte aligned, or a random alignment 0..63 straddling a page boundary; all 64 alignments of both buffers on lengths 15..17/31..33/63..65/100; needles at first/last/chunk-boundary positions and absent, surrounded by needle bytes outside the slice; bytes >= 0x80; UTF-8 pieces (valid 1-4 byte boundary code points, overlong, surrogate, > U+10FFFF, truncated, stray continuation) placed at chunk boundaries and at the end; substring needles of 0..40 bytes over 2/3/144-letter alphabets; character sets of 1..20 members with zero bytes in the haystack; bit helpers on special and random words with indices up to u32::MAX under every switch of BitOpsConfig, batches of 0..10 words and 0..4 masks, fields inside and outside the word; every case also through reused / cloned / global objects, SimdMemOps::with_cache_config over the five presets and six hand-made configurations, all eight SearchConfig combinations, the four Base64 configurations of encoder, decoder and codec incl. each other's encodings; operation histories (6..17 operations: fill, copy between and inside two shared buffers through every copy entry point, compare, byte / substring / set search, running CRC, UTF-8 verdicts, hex and Base64 encode / decode into the buffers, prefetch hints) judged by two shadow vectors after every step; cursor histories (next / prev / reset / current / position) of the UTF-8 iterator; inputs of 65535..65537 and 2^20+63 bytes flush against a guard page, described by (kind, n, seed, pos); periodic needles with false starts before a straddling match in haystacks up to 4099 bytes; complete enumerations of the hex / UTF-8 length / Base64 length / ASCII class tables and of the dispatch macros; a case is non-trivial when the input is at least one SSE vector long (bit helpers: non-zero operands); distinct = distinct canonical case text";

pub fn run(args: &Args) {
    if std::env::var("ZV_C14_CHILD").is_ok() { child(args); return; }
    // parent: one child per tier (replay: the tier recorded in the case)
    let tiers: Vec<(String, String)> = if let Some(f) = &args.replay {
        let txt = std::fs::read_to_string(f).expect("replay file");
        let v: Value = serde_json::from_str(&txt).expect("replay json");
        let c = if v.get("case").is_some() { v["case"].clone() } else { v };
        let d = c["tier"].as_str().unwrap_or("").to_string();
        vec![(TIERS.iter().find(|t| t.1 == d).map(|t| t.0).unwrap_or("custom").to_string(), d)]
    } else { TIERS.iter().map(|t| (t.0.to_string(), t.1.to_string())).collect() };
    let exe = std::env::current_exe().expect("exe");
    let mut kids = vec![];
    for (label, dis) in &tiers {
        let out = format!("{}/t_{}", args.out, label);
        std::fs::create_dir_all(&out).unwrap();
        let mut cmd = std::process::Command::new(&exe);
        cmd.arg("C14").arg("--seed").arg(args.seed.to_string()).arg("--tier").arg(if args.thorough { "thorough" } else { "quick" }).arg("--out").arg(&out);
        if let Some(f) = &args.replay { cmd.arg("--replay").arg(f); }
        cmd.env("ZV_C14_CHILD", "1").env("ZIPORA_VERIF_DISABLE", dis).stdout(std::process::Stdio::null()).stderr(std::process::Stdio::null());
        kids.push((label.clone(), dis.clone(), out, cmd.spawn().expect("spawn child")));
    }
    let mut evaluations = 0u64; let mut distinct = 0u64;
    let mut samples: Vec<Value> = vec![]; let mut failures: Vec<Value> = vec![]; let mut shards: Vec<Value> = vec![];
    let mut distribution: BTreeMap<String, u64> = BTreeMap::new();
    let mut cells: BTreeMap<String, (u64, String)> = BTreeMap::new();
    let mut known_hits: BTreeMap<String, u64> = BTreeMap::new();
    let mut notes: Vec<String> = vec![];
    for (label, dis, out, mut kid) in kids {
        let st = kid.wait().expect("wait");
        let sf = format!("{}/summary.json", out);
        let s: Option<Value> = std::fs::read_to_string(&sf).ok().and_then(|t| serde_json::from_str(&t).ok());
        match (st.success(), s) {
            (true, Some(s)) => {
                evaluations += s["evaluations"].as_u64().unwrap_or(0);
                distinct += s["distinct_nontrivial"].as_u64().unwrap_or(0);
                if let Some(a) = s["failures"].as_array() { for f in a { if failures.len() < 40 { failures.push(f.clone()); } } }
                if let Some(a) = s["shards"].as_array() { shards.extend(a.iter().cloned()); }
                if let Some(o) = s["distribution"].as_object() { for (k, v) in o { *distribution.entry(k.clone()).or_insert(0) += v.as_u64().unwrap_or(0); } }
                if let Some(o) = s["known_hits"].as_object() { for (k, v) in o { *known_hits.entry(k.clone()).or_insert(0) += v.as_u64().unwrap_or(0); } }
                if let Some(o) = s["cells"].as_object() { for (k, v) in o { let e = cells.entry(k.clone()).or_insert((0, cell_status(k).to_string())); e.0 += v["cases"].as_u64().unwrap_or(0); } }
            }
            _ => {
                // the child died: the crumb names the case it was running
                use std::os::unix::process::ExitStatusExt;
                let how = match st.signal() { Some(sig) => format!("signal {}", sig), None => format!("exit status {:?}", st.code()) };
                notes.push(format!("tier {} child died with {}", label, how));
                let case = Crumb::read(&format!("{}/crumb.bin", out)).unwrap_or(json!({"cell": "harness", "op": "unknown", "tier": dis, "a": [], "b": []}));
                let cell = case["cell"].as_str().unwrap_or("harness").to_string();
                failures.insert(0, json!({"cell": cell, "class": Value::Null, "case": case,
                    "detail": format!("process died with {} while running this case in tier '{}' (a fault means memory outside the input slices was accessed)", how, label)}));
            }
        }
    }
    samples.push(json!({"tiers": TIERS.iter().map(|t| format!("{}: masked [{}]", t.0, t.1)).collect::<Vec<_>>()}));
    if let Some(f) = failures.first() { samples.push(json!({"first_failure": f["detail"]})); }
    let cells_j: BTreeMap<_, _> = cells.iter().map(|(k, (n, st))| (k.clone(), json!({"cases": n, "status": st}))).collect();
    let v = json!({
        "property": "C14", "evaluations": evaluations, "distinct_nontrivial": distinct, "rule": RULE,
        "samples": samples, "distribution": distribution, "cells": cells_j, "failures": failures,
        "known_hits": known_hits, "notes": notes, "shards": shards,
    });
    std::fs::write(format!("{}/summary.json", args.out), serde_json::to_string_pretty(&v).unwrap()).unwrap();
}

fn cell_status(cell: &str) -> &'static str {
    match cell {
        "memory::simd_ops/compare" | "memory::simd_ops/find_byte" | "io::simd_validation/utf8" | "io::simd_validation/crc32c"
        | "string::hex" | "io::simd_encoding/base64" | "entropy::bit_ops" | "io::simd_memory::search/find_pattern"
        | "io::simd_memory::search/find_any_of" | "string::bmi2_string_ops/utf8" | "io::simd_memory::copy" | "hash_map::simd_string_ops/fast_string_hash" => "M+S",
        _ => "S-only",
    }
}
