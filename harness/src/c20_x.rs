//! C20 extension: Coq cases for the newly modelled mechanisms (coq/C20/ModelFast.v, ModelText.v, CasesX.v):
//! FastStr (find / find_byte / compare / == / starts_with / ends_with / common_prefix_len / hash_fast / slicing),
//! the word-boundary helpers, and LineProcessor under every configuration (process_lines, count_lines,
//! process_batches).  The property oracle for the same inputs is in c20.rs / c20_more.rs; the functions here run the
//! real code once more and hand what it returned to the model.  Each family has an allowance of its own.
use super::*;
use std::sync::atomic::{AtomicUsize, Ordering as AO};
use zipora::string::LineProcessorConfig;

static N_FAST: AtomicUsize = AtomicUsize::new(0);
static N_BOUND: AtomicUsize = AtomicUsize::new(0);
static N_LCFG: AtomicUsize = AtomicUsize::new(0);
static THOROUGH: AtomicUsize = AtomicUsize::new(0);

pub fn set_thorough(t: bool) { THOROUGH.store(t as usize, AO::Relaxed); }
fn room(counter: &AtomicUsize, quick: usize) -> bool {
    let lim = if THOROUGH.load(AO::Relaxed) == 1 { quick * 6 } else { quick };
    counter.fetch_add(1, AO::Relaxed) < lim
}

fn coq_on(o: Option<usize>) -> String { match o { Some(x) => format!("(Some {})", x), None => "None".into() } }
fn coq_obl(o: &Option<Vec<u8>>) -> String { match o { Some(x) => format!("(Some {})", more::coq_bl(x)), None => "None".into() } }
fn b(x: bool) -> &'static str { if x { "true" } else { "false" } }

/// FastStr on the pair (a, b); `force` bypasses the spreading over the run (replay, corpus, deep lengths)
pub fn fast_emit(cx: &mut Ctx, a: &[u8], bb: &[u8], force: bool) {
    if !force && a.len() < 3 && bb.len() < 2 && N_FAST.load(AO::Relaxed) > 40 { return; }
    if !room(&N_FAST, 420) { return; }
    let cj = json!({"cell": "faststr", "a": a, "b": bb});
    let r = guarded(|| {
        let fa = FastStr::new(a);
        let fb = FastStr::new(bb);
        let find = fa.find(fb);
        let (fbyte, fbyte_o) = match bb.first() { Some(&c) => (fa.find_byte(c), fa.find_byte_optimized(c)), None => (None, None) };
        let ord = match fa.compare(fb) { Ordering::Less => -1, Ordering::Equal => 0, Ordering::Greater => 1 };
        let n = a.len();
        // slicing calls: inside, at the ends, beyond the end (substring with start > len panics in the code: None)
        let mut calls: Vec<(u8, usize, usize)> = vec![
            (0, 0, n), (0, n / 2, n), (0, n / 3, n / 2), (0, n, 0), (0, n, 5), (0, 1, usize::MAX), (0, n + 1, 0), (0, 0, usize::MAX),
            (1, 0, 0), (1, n / 2, 0), (1, n, 0), (1, n + 3, 0), (1, usize::MAX, 0),
            (2, 0, 0), (2, n / 2, 0), (2, n, 0), (2, n + 1, 0), (2, usize::MAX, 0),
            (3, 0, 0), (3, n / 3, 0), (3, n, 0), (3, n + 1, 0), (3, usize::MAX, 0),
            (4, 0, 0), (4, n.saturating_sub(1), 0), (4, n, 0), (4, usize::MAX, 0),
        ];
        calls.push((0, bb.len(), n.saturating_sub(bb.len())));
        let mut sl = String::from("[");
        for (i, (op, x, l)) in calls.iter().enumerate() {
            let res: Option<Vec<u8>> = match op {
                0 => guarded(|| fa.substring(*x, *l).as_bytes().to_vec()).ok(),
                1 => guarded(|| fa.substring_from(*x).as_bytes().to_vec()).ok(),
                2 => guarded(|| fa.prefix(*x).as_bytes().to_vec()).ok(),
                3 => guarded(|| fa.suffix(*x).as_bytes().to_vec()).ok(),
                _ => fa.get_byte(*x).map(|c| vec![c]),
            };
            if i > 0 { sl.push_str("; "); }
            sl.push_str(&format!("({}, {}, {}, {})", op, x, l, coq_obl(&res)));
        }
        sl.push(']');
        format!("(XFast {} {} {} {} {} ({})%Z {} {} {} {} {} {})%N", more::coq_bl(a), more::coq_bl(bb), coq_on(find), coq_on(fbyte), coq_on(fbyte_o),
            ord, b(fa == fb), b(fa.starts_with(fb)), b(fa.ends_with(fb)), fa.common_prefix_len(fb), fa.hash_fast(), sl)
    });
    match r {
        Ok(term) => cx.shards.push(term, cj),
        Err(p) => cx.sum.fail("FastStr", None, cj, &format!("panicked: {}", p)),
    }
}

/// find_word_boundaries, is_word_boundary and word_at_position at every position 0..=len+1
pub fn bound_emit(cx: &mut Ctx, text: &[u8]) {
    if !room(&N_BOUND, 160) { return; }
    let cj = json!({"cell": "words", "text": text});
    let r = guarded(|| {
        let wb = zipora::string::find_word_boundaries(text);
        let mut isb = String::from("[");
        let mut wap = String::from("[");
        for i in 0..text.len() + 2 {
            if i > 0 { isb.push_str("; "); wap.push_str("; "); }
            isb.push_str(b(zipora::string::is_word_boundary(text, i)));
            match zipora::string::word_at_position(text, i) {
                Some((s, e)) => wap.push_str(&format!("Some ({}, {})", s, e)),
                None => wap.push_str("None"),
            }
        }
        isb.push(']');
        wap.push(']');
        let bs: Vec<String> = wb.iter().map(|x| x.to_string()).collect();
        format!("(XBound {} [{}] {} {})%N", more::coq_bl(text), bs.join("; "), isb, wap)
    });
    match r {
        Ok(term) => cx.shards.push(term, cj),
        Err(p) => cx.sum.fail("words", None, cj, &format!("panicked: {}", p)),
    }
}

/// LineProcessor::with_config under the configuration bits (1 skip_empty, 2 trim, 4 preserve endings)
pub fn lines_cfg_emit(cx: &mut Ctx, text: &str, cfgbits: u64, batch: usize, delim: &str) {
    if !room(&N_LCFG, 260) { return; }
    let cj = json!({"cell": "lines_cfg", "text": text, "cfg": cfgbits, "batch": batch, "delim": delim});
    let r = guarded(|| -> Result<String, String> {
        let mut cfg = LineProcessorConfig::default();
        cfg.skip_empty_lines = cfgbits & 1 != 0;
        cfg.trim_whitespace = cfgbits & 2 != 0;
        cfg.preserve_line_endings = cfgbits & 4 != 0;
        let mk = || LineProcessor::with_config(text.as_bytes(), cfg.clone());
        let mut got: Vec<Vec<u8>> = vec![];
        mk().process_lines(|l| { got.push(l.as_bytes().to_vec()); Ok(true) }).map_err(|e| e.to_string())?;
        let count = mk().count_lines().map_err(|e| e.to_string())?;
        let mut batches: Vec<String> = vec![];
        let ret = mk().process_batches(batch, |bt| { batches.push(more::coq_bll(bt)); Ok(true) }).map_err(|e| e.to_string())?;
        Ok(format!("(XLinesCfg {} {} {} {} {} [{}] {})%N", cfgbits & 7, batch + 1, more::coq_bl(text.as_bytes()), more::coq_bll(&got), count, batches.join("; "), ret))
    });
    match r {
        Ok(Ok(term)) => cx.shards.push(term, cj),
        Ok(Err(e)) => cx.sum.fail("LineProcessor_configs", None, cj, &format!("error on valid input: {}", e)),
        Err(p) => cx.sum.fail("LineProcessor_configs", None, cj, &format!("panicked: {}", p)),
    }
}
