//! C20 extension: Coq cases for the newly modelled mechanisms (coq/C20/ModelFast.v, ModelText.v, CasesX.v):
//! FastStr (find / find_byte / compare / == / starts_with / ends_with / common_prefix_len / hash_fast / slicing),
//! the word-boundary helpers, and LineProcessor under every configuration (process_lines, count_lines,
//! process_batches).  The property oracle for the same inputs is in c20.rs / c20_more.rs; the functions here run the
//! real code once more and hand what it returned to the model.  Each family has an allowance of its own.
use super::*;
use std::sync::atomic::{AtomicUsize, Ordering as AO};
use zipora::string::LineProcessorConfig;

static N_FAST: AtomicUsize = AtomicUsize::new(0);
static N_BOUND: AtomicUsize = AtomicUsize::new(0);
static N_LCFG: AtomicUsize = AtomicUsize::new(0);
static THOROUGH: AtomicUsize = AtomicUsize::new(0);
static EXTRA_LCFG: AtomicUsize = AtomicUsize::new(0);
/// room for `k` more configuration cases beyond the allowance (deterministic families that come after the generated loop)
pub fn reserve_lines_cfg(k: usize) { EXTRA_LCFG.store(k, AO::Relaxed); }

pub fn set_thorough(t: bool) { THOROUGH.store(t as usize, AO::Relaxed); }
fn room(counter: &AtomicUsize, quick: usize) -> bool {
    let lim = if THOROUGH.load(AO::Relaxed) == 1 { quick * 6 } else { quick };
    counter.fetch_add(1, AO::Relaxed) < lim
}

fn coq_on(o: Option<usize>) -> String { match o { Some(x) => format!("(Some {})", x), None => "None".into() } }
fn coq_obl(o: &Option<Vec<u8>>) -> String { match o { Some(x) => format!("(Some {})", more::coq_bl(x)), None => "None".into() } }
fn b(x: bool) -> &'static str { if x { "true" } else { "false" } }

/// FastStr on the pair (a, b); `force` bypasses the spreading over the run (replay, corpus, deep lengths)
pub fn fast_emit(cx: &mut Ctx, a: &[u8], bb: &[u8], force: bool) {
    if !force && a.len() < 3 && bb.len() < 2 && N_FAST.load(AO::Relaxed) > 40 { return; }
    if !room(&N_FAST, 420) { return; }
    let cj = json!({"cell": "faststr", "a": a, "b": bb});
    let r = guarded(|| {
        let fa = FastStr::new(a);
        let fb = FastStr::new(bb);
        let find = fa.find(fb);
        let (fbyte, fbyte_o) = match bb.first() { Some(&c) => (fa.find_byte(c), fa.find_byte_optimized(c)), None => (None, None) };
        let ord = match fa.compare(fb) { Ordering::Less => -1, Ordering::Equal => 0, Ordering::Greater => 1 };
        let n = a.len();
        // slicing calls: inside, at the ends, beyond the end (substring with start > len panics in the code: None)
        let mut calls: Vec<(u8, usize, usize)> = vec![
            (0, 0, n), (0, n / 2, n), (0, n / 3, n / 2), (0, n, 0), (0, n, 5), (0, 1, usize::MAX), (0, n + 1, 0), (0, 0, usize::MAX),
            (1, 0, 0), (1, n / 2, 0), (1, n, 0), (1, n + 3, 0), (1, usize::MAX, 0),
            (2, 0, 0), (2, n / 2, 0), (2, n, 0), (2, n + 1, 0), (2, usize::MAX, 0),
            (3, 0, 0), (3, n / 3, 0), (3, n, 0), (3, n + 1, 0), (3, usize::MAX, 0),
            (4, 0, 0), (4, n.saturating_sub(1), 0), (4, n, 0), (4, usize::MAX, 0),
        ];
        calls.push((0, bb.len(), n.saturating_sub(bb.len())));
        let mut sl = String::from("[");
        for (i, (op, x, l)) in calls.iter().enumerate() {
            let res: Option<Vec<u8>> = match op {
                0 => guarded(|| fa.substring(*x, *l).as_bytes().to_vec()).ok(),
                1 => guarded(|| fa.substring_from(*x).as_bytes().to_vec()).ok(),
                2 => guarded(|| fa.prefix(*x).as_bytes().to_vec()).ok(),
                3 => guarded(|| fa.suffix(*x).as_bytes().to_vec()).ok(),
                _ => fa.get_byte(*x).map(|c| vec![c]),
            };
            if i > 0 { sl.push_str("; "); }
            sl.push_str(&format!("({}, {}, {}, {})", op, x, l, coq_obl(&res)));
        }
        sl.push(']');
        format!("(XFast {} {} {} {} {} ({})%Z {} {} {} {} {} {})%N", more::coq_bl(a), more::coq_bl(bb), coq_on(find), coq_on(fbyte), coq_on(fbyte_o),
            ord, b(fa == fb), b(fa.starts_with(fb)), b(fa.ends_with(fb)), fa.common_prefix_len(fb), fa.hash_fast(), sl)
    });
    match r {
        Ok(term) => cx.shards.push(term, cj),
        Err(p) => cx.sum.fail("FastStr", None, cj, &format!("panicked: {}", p)),
    }
}

/// find_word_boundaries, is_word_boundary and word_at_position at every position 0..=len+1
pub fn bound_emit(cx: &mut Ctx, text: &[u8]) {
    if !room(&N_BOUND, 160) { return; }
    let cj = json!({"cell": "words", "text": text});
    let r = guarded(|| {
        let wb = zipora::string::find_word_boundaries(text);
        let mut isb = String::from("[");
        let mut wap = String::from("[");
        for i in 0..text.len() + 2 {
            if i > 0 { isb.push_str("; "); wap.push_str("; "); }
            isb.push_str(b(zipora::string::is_word_boundary(text, i)));
            match zipora::string::word_at_position(text, i) {
                Some((s, e)) => wap.push_str(&format!("Some ({}, {})", s, e)),
                None => wap.push_str("None"),
            }
        }
        isb.push(']');
        wap.push(']');
        let bs: Vec<String> = wb.iter().map(|x| x.to_string()).collect();
        format!("(XBound {} [{}] {} {})%N", more::coq_bl(text), bs.join("; "), isb, wap)
    });
    match r {
        Ok(term) => cx.shards.push(term, cj),
        Err(p) => cx.sum.fail("words", None, cj, &format!("panicked: {}", p)),
    }
}

/// LineProcessor::with_config under the configuration bits (1 skip_empty, 2 trim, 4 preserve endings)
pub fn lines_cfg_emit(cx: &mut Ctx, text: &str, cfgbits: u64, batch: usize, delim: &str) {
    let extra = EXTRA_LCFG.load(AO::Relaxed);
    if extra > 0 { EXTRA_LCFG.store(extra - 1, AO::Relaxed); } else if !room(&N_LCFG, 260) { return; }
    let cj = json!({"cell": "lines_cfg", "text": text, "cfg": cfgbits, "batch": batch, "delim": delim});
    let r = guarded(|| -> Result<String, String> {
        let mut cfg = LineProcessorConfig::default();
        cfg.skip_empty_lines = cfgbits & 1 != 0;
        cfg.trim_whitespace = cfgbits & 2 != 0;
        cfg.preserve_line_endings = cfgbits & 4 != 0;
        let mk = || LineProcessor::with_config(text.as_bytes(), cfg.clone());
        let mut got: Vec<Vec<u8>> = vec![];
        mk().process_lines(|l| { got.push(l.as_bytes().to_vec()); Ok(true) }).map_err(|e| e.to_string())?;
        let count = mk().count_lines().map_err(|e| e.to_string())?;
        let mut batches: Vec<String> = vec![];
        let ret = mk().process_batches(batch, |bt| { batches.push(more::coq_bll(bt)); Ok(true) }).map_err(|e| e.to_string())?;
        Ok(format!("(XLinesCfg {} {} {} {} {} [{}] {})%N", cfgbits & 7, batch + 1, more::coq_bl(text.as_bytes()), more::coq_bll(&got), count, batches.join("; "), ret))
    });
    match r {
        Ok(Ok(term)) => cx.shards.push(term, cj),
        Ok(Err(e)) => cx.sum.fail("LineProcessor_configs", None, cj, &format!("error on valid input: {}", e)),
        Err(p) => cx.sum.fail("LineProcessor_configs", None, cj, &format!("panicked: {}", p)),
    }
}

static N_UTF8: AtomicUsize = AtomicUsize::new(0);
fn coq_oc(o: Option<char>) -> String { match o { Some(c) => format!("(Some {})", c as u32), None => "None".into() } }

/// unicode.rs: validate_utf8_and_count_chars, Utf8ToUtf32Iterator::new and an operation history on one iterator
/// (all the way forward and one step more, all the way back and one step more, reset, then a mix read off the text)
pub fn utf8_emit(cx: &mut Ctx, text: &[u8]) {
    use zipora::string::{utf8_byte_count, validate_utf8_and_count_chars, Utf8ToUtf32Iterator};
    let k = N_UTF8.load(AO::Relaxed);
    if !room(&N_UTF8, 300) { return; }
    let cj = json!({"cell": "unicode", "text": text});
    if k == 0 {
        let l: Vec<String> = (0..=255u8).map(|b| utf8_byte_count(b).to_string()).collect();
        cx.shards.push(format!("(XByteCount [{}])%N", l.join("; ")), json!({"cell": "unicode", "text": []}));
    }
    let r = guarded(|| {
        let count = validate_utf8_and_count_chars(text).ok();
        let mut ops: Vec<u8> = vec![];
        let mut obs = String::from("[");
        if let Ok(mut it) = Utf8ToUtf32Iterator::new(text) {
            let n = std::str::from_utf8(text).map(|s| s.chars().count()).unwrap_or(0);
            ops.extend(std::iter::repeat(0).take(n + 1));
            ops.extend(std::iter::repeat(1).take(n + 1));
            ops.push(2);
            for (i, &c) in text.iter().take(24).enumerate() { ops.push(match (c as usize + i) % 7 { 0 | 1 | 2 => 0, 3 | 4 => 1, 5 => 0, _ => 2 }); }
            ops.extend([0, 0, 1, 1, 1, 0]);
            for (i, op) in ops.iter().enumerate() {
                let ret = match op { 0 => it.next_char(), 1 => it.prev_char(), _ => { it.reset(); None } };
                if i > 0 { obs.push_str("; "); }
                obs.push_str(&format!("({}, {}, {})", coq_oc(ret), coq_oc(it.current()), it.byte_position()));
            }
        }
        obs.push(']');
        let opl: Vec<String> = ops.iter().map(|o| o.to_string()).collect();
        format!("(XUtf8 {} {} [{}] {})%N", more::coq_bl(text), coq_on(count), opl.join("; "), obs)
    });
    match r {
        Ok(term) => cx.shards.push(term, cj),
        Err(p) => cx.sum.fail("unicode", None, cj, &format!("panicked: {}", p)),
    }
}

static N_STREAM: AtomicUsize = AtomicUsize::new(0);
/// StreamingLexIterator over `text`: a history of next() mixed with the refused operations, then next() to the end and twice more
pub fn stream_emit(cx: &mut Ctx, cj: Value, text: &[u8], nlines: usize, mix: u64) {
    use zipora::string::StreamingLexIterator;
    if !room(&N_STREAM, 220) { return; }
    let r = guarded(|| {
        let mut it = StreamingLexIterator::new(std::io::Cursor::new(text.to_vec()));
        let mut ops: Vec<u8> = vec![];
        let mut m = mix;
        for _ in 0..nlines.min(6) { ops.push(if m % 3 == 0 { 1 + (m / 3 % 4) as u8 } else { 0 }); m /= 5; }
        ops.extend(std::iter::repeat(0).take(nlines + 2));
        ops.push(1 + (mix % 4) as u8);
        ops.push(0);
        let mut obs = String::from("[");
        for (i, op) in ops.iter().enumerate() {
            let ans = match op {
                0 => it.next(),
                1 => it.prev(),
                2 => it.seek_start(),
                3 => it.seek_end(),
                _ => it.seek_lower_bound("a"),
            };
            let code = match ans { Ok(false) => 0, Ok(true) => 1, Err(_) => 2 };
            let cur: Option<Vec<u8>> = it.current().map(|s| s.as_bytes().to_vec());
            if i > 0 { obs.push_str("; "); }
            obs.push_str(&format!("({}, {}, {})", code, coq_obl(&cur), b(it.is_at_end())));
        }
        obs.push(']');
        let opl: Vec<String> = ops.iter().map(|o| o.to_string()).collect();
        format!("(XStream {} [{}] {})%N", more::coq_bl(text), opl.join("; "), obs)
    });
    match r {
        Ok(term) => cx.shards.push(term, cj),
        Err(p) => cx.sum.fail("StreamingLexIterator", None, cj, &format!("panicked: {}", p)),
    }
}

static N_SEARCH: AtomicUsize = AtomicUsize::new(0);
static N_ZO: AtomicUsize = AtomicUsize::new(0);
fn coq_res(r: Result<usize, usize>) -> String { match r { Ok(i) => format!("(true, {})", i), Err(i) => format!("(false, {})", i) } }

/// SortableStrVec::binary_search on small vectors with cache_block_size 1..4 (block path from 3 strings on) and the
/// default block size (small path); the model gets the sorted enumeration the vector itself reports
pub fn search_emit(cx: &mut Ctx, cj: Value, strings: &[String], probes: &[String]) {
    if strings.len() > 40 { return; }
    let k = N_SEARCH.load(AO::Relaxed);
    if !room(&N_SEARCH, 200) { return; }
    let bs = [1usize, 2, 3, 4, 256][k % 5];
    cx.sum.eval("SortableStrVec_core", &format!("search {:?} {:?} {}", strings, probes, bs), strings.len() >= 2);
    let r = guarded(|| -> Result<String, String> {
        std::env::set_var("SORTABLE_CACHE_BLOCK", bs.to_string());
        let made = (|| -> Result<zipora::SortableStrVec, String> {
            let mut v = zipora::SortableStrVec::new();
            for s in strings { v.push_str(s).map_err(|e| e.to_string())?; }
            Ok(v)
        })();
        std::env::remove_var("SORTABLE_CACHE_BLOCK");
        let mut v = made?;
        v.sort_lexicographic().map_err(|e| e.to_string())?;
        let sorted: Vec<Vec<u8>> = (0..v.len()).filter_map(|i| v.get_sorted(i).map(|s| s.as_bytes().to_vec())).collect();
        if sorted.len() != strings.len() { return Err("sorted enumeration incomplete".into()); }
        let mut ps: Vec<Vec<u8>> = probes.iter().map(|p| p.as_bytes().to_vec()).collect();
        ps.extend(sorted.iter().take(6).cloned());
        let res: Vec<String> = ps.iter().map(|p| coq_res(v.binary_search(std::str::from_utf8(p).unwrap()))).collect();
        Ok(format!("(XSearch {} {} {} [{}])%N", more::coq_bll(&sorted), bs, more::coq_bll(&ps), res.join("; ")))
    });
    std::env::remove_var("SORTABLE_CACHE_BLOCK");
    match r {
        Ok(Ok(term)) => cx.shards.push(term, cj),
        Ok(Err(_)) => {}   // refused input (NUL / too long): the oracle in sortable_case judges that
        Err(p) => cx.sum.fail("SortableStrVec", None, cj, &format!("panicked: {}", p)),
    }
}

static N_PUSH: AtomicUsize = AtomicUsize::new(0);
/// SortableStrVec storage: push every string (push_str / push alternating), then get at every index and beyond
pub fn push_emit(cx: &mut Ctx, cj: Value, strings: &[String]) {
    if strings.len() > 40 { return; }
    if !room(&N_PUSH, 150) { return; }
    cx.sum.eval("SortableStrVec_core", &format!("push {:?}", strings), strings.len() >= 2);
    let r = guarded(|| {
        let ss: Vec<&[u8]> = strings.iter().map(|s| s.as_bytes()).collect();
        let mut v = zipora::SortableStrVec::new();
        let mut ok = true;
        for (i, s) in strings.iter().enumerate() {
            let r = if i % 2 == 0 { v.push_str(s) } else { v.push(s.clone()) };
            if r.ok() != Some(i) { ok = false; break; }
        }
        if !ok { return format!("(XPush {} false [])%N", more::coq_bll(&ss)); }
        let gets: Vec<String> = (0..strings.len() + 2).map(|i| coq_obl(&v.get(i).map(|s| s.as_bytes().to_vec()))).collect();
        format!("(XPush {} true [{}])%N", more::coq_bll(&ss), gets.join("; "))
    });
    match r {
        Ok(term) => cx.shards.push(term, cj),
        Err(p) => cx.sum.fail("SortableStrVec", None, cj, &format!("panicked: {}", p)),
    }
}

/// ZoSortedStrVec::from_sorted_strings on the list as given (sorted or not, with or without NUL bytes)
pub fn zo_emit(cx: &mut Ctx, cj: Value, strings: &[String], probes: &[String]) {
    if strings.len() > 40 { return; }
    if !room(&N_ZO, 200) { return; }
    let r = guarded(|| {
        let ss: Vec<&[u8]> = strings.iter().map(|s| s.as_bytes()).collect();
        match zipora::ZoSortedStrVec::from_sorted_strings(strings.to_vec()) {
            Err(_) => format!("(XZo {} false [] [] [] [] [])%N", more::coq_bll(&ss)),
            Ok(z) => {
                let gets: Vec<String> = (0..strings.len() + 2).map(|i| coq_obl(&z.get(i).map(|s| s.as_bytes().to_vec()))).collect();
                let iter: Vec<Vec<u8>> = z.iter().map(|s| s.as_bytes().to_vec()).collect();
                let ps: Vec<&[u8]> = probes.iter().map(|p| p.as_bytes()).collect();
                let res: Vec<String> = probes.iter().map(|p| coq_res(z.binary_search(p))).collect();
                let ranges: Vec<String> = probes.windows(2).map(|w| {
                    let items: Vec<Vec<u8>> = z.range(&w[0], &w[1]).map(|s| s.as_bytes().to_vec()).collect();
                    more::coq_bll(&items)
                }).collect();
                format!("(XZo {} true [{}] {} {} [{}] [{}])%N", more::coq_bll(&ss), gets.join("; "), more::coq_bll(&iter), more::coq_bll(&ps), res.join("; "), ranges.join("; "))
            }
        }
    });
    match r {
        Ok(term) => cx.shards.push(term, cj),
        Err(p) => cx.sum.fail("ZoSortedStrVec", None, cj, &format!("panicked: {}", p)),
    }
}

static N_CMPK: AtomicUsize = AtomicUsize::new(0);
/// SortableStrVec::fast_lexicographic_cmp through the hook: oracle (= slice order) on every call, a sample to the model
pub fn cmpk_emit(cx: &mut Ctx, a: &[u8], bb: &[u8]) {
    let cell = "SortableStrVec_core";
    let cj = json!({"cell": "cmpk", "a": a, "b": bb});
    cx.sum.eval(cell, &format!("cmpk {:?} {:?}", a, bb), a.len() >= 2 && bb.len() >= 2);
    match guarded(|| (zipora::SortableStrVec::verif_fast_lexicographic_cmp(a, bb), zipora::SortableStrVec::verif_fast_lexicographic_cmp(bb, a))) {
        Err(p) => cx.sum.fail(cell, None, cj, &format!("panicked: {}", p)),
        Ok((o, r)) => {
            if o != a.cmp(bb) || r != bb.cmp(a) {
                cx.sum.fail(cell, None, cj.clone(), &format!("fast_lexicographic_cmp = {:?} / {:?} (swapped), unsigned byte order says {:?} / {:?}", o, r, a.cmp(bb), bb.cmp(a)));
            }
            if (a.len() >= 8 || N_CMPK.load(AO::Relaxed) % 4 == 0) && room(&N_CMPK, 250) {
                let code = |x: Ordering| match x { Ordering::Less => -1, Ordering::Equal => 0, Ordering::Greater => 1 };
                cx.shards.push(format!("(XCmpK {} {} ({})%Z)%N", more::coq_bl(a), more::coq_bl(bb), code(o)), cj);
            } else { N_CMPK.fetch_add(1, AO::Relaxed); }
        }
    }
}

/// SortableStrVec::radix_sort on `n` strings that share a prefix of `len` bytes (valid input: every string is far below
/// the 2^20-byte limit).  The MSD recursion goes one level per common byte with a 257-word count table per frame, so the
/// case runs in a child process: a stack overflow kills the child, not the harness.
pub fn radix_deep_case(cx: &mut Ctx, n: usize, len: usize, shape: u64) {
    let cell = "SortableStrVec";
    let cj = json!({"cell": "radixdeep", "n": n, "len": len, "shape": shape});
    cx.sum.eval(cell, &format!("radixdeep {} {} {}", n, len, shape), true);
    let dir = std::env::temp_dir().join(format!("zv_c20_radix_{}_{}_{}", std::process::id(), n, len));
    let _ = std::fs::create_dir_all(&dir);
    let spec = dir.join("spec.json");
    let _ = std::fs::write(&spec, json!({"case": {"cell": "radixdeep_child", "n": n, "len": len, "shape": shape}}).to_string());
    let exe = match std::env::current_exe() { Ok(e) => e, Err(_) => return };
    let st = std::process::Command::new(exe)
        .args(["C20", "--seed", "1", "--tier", "quick", "--out", dir.to_str().unwrap_or("/tmp"), "--replay", spec.to_str().unwrap_or("")])
        .stdout(std::process::Stdio::null()).stderr(std::process::Stdio::null()).status();
    let verdict = std::fs::read_to_string(dir.join("radix_child.txt")).unwrap_or_default();
    let _ = std::fs::remove_dir_all(&dir);
    match st {
        Ok(s) if s.success() && verdict == "ok" => {}
        Ok(s) if s.success() => cx.sum.fail(cell, None, cj, &format!("radix_sort of {} strings (shape {}, common run {} bytes): {}", n, shape, len, verdict)),
        Ok(s) => cx.sum.fail(cell, None, cj, &format!("radix_sort of {} strings (shape {}: {}) killed the process ({}): the MSD recursion descends one frame per common byte", n, shape, if shape == 0 { format!("a common prefix of {} bytes", len) } else { "\"a\", \"aa\", \"aaa\", ...".to_string() }, s)),
        Err(e) => cx.sum.fail(cell, None, cj, &format!("could not run the child: {}", e)),
    }
}
pub fn radix_deep_child(out: &str, n: usize, len: usize, shape: u64) {
    let prefix = "a".repeat(len);
    // shape 0: a common prefix and a short distinguishing tail; shape 1: the staircase "a", "aa", ... (two buckets per level), shuffled
    let strings: Vec<String> = if shape == 0 { (0..n).map(|i| format!("{}{:03}", prefix, (i * 7919) % 1000)).collect() }
        else { (0..n).map(|i| "a".repeat((i * 7919) % n + 1)).collect() };
    let verdict = match guarded(|| -> Result<(), String> {
        let mut v = zipora::SortableStrVec::new();
        for s in &strings { v.push_str(s).map_err(|e| e.to_string())?; }
        v.radix_sort().map_err(|e| e.to_string())?;
        let got: Vec<&str> = (0..v.len()).filter_map(|i| v.get_sorted(i)).collect();
        let mut want: Vec<&str> = strings.iter().map(|s| s.as_str()).collect();
        want.sort();
        if got != want { return Err("sorted enumeration is not the sorted multiset".into()); }
        Ok(())
    }) { Ok(Ok(())) => "ok".to_string(), Ok(Err(e)) => format!("error: {}", e), Err(p) => format!("panicked: {}", p) };
    let _ = std::fs::write(format!("{}/radix_child.txt", out), verdict);
}
