//! C07: live allocations from any pool never overlap and keep their contents.
//!
//! Oracle (independent of the Coq model): every history of allocate/free is replayed on the real pool with a
//! shadow list of live ranges; each live block is filled with a per-block position-dependent pattern.  After every
//! operation the oracle checks: the new block is at least as large as requested, satisfies the requested /
//! configured alignment, does not overlap any live block, all blocks ever issued fit the memory the pool owns
//! (a window of `capacity` bytes, or an absolute offset range for the offset-returning five-level pools), requests
//! larger than the capacity are refused with an error (a panic is a violation), patterns of all live blocks are
//! intact (head/tail after every op, full at free and at the end), a free of a live block is accepted, a pointer the
//! pool never issued is refused by the pools that validate pointers and the pool stays usable.
//! M+S cells: LockFreeMemoryPool, BumpAllocator/BumpArena (histories evaluated against coq/C07/Model.v), and the cells of the
//! extension (five-level, thread-local, tiered, secure, basic, mmap); S-only cells: everything else (see `cells`).
//! Breadth: the histories also contain housekeeping / accessor entry points (op 5), bulk requests (op 6) and requests sized
//! around the reported remaining capacity (op 7); `c07_wide.rs` holds the deterministic threshold families, the
//! CacheAlignedVec cell and the global secure pools (design/C07.md, "Oracle breadth").
//!
//! The whole run happens in a child process (a pool defect can unmap or corrupt memory the oracle then touches):
//! the child notes the case it is working on; if it dies, the parent reports that case as the failing input.
use crate::util::*;
use serde_json::{json, Value};
use std::collections::HashMap;
use std::ptr::NonNull;
use std::sync::Arc;
use zipora::memory::{
    numa_alloc_aligned, numa_dealloc, init_numa_pools, clear_numa_pools,
    AdaptiveFiveLevelPool, BumpAllocator, BumpArena, ConcurrencyLevel, FiveLevelPoolConfig, FiveLevelPoolHandle, FixedCapacityAllocation,
    FixedCapacityMemoryPool, FixedCapacityPool, FixedCapacityPoolConfig, HugePage, HugePageAllocator, LockFreeAllocation,
    LockFreeMemoryPool, LockFreePool, LockFreePoolConfig, BackoffStrategy, MemOffset, MemoryMappedAllocator, MemoryPool, MmapAllocation,
    MutexBasedPool, NoLockingPool, PoolConfig, PooledBuffer, PooledVec, SecureMemoryPool, SecurePoolConfig, SecurePooledPtr,
    ThreadLocalAllocation, ThreadLocalMemoryPool, ThreadLocalPool, ThreadLocalPoolConfig, TieredAllocation, TieredConfig,
    TieredMemoryAllocator,
};

#[path = "c07_wide.rs"]
mod wide;

const HEADER: &str = r#"From ZV.Common Require Import Base Run.
From ZV.C07 Require Import Model ModelFive ModelTL ModelTiered ModelSecure ModelMmap Cases.
Open Scope N_scope.
Definition case_t := xcase.
Definition ok := xok.
"#;

struct Ctx { sum: Summary, shards: CoqShards, budget: usize, impl_bins: Vec<u64>, tl_classes: Vec<u64>, out: String, used: HashMap<&'static str, usize>, thorough: bool }
impl Ctx {
    /// per-cell budget of Coq-evaluated cases (quick tier: about 1500 in total)
    fn room(&mut self, key: &'static str, force: bool) -> bool {
        let cap = match key { "lockfree" => 340, "fixedcap" => 170, "bump" => 230, "five" => 300, "threadlocal" => 140, "tiered" => 110, "secure" => 110, "mempool" => 30, "mmap" => 60, _ => 0 }
                  * if self.thorough { 7 } else { 1 };
        let n = self.used.entry(key).or_insert(0);
        if force || (*n < cap && self.shards.len() < self.budget) { *n += 1; true } else { false }
    }
}

// ------------------------------------------------------------------------------------------------
// pools under test behind one interface
// ------------------------------------------------------------------------------------------------
struct Blk { addr: usize, usable: usize, mem: bool }

/// effect of a housekeeping entry point on the shadow / on the model comparison
#[derive(Default)]
struct HouseFx { forget_all: bool, unmodelled: bool }

trait Put {
    /// None = refused with an error
    fn alloc(&mut self, id: u64, size: usize, align: usize) -> Option<Blk>;
    /// result of the free (true = accepted)
    fn free(&mut self, id: u64) -> bool;
    fn supports_free(&self) -> bool { true }
    /// all blocks ever issued must fit a window of this many bytes (the memory the pool owns)
    fn window(&self) -> Option<usize> { None }
    /// "addresses" are offsets that must lie in [lo, hi)
    fn abs_range(&self) -> Option<(usize, usize)> { None }
    fn must_refuse(&self, _size: usize) -> bool { false }
    fn cfg_align(&self) -> usize { 1 }
    /// deallocate a pointer the pool never issued: Some(accepted) when the pool has such an entry point
    fn foreign(&mut self, _kind: u64, _size: usize, _first: Option<usize>, _lowest: Option<usize>) -> Option<bool> { None }
    fn scope_begin(&mut self) -> bool { false }
    fn scope_end(&mut self) {}
    /// the request size the pool actually serves for a request of `size` (fixed-chunk pools ignore the size)
    fn effective(&self, size: usize) -> usize { size }
    /// called once after every event of the history (pools record their statistics here)
    fn note(&mut self) {}
    /// finding class an overlap / out-of-range failure of this pool falls in, if any
    fn overlap_class(&self) -> Option<&'static str> { None }
    /// housekeeping / accessor / secondary entry point number `k` of this pool (statistics, validate, clear, reset,
    /// views of the RAII guards ...): no block changes hands, every live block must survive it
    fn house(&mut self, _k: u64, _live: &[Live]) -> HouseFx { HouseFx::default() }
    /// the pool's bulk entry point, all or nothing: None = the pool has none (the driver falls back to single requests),
    /// Some(None) = refused as a whole
    fn alloc_bulk(&mut self, _ids: &[u64], _sizes: &[usize]) -> Option<Option<Vec<Blk>>> { None }
    /// bytes the pool reports as still available (requests are then sized around that number)
    fn remaining(&self) -> Option<usize> { None }
    /// a violation the pool wrapper noticed itself during the last call (accounting that contradicts the shadow, a view
    /// of a guard that disagrees with the guard, foreign memory modified ...)
    fn complaint(&mut self) -> Option<String> { None }
}

fn pat(id: u64, i: usize) -> u8 { (id.wrapping_mul(37).wrapping_add(11) as u8) ^ ((i as u32).wrapping_mul(7) as u8) }

fn positions(n: usize, full: bool) -> Vec<(usize, usize)> {
    // ranges of a block that are written / verified
    if !full { if n <= 32 { vec![(0, n)] } else { vec![(0, 16), (n - 16, n)] } }
    else if n <= 65536 { vec![(0, n)] } else { vec![(0, 4096), (n / 2, n / 2 + 64), (n - 4096, n)] }
}
// (the loops below compute pat(id, i) incrementally: the dev profile of the harness is opt-level 1 with overflow checks)
unsafe fn fill(addr: usize, n: usize, id: u64) {
    let k = pat(id, 0);
    for (a, b) in positions(n, true) {
        let s = std::slice::from_raw_parts_mut((addr + a) as *mut u8, b - a);
        let mut x = (a as u32).wrapping_mul(7) as u8;
        for p in s.iter_mut() { *p = k ^ x; x = x.wrapping_add(7); }
    }
}
unsafe fn verify(addr: usize, n: usize, id: u64, full: bool) -> Option<usize> {
    let k = pat(id, 0);
    for (a, b) in positions(n, full) {
        let s = std::slice::from_raw_parts((addr + a) as *const u8, b - a);
        let mut x = (a as u32).wrapping_mul(7) as u8;
        for (i, p) in s.iter().enumerate() { if *p != k ^ x { debug_assert!(*p != pat(id, a + i)); return Some(a + i); } x = x.wrapping_add(7); }
    }
    None
}

struct Live { id: u64, addr: usize, len: usize, mem: bool, scope: usize }

/// one event of a history in the vocabulary of the Coq models: `[0, size, align]` allocate, `[1, k]` free the k-th live
/// block, `[2, kind, size]` foreign pointer, `[3]` / `[4]` scope begin / end, with what the pool answered
struct Ev { op: Vec<u64>, res: Option<i128> }
/// what `drive` observed: the events (bulk requests expanded, capacity-relative sizes resolved, housekeeping left out)
/// and whether an operation the models do not know changed the pool's state (then the case is not sent to Coq)
struct Driven { ev: Vec<Ev>, unmodelled: bool }

/// sizes of a bulk request `[6, n, base, step]`: base, base+step, base+2*step, base, ...
fn bulk_sizes(op: &[u64]) -> Vec<usize> {
    let n = (op.get(1).copied().unwrap_or(1) as usize).clamp(1, 4096);
    let base = op.get(2).copied().unwrap_or(1); let step = op.get(3).copied().unwrap_or(0);
    (0..n).map(|i| base.wrapping_add((i as u64 % 3).wrapping_mul(step)) as usize).collect()
}

/// Replays `ops` on `put`; returns the events with their observations (Some(addr) / Some(0) / None) or stops at the first failure.
/// Operations: `[0, size, align]` allocate; `[1, k]` free the k-th live block; `[2, kind, size]` free a pointer the pool
/// never issued; `[3]` / `[4]` arena scope; `[5, k]` housekeeping / accessor entry point k; `[6, n, base, step]` one bulk
/// request of n sizes; `[7, d, align]` allocate (what the pool reports as remaining) + d - 2 bytes.
fn drive(cx: &mut Ctx, cell: &str, cj: &Value, put: &mut dyn Put, ops: &[Vec<u64>]) -> Option<Driven> {
    let mut live: Vec<Live> = vec![];
    let mut ev: Vec<Ev> = vec![];
    let mut unmodelled = false;
    let mut lo = usize::MAX; let mut hi = 0usize;
    let mut first: Option<usize> = None;
    let mut next_id = 0u64;
    let mut scope_depth = 0usize;
    macro_rules! bad { ($class:expr, $($a:tt)*) => {{ cx.sum.fail(cell, $class, cj.clone(), &format!($($a)*)); return None; }}; }
    // a block the pool handed out for (size, align): the checks of the property, then it joins the live set
    macro_rules! admit { ($n:expr, $blk:expr, $id:expr, $size:expr, $align:expr) => {{
        let (n, blk, id, size, align): (usize, Blk, u64, usize, usize) = ($n, $blk, $id, $size, $align);
        cx.sum.dist("alloc_ok");
        let eff = put.effective(size);
        if put.must_refuse(eff) { bad!(None, "op {}: request of {} bytes exceeds the pool's capacity but memory was handed out", n, eff); }
        if blk.usable < eff { bad!(None, "op {}: block of {} bytes for a request of {}", n, blk.usable, eff); }
        let al = align.max(put.cfg_align());
        if blk.addr % al != 0 { bad!(class_misaligned(cell), "op {}: address {:#x} (request of {} bytes) is not aligned to {}", n, blk.addr, eff, al); }
        let len = blk.usable;
        let end = match blk.addr.checked_add(len) { Some(e) => e, None => bad!(None, "op {}: block wraps the address space", n) };
        if len > 0 {
            for l in &live {
                if l.len > 0 && blk.addr < l.addr + l.len && l.addr < end {
                    bad!(put.overlap_class(), "op {}: new block [{:#x},+{}) overlaps live block [{:#x},+{}) (allocated as #{})", n, blk.addr, len, l.addr, l.len, l.id);
                }
            }
            lo = lo.min(blk.addr); hi = hi.max(end);
            if let Some(w) = put.window() { if hi - lo > w { bad!(None, "op {}: blocks issued span {} bytes but the pool owns {}", n, hi - lo, w); } }
            if let Some((rl, rh)) = put.abs_range() { if blk.addr < rl || end > rh { bad!(None, "op {}: block [{},+{}) outside the pool's memory [{},{})", n, blk.addr, len, rl, rh); } }
        }
        if first.is_none() { first = Some(blk.addr); }
        if blk.mem && len > 0 { unsafe { fill(blk.addr, len, id); } }
        ev.push(Ev { op: vec![0, size as u64, align as u64], res: Some(blk.addr as i128) });
        live.push(Live { id, addr: blk.addr, len, mem: blk.mem, scope: scope_depth });
    }}; }
    macro_rules! single { ($n:expr, $size:expr, $align:expr) => {{
        let (n, size, align): (usize, usize, usize) = ($n, $size, $align);
        let id = next_id; next_id += 1;
        let rem0 = guarded(|| put.remaining()).ok().flatten();
        match guarded(|| put.alloc(id, size, align)) {
            Err(p) => bad!(None, "op {}: allocate({}, align {}) panicked: {}", n, size, align, p),
            Ok(None) => { ev.push(Ev { op: vec![0, size as u64, align as u64], res: None }); cx.sum.dist("alloc_refused");
                // a refused request took nothing: what the pool reports as remaining is what it reported before
                // (the history goes on, and every later block is checked against the live set as after any other step)
                if let (Some(r0), Ok(Some(r1))) = (rem0, guarded(|| put.remaining())) {
                    cx.sum.dist("alloc_refused_remaining_compared");
                    if r1 != r0 { bad!(None, "op {}: the refused allocate({}, align {}) changed the remaining capacity the pool reports from {} to {}", n, size, align, r0, r1); }
                } }
            Ok(Some(blk)) => admit!(n, blk, id, size, align),
        }
        if let Some(e) = put.complaint() { bad!(None, "op {}: allocate({}, align {}): {}", n, size, align, e); }
        put.note();
    }}; }
    for (n, op) in ops.iter().enumerate() {
        let t = op.get(0).copied().unwrap_or(9);
        let a = op.get(1).copied().unwrap_or(0);
        let b = op.get(2).copied().unwrap_or(0);
        match t {
            0 => single!(n, a as usize, (b as usize).max(1)),
            7 => {
                // a request sized around what the pool itself reports as remaining
                if let Some(rem) = put.remaining() {
                    let size = (rem as u64).saturating_add(a % 5).saturating_sub(2).max(1) as usize;
                    cx.sum.dist("alloc_relative_to_remaining");
                    single!(n, size, (b as usize).max(1));
                }
            }
            6 => {
                let sizes = bulk_sizes(op);
                let ids: Vec<u64> = (0..sizes.len() as u64).map(|i| next_id + i).collect();
                match guarded(|| put.alloc_bulk(&ids, &sizes)) {
                    Err(p) => bad!(None, "op {}: bulk request of {} sizes panicked: {}", n, sizes.len(), p),
                    Ok(None) => { for &s in &sizes { single!(n, s, 1); } }
                    Ok(Some(None)) => {
                        next_id += sizes.len() as u64;
                        cx.sum.dist("bulk_refused");
                        if let Some(e) = put.complaint() { bad!(None, "op {}: bulk request: {}", n, e); }
                        // blocks handed out before the failing element are lost inside the pool: the models would still list them
                        if sizes.len() > 1 { unmodelled = true; } else { ev.push(Ev { op: vec![0, sizes[0] as u64, 1], res: None }); put.note(); }
                    }
                    Ok(Some(Some(blks))) => {
                        next_id += sizes.len() as u64;
                        cx.sum.dist("bulk_ok");
                        if blks.len() != sizes.len() { bad!(None, "op {}: bulk request of {} sizes returned {} blocks", n, sizes.len(), blks.len()); }
                        if let Some(e) = put.complaint() { bad!(None, "op {}: bulk request: {}", n, e); }
                        for (i, blk) in blks.into_iter().enumerate() { admit!(n, blk, ids[i], sizes[i], 1); put.note(); }
                    }
                }
            }
            1 => {
                if !put.supports_free() || live.is_empty() { ev.push(Ev { op: op.clone(), res: Some(0) }); put.note(); continue; }
                let k = (a as usize) % live.len();
                if live[k].scope != scope_depth { ev.push(Ev { op: op.clone(), res: Some(0) }); put.note(); continue; }   // never free across an arena scope
                let l = live.remove(k);
                if l.mem { if let Some(i) = unsafe { verify(l.addr, l.len, l.id, true) } {
                    bad!(None, "op {}: byte {} of live block #{} [{:#x},+{}) changed before it was freed", n, i, l.id, l.addr, l.len); } }
                match guarded(|| put.free(l.id)) {
                    Err(p) => bad!(None, "op {}: free of live block #{} panicked: {}", n, l.id, p),
                    Ok(false) => bad!(None, "op {}: free of live block #{} ({} bytes) was reported as an error", n, l.id, l.len),
                    Ok(true) => ev.push(Ev { op: op.clone(), res: Some(0) }),
                }
                if let Some(e) = put.complaint() { bad!(None, "op {}: free of live block #{}: {}", n, l.id, e); }
                put.note();
            }
            2 => {
                let size = (b as usize).max(1);
                let lowest = if lo == usize::MAX { None } else { Some(lo) };
                let rem0 = guarded(|| put.remaining()).ok().flatten();
                match guarded(|| put.foreign(a, size, first, lowest)) {
                    Err(p) => bad!(None, "op {}: deallocating a foreign pointer panicked: {}", n, p),
                    Ok(None) => ev.push(Ev { op: op.clone(), res: Some(0) }),
                    Ok(Some(acc)) => {
                        if acc && a != 1 { bad!(None, "op {}: a pointer the pool never issued ({} bytes) was accepted by deallocate", n, size); }
                        if !acc { if let (Some(r0), Ok(Some(r1))) = (rem0, guarded(|| put.remaining())) {
                            if r1 != r0 { bad!(None, "op {}: the refused deallocate of a pointer the pool never issued changed the remaining capacity the pool reports from {} to {}", n, r0, r1); } } }
                        ev.push(Ev { op: op.clone(), res: if acc { Some(0) } else { None } });
                    }
                }
                if let Some(e) = put.complaint() { bad!(None, "op {}: deallocating a foreign pointer: {}", n, e); }
                put.note();
            }
            3 => { if put.scope_begin() { scope_depth += 1; } ev.push(Ev { op: op.clone(), res: Some(0) }); put.note(); }
            4 => {
                if scope_depth > 0 {
                    for l in live.iter().filter(|l| l.scope == scope_depth) {
                        if l.mem { if let Some(i) = unsafe { verify(l.addr, l.len, l.id, true) } {
                            bad!(None, "op {}: byte {} of live block #{} changed inside the arena scope", n, i, l.id); } }
                    }
                    live.retain(|l| l.scope != scope_depth);
                    put.scope_end();
                    scope_depth -= 1;
                }
                ev.push(Ev { op: op.clone(), res: Some(0) }); put.note();
            }
            5 => {
                cx.sum.dist("housekeeping_ops");
                match guarded(|| put.house(a, &live)) {
                    Err(p) => bad!(None, "op {}: housekeeping / accessor entry point {} panicked: {}", n, a, p),
                    Ok(fx) => {
                        if let Some(e) = put.complaint() { bad!(None, "op {}: housekeeping / accessor entry point {}: {}", n, a, e); }
                        if fx.forget_all { live.clear(); }
                        if fx.unmodelled { unmodelled = true; }
                    }
                }
            }
            _ => {}
        }
        // nothing else was disturbed (with many live blocks: the 32 youngest and a rotating window of 32 per operation;
        // every block is verified in full when it is freed and at the end anyway)
        let nl = live.len();
        for j in 0..nl.min(64) {
            let l = if nl <= 64 { &live[j] } else if j < 32 { &live[nl - 1 - j] } else { &live[(n * 32 + j) % nl] };
            if l.mem { if let Some(i) = unsafe { verify(l.addr, l.len, l.id, false) } {
                bad!(None, "after op {} {:?}: byte {} of live block #{} [{:#x},+{}) changed", n, op, i, l.id, l.addr, l.len); } }
        }
    }
    while scope_depth > 0 { live.retain(|l| l.scope != scope_depth); put.scope_end(); scope_depth -= 1; }
    // final full verification, then release everything (RAII guards drop here too)
    for l in &live {
        if l.mem { if let Some(i) = unsafe { verify(l.addr, l.len, l.id, true) } {
            bad!(None, "at the end: byte {} of live block #{} [{:#x},+{}) changed", i, l.id, l.addr, l.len); } }
    }
    if put.supports_free() {
        while let Some(l) = live.pop() {
            if l.mem { if let Some(i) = unsafe { verify(l.addr, l.len, l.id, true) } {
                bad!(None, "during the final frees: byte {} of live block #{} [{:#x},+{}) changed", i, l.id, l.addr, l.len); } }
            match guarded(|| put.free(l.id)) {
                Err(p) => bad!(None, "final free of live block #{} panicked: {}", l.id, p),
                Ok(false) => bad!(None, "final free of live block #{} was reported as an error", l.id),
                Ok(true) => {}
            }
            if let Some(e) = put.complaint() { bad!(None, "final free of live block #{}: {}", l.id, e); }
            let nl = live.len();
            for j in 0..nl.min(64) { let m = if nl <= 64 { &live[j] } else { &live[(nl - 1).saturating_sub(j * (nl / 64))] };
                if m.mem { if let Some(i) = unsafe { verify(m.addr, m.len, m.id, false) } {
                    bad!(None, "final free of #{}: byte {} of live block #{} changed", l.id, i, m.id); } } }
        }
    }
    Some(Driven { ev, unmodelled })
}

/// narrow finding classes (none recorded for misalignment at present; kept as the single place to add one)
fn class_misaligned(_cell: &str) -> Option<&'static str> { None }

/// finding five_tl_offset_alias: ThreadLocalPool (level 4 of the five-level family, also behind AdaptiveFiveLevelPool)
/// returns offsets into the per-thread arena for fast-bin sizes and offsets into the shared MutexBasedPool otherwise;
/// both start at 0, so two live blocks can carry the same MemOffset.  The class is decidable on the case: the pool is a
/// ThreadLocalPool and the history contains a request that cannot be served from the arena's hot half (aligned size above
/// max_fast_block_size, or cumulative aligned fast-bin bytes above arena_size / 2).
fn five_tl_alias_class(is_tl: bool, cfg: &FiveLevelPoolConfig, ops: &[Vec<u64>]) -> bool {
    if !is_tl { return false; }
    let al = cfg.alignment as u64;
    let mut hot = 0u64;
    for o in ops {
        let sizes: Vec<u64> = match o.get(0) { Some(&0) => vec![o.get(1).copied().unwrap_or(0)], Some(&6) => bulk_sizes(o).into_iter().map(|s| s as u64).collect(), _ => continue };
        for size in sizes {
            if size == 0 || size > u64::MAX - al { continue; }
            let a = (size + al - 1) & !(al - 1);
            if a > cfg.max_fast_block_size as u64 { return true; }
            hot = hot.saturating_add(a);
            if hot > (cfg.arena_size / 2) as u64 { return true; }
        }
    }
    false
}

// ---------------- LockFreeMemoryPool ----------------
const FOREIGN_WORDS: usize = 2048;
fn foreign_word(i: usize) -> u64 { 0xA5A5_5A5A_C3C3_3C3Cu64 ^ (i as u64).wrapping_mul(0x9E37_79B9_7F4A_7C15) }
struct LfPut { pool: Arc<LockFreeMemoryPool>, msize: usize, h: HashMap<u64, (NonNull<u8>, usize)>, guards: HashMap<u64, LockFreeAllocation>, raii: bool,
               foreign_buf: Vec<u64>, complaint: Option<String> }
fn lf_config(preset: u64, msize: usize) -> LockFreePoolConfig {
    // presets 4..7: the presets 0..3 with the non-default `zero_on_free` (blocks freed through deallocate_with_zero are scrubbed;
    // the scrub must stay inside the block, whatever its size is relative to a cache line)
    // presets 8..11: field combinations no preset constructor produces (one CAS attempt without backoff and without statistics;
    // zero_on_free without the SIMD switch; cache alignment requested without / with every cache layout; linear backoff)
    let mut c = match preset % 4 { 1 => LockFreePoolConfig::default(), 2 => LockFreePoolConfig::high_performance(), _ => LockFreePoolConfig::compact() };
    if (4..8).contains(&preset) { c.zero_on_free = true; c.enable_simd_optimization = true; }
    match preset {
        8 => { c.max_cas_retries = 1; c.backoff_strategy = BackoffStrategy::None; c.enable_stats = false; }
        9 => { c.zero_on_free = true; c.enable_simd_optimization = false; c.backoff_strategy = BackoffStrategy::Linear; }
        10 => { c.enable_cache_alignment = true; c.cache_config = None; c.enable_huge_pages = false; c.enable_numa_awareness = false; c.zero_on_free = true; }
        11 => { c.enable_cache_alignment = true; c.cache_config = Some(zipora::memory::CacheLayoutConfig::write_heavy()); c.enable_stats = true;
                c.zero_on_free = true; c.enable_simd_optimization = true; c.backoff_strategy = BackoffStrategy::Exponential { max_delay_us: 1 }; }
        _ => {}
    }
    if msize != 0 { c.memory_size = msize; }
    c
}
impl LfPut {
    fn hold(&mut self, id: u64, p: NonNull<u8>, size: usize) {
        // with `raii`, every third block lives in the RAII guard from the start (its views are used by the oracle)
        if self.raii && id % 3 == 0 {
            let mut g = LockFreeAllocation::new(p, size, Arc::clone(&self.pool));
            if g.as_ptr() != p.as_ptr() || g.size() != size || g.as_mut_slice().len() != size || g.as_mut_slice().as_mut_ptr() != p.as_ptr() {
                self.complaint = Some(format!("LockFreeAllocation views disagree with the block: ptr {:?} size {} slice {}", g.as_ptr(), g.size(), g.as_slice().len()));
            }
            self.guards.insert(id, g);
        } else { self.h.insert(id, (p, size)); }
    }
}
impl Put for LfPut {
    fn alloc(&mut self, id: u64, size: usize, _align: usize) -> Option<Blk> {
        let p = if id % 5 == 4 { self.pool.allocate_bulk_simd(&[size]).ok()?.pop()? } else { self.pool.allocate(size).ok()? };
        self.hold(id, p, size);
        Some(Blk { addr: p.as_ptr() as usize, usable: size, mem: true })
    }
    fn alloc_bulk(&mut self, ids: &[u64], sizes: &[usize]) -> Option<Option<Vec<Blk>>> {
        let v = match self.pool.allocate_bulk_simd(sizes) { Ok(v) => v, Err(_) => return Some(None) };
        if v.len() != sizes.len() { self.complaint = Some(format!("allocate_bulk_simd of {} sizes returned {} blocks", sizes.len(), v.len())); return Some(Some(vec![])); }
        for (i, p) in v.iter().enumerate() { self.hold(ids[i], *p, sizes[i]); }
        Some(Some(v.iter().zip(sizes.iter()).map(|(p, &s)| Blk { addr: p.as_ptr() as usize, usable: s, mem: true }).collect()))
    }
    fn free(&mut self, id: u64) -> bool {
        if let Some(g) = self.guards.remove(&id) { drop(g); return true; }
        let (p, size) = self.h.remove(&id).unwrap();
        if id % 3 == 1 { self.pool.deallocate_with_zero(p, size).is_ok() }
        else { self.pool.deallocate(p, size).is_ok() }
    }
    fn window(&self) -> Option<usize> { Some(self.msize) }
    fn must_refuse(&self, size: usize) -> bool { size > self.msize }
    fn cfg_align(&self) -> usize { 8 }
    fn foreign(&mut self, kind: u64, size: usize, first: Option<usize>, lowest: Option<usize>) -> Option<bool> {
        let p = match (kind, first, lowest) {
            (1, Some(f), _) => (f - 8 + self.msize) as *mut u8,           // one past the arena under the modelled layout (model comparison only)
            (2, _, Some(l)) => (l + self.msize) as *mut u8,                // lowest address ever issued + capacity: certainly outside the arena
            _ => self.foreign_buf.as_mut_ptr() as *mut u8,
        };
        // kinds 3.. : the same foreign memory through deallocate_with_zero, which must refuse it *and* leave it alone
        let with_zero = kind >= 3;
        let size = if with_zero { size.min(FOREIGN_WORDS * 8) } else { size };
        let r = if with_zero { self.pool.deallocate_with_zero(NonNull::new(p).unwrap(), size).is_ok() } else { self.pool.deallocate(NonNull::new(p).unwrap(), size).is_ok() };
        if let Some(i) = (0..FOREIGN_WORDS).find(|&i| self.foreign_buf[i] != foreign_word(i)) {
            self.complaint = Some(format!("memory the pool never issued was modified (word {} of the caller's buffer) by {}", i, if with_zero { "deallocate_with_zero" } else { "deallocate" }));
        }
        Some(r)
    }
    fn house(&mut self, k: u64, live: &[Live]) -> HouseFx {
        match k % 2 {
            0 => { if let Some(st) = self.pool.stats() { let _ = (st.allocation_rate(), st.contention_ratio(), st.memory_usage.load(std::sync::atomic::Ordering::Relaxed)); } }
            _ => { for l in live { if let Some(g) = self.guards.get(&l.id) {
                       if g.as_ptr() as usize != l.addr || g.size() != l.len || g.as_slice().len() != l.len || g.as_slice().as_ptr() as usize != l.addr {
                           self.complaint = Some(format!("LockFreeAllocation of block #{} reports ptr {:?} size {}", l.id, g.as_ptr(), g.size())); } } } }
        }
        HouseFx::default()
    }
    fn complaint(&mut self) -> Option<String> { self.complaint.take() }
}
impl Drop for LfPut { fn drop(&mut self) { self.guards.clear(); } }

// ---------------- FixedCapacityMemoryPool ----------------
struct FcPut { h: HashMap<u64, FixedCapacityAllocation>, pool: Box<FixedCapacityMemoryPool>, cfg: FixedCapacityPoolConfig, complaint: Option<String> }
impl FcPut {
    /// capacity accounting against the shadow (the number of guards the oracle holds): `available_capacity` is the
    /// blocks not handed out times the block size, `has_capacity` says whether a request would be served
    fn accounting(&mut self, what: &str) {
        if !self.cfg.enable_stats { return; }
        let livec = self.h.len();
        let want = self.cfg.total_blocks.saturating_sub(livec) * self.cfg.max_block_size;
        let got = self.pool.available_capacity();
        if got != want { self.complaint = Some(format!("{}: available_capacity() = {} with {} of {} blocks of {} bytes handed out (expected {})", what, got, livec, self.cfg.total_blocks, self.cfg.max_block_size, want)); }
        if let Some(st) = self.pool.stats() {
            let act = st.active_blocks.load(std::sync::atomic::Ordering::Relaxed);
            if act != livec { self.complaint = Some(format!("{}: stats().active_blocks = {} but {} blocks are handed out", what, act, livec)); }
            if st.is_at_capacity(self.cfg.total_blocks) != (livec >= self.cfg.total_blocks) { self.complaint = Some(format!("{}: is_at_capacity wrong with {} live blocks", what, livec)); }
            let _ = (st.utilization_percent(), st.success_rate());
        }
    }
}
impl Put for FcPut {
    fn alloc(&mut self, id: u64, size: usize, _align: usize) -> Option<Blk> {
        let said = self.pool.has_capacity(size);
        let r = self.pool.allocate(size);
        // (has_capacity = true does not promise success: free blocks filed under a smaller class do not serve a larger one)
        if self.cfg.enable_stats && !said && r.is_ok() {
            self.complaint = Some(format!("has_capacity({}) = false (request above the block size or every block handed out) but allocate({}) handed out memory", size, size)); }
        let mut a = r.ok()?;
        let blk = Blk { addr: a.as_ptr() as usize, usable: a.size(), mem: true };
        if a.as_mut_slice().len() != a.size() || a.as_slice().as_ptr() as usize != blk.addr || a.as_slice().len() != a.size() {
            self.complaint = Some(format!("FixedCapacityAllocation views disagree: size {} slice {}", a.size(), a.as_slice().len())); }
        self.h.insert(id, a);
        self.accounting("after allocate");
        Some(blk)
    }
    fn free(&mut self, id: u64) -> bool { self.h.remove(&id); self.accounting("after free"); true }
    fn window(&self) -> Option<usize> { Some(self.pool.total_capacity()) }
    fn must_refuse(&self, size: usize) -> bool { size > self.cfg.max_block_size }
    fn cfg_align(&self) -> usize { self.cfg.alignment }
    fn remaining(&self) -> Option<usize> { if self.cfg.enable_stats { Some(self.pool.available_capacity().min(self.cfg.max_block_size)) } else { None } }
    fn house(&mut self, _k: u64, live: &[Live]) -> HouseFx {
        self.accounting("accessors");
        for l in live { if let Some(a) = self.h.get(&l.id) { if a.as_ptr() as usize != l.addr || a.size() != l.len || a.as_slice().len() != l.len {
            self.complaint = Some(format!("FixedCapacityAllocation of block #{} reports ptr {:?} size {}", l.id, a.as_ptr(), a.size())); } } }
        HouseFx::default()
    }
    fn complaint(&mut self) -> Option<String> { self.complaint.take() }
}
impl Drop for FcPut { fn drop(&mut self) { self.h.clear(); } }
fn fc_config(preset: u64, mbs: usize, blocks: usize, align: usize, flags: u64) -> FixedCapacityPoolConfig {
    match preset {
        1 => FixedCapacityPoolConfig::default(),
        2 => FixedCapacityPoolConfig::small_objects(),
        3 => FixedCapacityPoolConfig::medium_objects(),
        4 => FixedCapacityPoolConfig::realtime(),
        5 => FixedCapacityPoolConfig::secure(),
        _ => FixedCapacityPoolConfig { max_block_size: mbs, total_blocks: blocks, alignment: align, enable_stats: flags & 1 != 0, eager_allocation: flags & 2 != 0, secure_clear: flags & 4 != 0 },
    }
}

// ---------------- BumpAllocator / BumpArena ----------------
use zipora::memory::bump::{BumpScope, BumpVec};
#[repr(align(64))] #[allow(dead_code)] struct Al64([u8; 64]);
enum BVec { U64(BumpVec<'static, u64>, usize), U8(BumpVec<'static, u8>, usize) }
struct BumpPut { scopes: Vec<BumpScope<'static>>, vecs: Vec<BVec>, arena: Option<Box<BumpArena>>, plain: Option<Box<BumpAllocator>>, cap: usize, complaint: Option<String> }
impl Put for BumpPut {
    fn alloc(&mut self, id: u64, size: usize, align: usize) -> Option<Blk> {
        // entry point by (size, align, id): a typed allocation where (size, align) is the layout of a type, a slice where
        // the size is a multiple of the element, a BumpVec on the plain allocator, raw bytes otherwise - all of them must
        // behave like alloc_bytes(size, align)
        let sel = id % 4;
        macro_rules! via { ($a:expr) => {{ let a = $a;
            if align == 8 && size > (1usize << 60) {
                // a slice whose byte size overflows: must be an error
                match a.alloc_slice::<u64>(size) { Ok(_) => { self.complaint = Some(format!("alloc_slice::<u64>({}) handed out memory although {} * 8 bytes overflow", size, size)); Err(()) } Err(_) => Err(()) } }
            else if size == 0 && align == 1 && sel == 1 { a.alloc::<()>().map(|p| p.cast::<u8>()).map_err(|_| ()) }
            else if size == 1 && align == 1 && sel == 1 { a.alloc::<u8>().map(|p| p.cast::<u8>()).map_err(|_| ()) }
            else if size == 2 && align == 2 { a.alloc::<u16>().map(|p| p.cast::<u8>()).map_err(|_| ()) }
            else if size == 4 && align == 4 && sel == 0 { a.alloc::<u32>().map(|p| p.cast::<u8>()).map_err(|_| ()) }
            else if size == 8 && align == 8 { a.alloc::<u64>().map(|p| p.cast::<u8>()).map_err(|_| ()) }
            else if size == 16 && align == std::mem::align_of::<u128>() { a.alloc::<u128>().map(|p| p.cast::<u8>()).map_err(|_| ()) }
            else if size == 3 && align == 1 { a.alloc::<[u8; 3]>().map(|p| p.cast::<u8>()).map_err(|_| ()) }
            else if size == 64 && align == 64 { a.alloc::<Al64>().map(|p| p.cast::<u8>()).map_err(|_| ()) }
            else if align == 4 && size % 4 == 0 { a.alloc_slice::<u32>(size / 4).map(|p| p.cast::<u8>()).map_err(|_| ()) }
            else if align == 2 && size % 2 == 0 { a.alloc_slice::<u16>(size / 2).map(|p| p.cast::<u8>()).map_err(|_| ()) }
            else if align == 8 && size % 8 == 0 && sel == 2 { a.alloc_slice::<u64>(size / 8).map(|p| p.cast::<u8>()).map_err(|_| ()) }
            else if align == 1 && sel == 3 { a.alloc_slice::<u8>(size).map(|p| p.cast::<u8>()).map_err(|_| ()) }
            else { a.alloc_bytes(size, align).map_err(|_| ()) } }}; }
        let p = if let Some(s) = self.scopes.last() { via!(s) }
                else if let Some(a) = &self.arena { via!(a) }
                else {
                    let a: &'static BumpAllocator = unsafe { &*(self.plain.as_ref().unwrap().as_ref() as *const BumpAllocator) };
                    let can = a.can_allocate(size, align);
                    let overflowing = align == 8 && size > (1usize << 60);
                    let r = if align == 8 && size % 8 == 0 && size > 0 && size <= (1 << 20) && sel == 3 {
                                // a BumpVec of size / 8 words: fill it, take one off, put it back
                                match BumpVec::<u64>::new_in(a, size / 8) { Err(_) => Err(()), Ok(mut v) => {
                                    let n = size / 8;
                                    for i in 0..n { if v.push(i as u64).is_err() { self.complaint = Some(format!("BumpVec of capacity {} refused push #{}", n, i)); } }
                                    if v.push(0).is_ok() { self.complaint = Some(format!("BumpVec of capacity {} accepted push #{}", n, n)); }
                                    if v.pop() != Some(n as u64 - 1) || v.push(7).is_err() || v.len() != n || v.capacity() != n || v.is_empty() { self.complaint = Some("BumpVec pop / push / len disagree".to_string()); }
                                    let p = NonNull::new(v.as_mut_slice().as_mut_ptr() as *mut u8).unwrap();
                                    self.vecs.push(BVec::U64(v, p.as_ptr() as usize)); Ok(p) } } }
                            else if align == 1 && size > 0 && size <= (1 << 20) && sel == 2 {
                                match BumpVec::<u8>::new_in(a, size) { Err(_) => Err(()), Ok(mut v) => {
                                    for i in 0..size { if v.push(i as u8).is_err() { self.complaint = Some(format!("BumpVec of capacity {} refused push #{}", size, i)); } }
                                    let p = NonNull::new(v.as_mut_slice().as_mut_ptr()).unwrap();
                                    self.vecs.push(BVec::U8(v, p.as_ptr() as usize)); Ok(p) } } }
                            else { via!(a) };
                    if size > 0 && align.is_power_of_two() && !overflowing && can != r.is_ok() {
                        self.complaint = Some(format!("can_allocate({}, {}) = {} but the allocation {}", size, align, can, if r.is_ok() { "succeeded" } else { "was refused" })); }
                    r
                }.ok()?;
        Some(Blk { addr: p.as_ptr() as usize, usable: size, mem: true })
    }
    fn free(&mut self, _id: u64) -> bool { true }
    fn supports_free(&self) -> bool { false }
    fn window(&self) -> Option<usize> { Some(self.cap) }
    fn must_refuse(&self, size: usize) -> bool { size > self.cap }
    fn scope_begin(&mut self) -> bool {
        match &self.arena {
            Some(a) => { let s: BumpScope<'_> = a.scope();
                         self.scopes.push(unsafe { std::mem::transmute::<_, BumpScope<'static>>(s) }); true }
            None => false,
        }
    }
    fn scope_end(&mut self) { self.scopes.pop(); }
    fn remaining(&self) -> Option<usize> {
        if let Some(s) = self.scopes.last() { Some(s.stats().remaining_bytes) }
        else if let Some(a) = &self.arena { Some(a.stats().remaining_bytes) }
        else { self.plain.as_ref().map(|a| a.remaining_bytes()) }
    }
    fn house(&mut self, k: u64, _live: &[Live]) -> HouseFx {
        let st = if let Some(s) = self.scopes.last() { Some(s.stats()) } else if let Some(a) = &self.arena { Some(a.stats()) } else { None };
        let (capacity, remaining, allocated) = match (&st, &self.plain) {
            (Some(st), _) => { let _ = (st.utilization(), st.is_nearly_full()); (st.capacity, st.remaining_bytes, st.allocated_bytes) }
            (None, Some(a)) => (a.capacity(), a.remaining_bytes(), a.allocated_bytes()),
            _ => return HouseFx::default() };
        if capacity != self.cap || remaining > self.cap || allocated > self.cap as u64 {
            self.complaint = Some(format!("statistics of a {}-byte bump allocator: capacity {} remaining {} allocated {}", self.cap, capacity, remaining, allocated)); }
        for v in &self.vecs { match v {
            BVec::U64(v, a) => { if v.as_slice().as_ptr() as usize != *a || v.len() != v.capacity() { self.complaint = Some("BumpVec moved or lost elements".to_string()); } }
            BVec::U8(v, a) => { if v.as_slice().as_ptr() as usize != *a || v.len() != v.capacity() { self.complaint = Some("BumpVec moved or lost elements".to_string()); } } } }
        if k % 3 == 2 && self.scopes.is_empty() { if let Some(a) = &self.plain {
            // reset: every block issued so far is given up, the allocator starts over
            self.vecs.clear();
            unsafe { a.reset(); }
            if a.remaining_bytes() != self.cap || a.allocated_bytes() != 0 { self.complaint = Some(format!("after reset: remaining {} allocated {}", a.remaining_bytes(), a.allocated_bytes())); }
            return HouseFx { forget_all: true, unmodelled: true };
        } }
        HouseFx::default()
    }
    fn complaint(&mut self) -> Option<String> { self.complaint.take() }
}
impl Drop for BumpPut { fn drop(&mut self) { self.vecs.clear(); while self.scopes.pop().is_some() {} } }

// ---------------- five-level family (offsets, memory not reachable through the API) ----------------
enum Five { L1(NoLockingPool), L2(MutexBasedPool), L3(LockFreePool), L4(ThreadLocalPool), L5(FixedCapacityPool), Ad(AdaptiveFiveLevelPool) }
struct FivePut { p: Five, cfg: FiveLevelPoolConfig, cap: usize, h: HashMap<u64, (MemOffset, usize)>, alias: bool, stats: Vec<(usize, usize, Option<usize>)>,
                 // AdaptiveFiveLevelPool::get_handle(): a cloneable handle on the same pool (levels 2..4); every other request goes through it
                 handle: Option<FiveLevelPoolHandle>, complaint: Option<String> }
fn off_value(o: &MemOffset) -> usize {
    let s = format!("{:?}", o);
    s.chars().filter(|c| c.is_ascii_digit()).collect::<String>().parse::<usize>().unwrap_or(usize::MAX)
}
impl Put for FivePut {
    fn alloc(&mut self, id: u64, size: usize, _align: usize) -> Option<Blk> {
        let r = match (&self.handle, id % 2) { (Some(h), 1) => h.clone().alloc(size), _ =>
                match &mut self.p { Five::L1(p) => p.alloc(size), Five::L2(p) => p.alloc(size), Five::L3(p) => p.alloc(size),
                                    Five::L4(p) => p.alloc(size), Five::L5(p) => p.alloc(size), Five::Ad(p) => p.alloc(size) } };
        let o = r.ok()?;
        let v = off_value(&o);
        // MemOffset is a plain value: a copy compares equal, two live blocks compare equal only at the same offset
        let copy = o.clone();
        if copy != o { self.complaint = Some("a copy of a MemOffset does not compare equal to it".to_string()); }
        for (q, _) in self.h.values() { if (*q == o) != (off_value(q) == v) { self.complaint = Some(format!("MemOffset equality disagrees with the offsets {} / {}", off_value(q), v)); } }
        self.h.insert(id, (o, size));
        Some(Blk { addr: v, usable: size, mem: false })
    }
    fn free(&mut self, id: u64) -> bool {
        let (o, size) = self.h.remove(&id).unwrap();
        match (&self.handle, id % 3) { (Some(h), 1) => h.free(o, size), _ =>
        match &mut self.p { Five::L1(p) => p.free(o, size), Five::L2(p) => p.free(o, size), Five::L3(p) => p.free(o, size),
                            Five::L4(p) => p.free(o, size), Five::L5(p) => p.free(o, size), Five::Ad(p) => p.free(o, size) } }.is_ok()
    }
    fn abs_range(&self) -> Option<(usize, usize)> { Some((0, self.cap)) }
    fn must_refuse(&self, size: usize) -> bool { size > self.cap }
    fn cfg_align(&self) -> usize { self.cfg.alignment }
    fn overlap_class(&self) -> Option<&'static str> { if self.alias { Some("five_tl_offset_alias") } else { None } }
    fn note(&mut self) {
        // stats(): used_memory, fragment_size; remaining_capacity() where the pool has it
        let (st, rem) = match &self.p { Five::L1(p) => (p.stats(), None), Five::L2(p) => (p.stats(), None), Five::L3(p) => (p.stats(), None),
                                        Five::L4(p) => (p.stats(), None), Five::L5(p) => (p.stats(), Some(p.remaining_capacity())), Five::Ad(p) => (p.stats(), None) };
        self.stats.push((st.used_memory, st.fragment_size, rem));
    }
    fn remaining(&self) -> Option<usize> { match &self.p { Five::L5(p) => Some(p.remaining_capacity()), _ => None } }
    fn house(&mut self, _k: u64, _live: &[Live]) -> HouseFx {
        let st = match &self.p { Five::L1(p) => p.stats(), Five::L2(p) => p.stats(), Five::L3(p) => p.stats(), Five::L4(p) => p.stats(), Five::L5(p) => p.stats(), Five::Ad(p) => p.stats() };
        let _ = (st.utilization(), st.fragmentation_ratio());
        if let Five::L5(p) = &self.p {
            if p.is_at_capacity() != (p.remaining_capacity() == 0) { self.complaint = Some("is_at_capacity() disagrees with remaining_capacity()".to_string()); }
            if p.remaining_capacity() > self.cap { self.complaint = Some(format!("remaining_capacity() = {} of {}", p.remaining_capacity(), self.cap)); }
        }
        if let Some(h) = &self.handle { let hs = h.stats(); if hs.used_memory != st.used_memory || hs.fragment_size != st.fragment_size {
            self.complaint = Some(format!("the handle reports used_memory {} / fragment_size {}, the pool {} / {}", hs.used_memory, hs.fragment_size, st.used_memory, st.fragment_size)); } }
        HouseFx::default()
    }
    fn complaint(&mut self) -> Option<String> { self.complaint.take() }
}
fn five_config(preset: u64, align: usize, cap: usize, fast: usize, arena: usize, fixed: usize, flags: u64) -> FiveLevelPoolConfig {
    let mut c = match preset {
        1 => FiveLevelPoolConfig::default(),
        2 => FiveLevelPoolConfig::performance_optimized(),
        3 => FiveLevelPoolConfig::memory_optimized(),
        4 => FiveLevelPoolConfig::realtime(),
        _ => FiveLevelPoolConfig { max_fast_block_size: fast, alignment: align, initial_capacity: cap, arena_size: arena,
                                   fixed_capacity: if fixed > 0 { Some(fixed) } else { None }, ..FiveLevelPoolConfig::memory_optimized() },
    };
    // the fields no preset combination covers ("flags"; absent = 0 = as before): cache / NUMA / huge-page switches, skip-list depth
    if flags & 1 != 0 { c.enable_cache_alignment = !c.enable_cache_alignment; }
    if flags & 2 != 0 { c.cache_config = if c.cache_config.is_some() { None } else { Some(zipora::memory::CacheLayoutConfig::random()) }; }
    if flags & 4 != 0 { c.enable_numa_awareness = !c.enable_numa_awareness; }
    if flags & 8 != 0 { c.enable_huge_pages = !c.enable_huge_pages; c.huge_page_threshold = 1; }
    if flags & 16 != 0 { c.max_skip_levels = (flags >> 8) as usize % 3; }
    c
}

// ---------------- ThreadLocalMemoryPool ----------------
struct TlPut { h: HashMap<u64, ThreadLocalAllocation>, pool: Arc<ThreadLocalMemoryPool>,
               // a second pool object on the same thread: it shares the thread's cache with the first one
               pool2: Option<Arc<ThreadLocalMemoryPool>>, complaint: Option<String> }
impl Put for TlPut {
    fn alloc(&mut self, id: u64, size: usize, _align: usize) -> Option<Blk> {
        let pool = match (&self.pool2, id % 2) { (Some(p), 1) => p, _ => &self.pool };
        let mut a = pool.allocate(size).ok()?;
        let blk = Blk { addr: a.as_ptr() as usize, usable: a.size(), mem: true };
        if a.as_mut_slice().len() != a.size() || a.as_slice().as_ptr() as usize != blk.addr || a.as_slice().len() != a.size() {
            self.complaint = Some(format!("ThreadLocalAllocation views disagree: size {} slice {}", a.size(), a.as_slice().len())); }
        self.h.insert(id, a);
        Some(blk)
    }
    fn free(&mut self, id: u64) -> bool { self.h.remove(&id); true }
    fn cfg_align(&self) -> usize { 8 }
    fn house(&mut self, k: u64, live: &[Live]) -> HouseFx {
        match k % 3 {
            0 => { for p in std::iter::once(&self.pool).chain(self.pool2.iter()) {
                       let _ = p.memory_usage(); if let Some(st) = p.stats() { let _ = (st.hit_ratio(), st.locality_score()); } } }
            1 => { for l in live { if let Some(a) = self.h.get(&l.id) { if a.as_ptr() as usize != l.addr || a.size() != l.len || a.as_slice().len() != l.len {
                       self.complaint = Some(format!("ThreadLocalAllocation of block #{} reports ptr {:?} size {}", l.id, a.as_ptr(), a.size())); } } } }
            _ => { // "clear thread-local caches (for cleanup)" while blocks are live: they must stay valid and disjoint from later ones
                   self.pool.clear_caches();
                   return HouseFx { forget_all: false, unmodelled: true }; }
        }
        HouseFx::default()
    }
    fn complaint(&mut self) -> Option<String> { self.complaint.take() }
}
impl Drop for TlPut { fn drop(&mut self) { self.h.clear(); self.pool.clear_caches(); } }

// ---------------- SecureMemoryPool ----------------
struct SecPut { h: HashMap<u64, SecurePooledPtr>, pool: Option<Arc<SecureMemoryPool>>, chunk: usize, align: usize, bulk: bool,
                // model comparison: chunk data address -> serial, observation of the current op, of all ops
                serials: HashMap<usize, u64>, pending: Vec<Option<i64>>, rec: Vec<Vec<Option<i64>>>,
                // a copy of the record of the chunk given back by the most recent guard drop (for the double-free op)
                stale: Option<(usize, zipora::memory::secure_pool::SecureChunk)>,
                unmodelled: bool, complaint: Option<String> }
fn sec_config(c: &Value) -> SecurePoolConfig {
    let mut cfg = match u(c, "preset") { 1 => SecurePoolConfig::small_secure(), 2 => SecurePoolConfig::medium_secure(), 3 => SecurePoolConfig::large_secure(),
        4 => SecurePoolConfig::default(),   // chunk size 0, alignment 0: the constructor must refuse it
        _ => SecurePoolConfig::new(u(c, "chunk") as usize, u(c, "maxchunks") as usize, u(c, "align") as usize).with_local_cache_size(u(c, "lcache") as usize).with_zero_on_alloc(u(c, "flags") & 1 != 0) };
    // the builder methods on top of the preset / constructor ("opts" bit mask; absent = 0 = the configuration as before)
    let o = u(c, "opts");
    if o & 1 != 0 { cfg = cfg.with_zero_on_free(false); }
    if o & 2 != 0 { cfg = cfg.with_simd_ops(false); }
    if o & 4 != 0 { cfg = cfg.with_simd_threshold(1); }
    if o & 8 != 0 { cfg = cfg.with_simd_threshold(4096); }
    if o & 16 != 0 { cfg = cfg.with_cache_alignment(false); }
    if o & 32 != 0 { cfg = cfg.with_cache_config(None); }
    if o & 64 != 0 { cfg = cfg.with_access_pattern([zipora::memory::AccessPattern::Sequential, zipora::memory::AccessPattern::Random, zipora::memory::AccessPattern::WriteHeavy,
                                                   zipora::memory::AccessPattern::ReadHeavy, zipora::memory::AccessPattern::Mixed][((o >> 16) % 5) as usize]); }
    if o & 128 != 0 { cfg = cfg.with_numa_awareness(false); }
    if o & 256 != 0 { cfg = cfg.with_hot_cold_separation(false).with_hot_data_threshold(1); }
    if o & 512 != 0 { cfg = cfg.with_huge_pages(true).with_huge_page_threshold(1); }
    if o & 1024 != 0 { cfg = cfg.with_guard_pages(true); }
    if o & 2048 != 0 { cfg = cfg.with_batch_size(1).with_prefetch_distance(1); }
    if o & 4096 != 0 { cfg = cfg.with_zero_on_alloc(true); }
    if o & 8192 != 0 { let a = cfg.alignment; cfg = cfg.with_alignment(a.max(1) * 2); }
    cfg
}
impl SecPut {
    fn serial(&mut self, addr: usize) -> i64 { let n = self.serials.len() as u64; *self.serials.entry(addr).or_insert(n) as i64 }
    fn known(&self, addr: usize) -> i64 { self.serials.get(&addr).map(|&v| v as i64).unwrap_or(-1) }
    /// the whole bookkeeping state through the inspectors: local cache and shared stack (top first), active table size
    fn dump(&self) -> Vec<Option<i64>> {
        let mut v = vec![];
        let Some(pool) = &self.pool else { return v };
        let cache = pool.verif_local_cache_chunks();
        v.push(Some(cache.len() as i64));
        for a in cache.iter().rev() { v.push(Some(self.known(*a))); }
        let mut stack = vec![];
        let mut node = pool.verif_stack_head();
        while node != 0 && stack.len() < 100000 { let (next, data) = unsafe { pool.verif_stack_node(node) }; stack.push(data); node = next; }
        v.push(Some(stack.len() as i64));
        for a in &stack { v.push(Some(self.known(*a))); }
        v.push(Some(pool.verif_active_len() as i64));
        v
    }
    fn views(&mut self, p: &mut SecurePooledPtr) {
        let addr = p.as_ptr() as usize;
        if p.as_mut_slice().len() != p.size() || p.as_slice().len() != p.size() || p.as_slice().as_ptr() as usize != addr || p.as_non_null().map(|q| q.as_ptr() as usize) != Some(addr) {
            self.complaint = Some(format!("SecurePooledPtr views disagree: size {} slice {}", p.size(), p.as_slice().len())); }
        if let Err(e) = p.validate() { self.complaint = Some(format!("validate() of a block just handed out: {}", e)); }
    }
}
impl Put for SecPut {
    fn alloc(&mut self, id: u64, _size: usize, _align: usize) -> Option<Blk> {
        let pool = self.pool.clone()?;
        let r = if self.bulk && id % 4 == 0 { pool.allocate_bulk_with_prefetch(&[self.chunk]).ok().and_then(|mut v| v.pop()) }
                else if id % 4 == 1 { pool.allocate_with_hint(true).ok() } else { pool.allocate().ok() };
        let mut p = match r { Some(p) => p, None => { self.pending = vec![None, None]; return None; } };
        let blk = Blk { addr: p.as_ptr() as usize, usable: p.size(), mem: true };
        self.views(&mut p);
        let ser = self.serial(blk.addr);
        self.pending = vec![Some(ser), Some(p.generation() as i64)];
        self.pending.extend(self.dump());
        self.h.insert(id, p);
        Some(blk)
    }
    /// allocate_bulk_with_prefetch of n chunk sizes (a size 0 in the request stands for a size that is not the chunk
    /// size: the whole request must then be refused and everything handed out before goes back to the pool)
    fn alloc_bulk(&mut self, ids: &[u64], sizes: &[usize]) -> Option<Option<Vec<Blk>>> {
        let pool = match self.pool.clone() { Some(p) => p, None => return Some(None) };
        if sizes.len() > 1 { self.unmodelled = true; }
        let req: Vec<usize> = sizes.iter().map(|&s| if s == 0 { self.chunk + 1 } else { self.chunk }).collect();
        let wrong = sizes.iter().any(|&s| s == 0);
        let v = match pool.allocate_bulk_with_prefetch(&req) { Ok(v) => v, Err(_) => { self.pending = vec![None, None]; return Some(None); } };
        if wrong { self.complaint = Some(format!("allocate_bulk_with_prefetch accepted a size that is not the chunk size {}", self.chunk)); }
        let mut out = vec![];
        for (i, mut p) in v.into_iter().enumerate() {
            out.push(Blk { addr: p.as_ptr() as usize, usable: p.size(), mem: true });
            self.views(&mut p);
            let ser = self.serial(p.as_ptr() as usize);
            self.pending = vec![Some(ser), Some(p.generation() as i64)];
            if let Some(&id) = ids.get(i) { self.h.insert(id, p); }
        }
        self.pending.extend(self.dump());
        Some(Some(out))
    }
    fn free(&mut self, id: u64) -> bool {
        let before = self.pool.as_ref().map(|p| { let s = p.stats(); (s.double_free_detected, s.corruption_detected) });
        if let Some(g) = self.h.remove(&id) {
            self.stale = SecureMemoryPool::verif_chunk_copy(&g).map(|c| (g.as_ptr() as usize, c));
            drop(g);
        }
        let after = self.pool.as_ref().map(|p| { let s = p.stats(); (s.double_free_detected, s.corruption_detected) });
        if let (Some(b), Some(a)) = (before, after) {
            if a.0 != b.0 { self.complaint = Some("the pool counted the release of a live block as a double free (the block is not returned for reuse)".to_string()); }
            if a.1 != b.1 { self.complaint = Some("the pool counted the release of a live block as a corrupted chunk".to_string()); }
        }
        self.pending = vec![Some(0)];
        self.pending.extend(self.dump());
        true
    }
    /// a second free of the chunk the most recent guard drop gave back (while it has not been handed out again):
    /// deallocate_internal must report it; Some(accepted)
    fn foreign(&mut self, _kind: u64, _size: usize, _first: Option<usize>, _lowest: Option<usize>) -> Option<bool> {
        let pool = self.pool.clone()?;
        let live_again = match &self.stale { Some((a, _)) => self.h.values().any(|g| g.as_ptr() as usize == *a), None => return None };
        if live_again { return None; }
        let (_, copy) = self.stale.take().unwrap();
        let acc = pool.verif_deallocate(copy).is_ok();
        self.pending = vec![if acc { Some(0) } else { None }];
        self.pending.extend(self.dump());
        Some(acc)
    }
    fn cfg_align(&self) -> usize { self.align }
    fn effective(&self, _size: usize) -> usize { self.chunk }
    fn note(&mut self) { let p = std::mem::take(&mut self.pending); self.rec.push(p); }
    fn house(&mut self, k: u64, live: &[Live]) -> HouseFx {
        let Some(pool) = self.pool.clone() else { return HouseFx::default() };
        match k % 5 {
            0 => { // integrity checks of the pool and of every guard: nothing is corrupted in a history of legal operations
                   if let Err(e) = pool.validate() { self.complaint = Some(format!("pool.validate() with {} live blocks: {}", live.len(), e)); }
                   for l in live { if let Some(g) = self.h.get(&l.id) {
                       if let Err(e) = g.validate() { self.complaint = Some(format!("validate() of live block #{}: {}", l.id, e)); }
                       if g.as_ptr() as usize != l.addr || g.size() != l.len || g.as_slice().len() != l.len { self.complaint = Some(format!("SecurePooledPtr of block #{} reports ptr {:?} size {}", l.id, g.as_ptr(), g.size())); } } } }
            1 => { let st = pool.stats(); let _ = (st.cache_hit_ratio, pool.config().chunk_size);
                   // verify_zeroed_simd by its definition, on a live (pattern-filled) block and on zeros
                   if let Some(l) = live.first() { if let Some(g) = self.h.get(&l.id) {
                       let want = g.as_slice().iter().all(|&b| b == 0);
                       if pool.verify_zeroed_simd(g.as_slice()).ok() != Some(want) { self.complaint = Some(format!("verify_zeroed_simd on block #{} is not {}", l.id, want)); } } }
                   if pool.verify_zeroed_simd(&vec![0u8; (k as usize / 5) % 300]).ok() != Some(true) { self.complaint = Some("verify_zeroed_simd(zeros) is not true".to_string()); } }
            2 => { // clear(): releases the pooled chunks; the live blocks stay live
                   if let Err(e) = pool.clear() { self.complaint = Some(format!("clear(): {}", e)); }
                   return HouseFx { forget_all: false, unmodelled: true }; }
            3 => { let _ = zipora::memory::get_global_secure_pool_stats(); let _ = pool.config().alignment; }
            _ => { // the pool object goes away while guards are alive: they release their chunks themselves later
                   self.pool = None; self.stale = None;
                   return HouseFx { forget_all: false, unmodelled: true }; }
        }
        HouseFx::default()
    }
    fn complaint(&mut self) -> Option<String> { self.complaint.take() }
}
impl Drop for SecPut { fn drop(&mut self) { self.h.clear(); } }

// ---------------- MemoryPool / PooledBuffer / PooledVec ----------------
#[derive(Clone, Copy)] #[repr(align(64))] #[allow(dead_code)] struct Line64([u8; 64]);
/// PooledVec over the element types of the "ty" field: 0 u64, 1 u8, 2 [u8; 3], 3 [u64; 200] (1600 bytes: medium pool),
/// 4 [u8; 70000] (large pool), 5 () (zero-sized), 6 a 64-byte-aligned element, 7 i16
enum PV { A(PooledVec<u64>), B(PooledVec<u8>), C(PooledVec<[u8; 3]>), D(PooledVec<[u64; 200]>), E(PooledVec<[u8; 70000]>), F(PooledVec<()>), G(PooledVec<Line64>), H(PooledVec<i16>) }
enum BasicH { Raw(NonNull<u8>), Buf(PooledBuffer), Vecu(PV) }
struct BasicPut { h: HashMap<u64, BasicH>, pool: Option<MemoryPool>, chunk: usize, align: usize, mode: u64, ty: u64,
                  // model comparison (MemoryPool): chunk address -> serial, observation of the current op, of all ops
                  serials: HashMap<usize, u64>, next: u64, pending: Vec<Option<i64>>, rec: Vec<Vec<Option<i64>>>, complaint: Option<String> }
fn pv_elem(ty: u64) -> (usize, usize) { match ty { 0 => (8, 8), 1 => (1, 1), 2 => (3, 1), 3 => (1600, 8), 4 => (70000, 1), 5 => (0, 1), 6 => (64, 64), _ => (2, 2) } }
impl Put for BasicPut {
    fn alloc(&mut self, id: u64, size: usize, _align: usize) -> Option<Blk> {
        match self.mode {
            0 => { let pool = self.pool.as_ref().unwrap();
                   let hits = pool.stats().pool_hits;
                   let p = match pool.allocate() { Ok(p) => p, Err(_) => { self.pending = vec![None, None]; return None; } };
                   let hit = pool.stats().pool_hits != hits;
                   let addr = p.as_ptr() as usize;
                   let ser = if hit { self.serials.get(&addr).map(|&v| v as i64).unwrap_or(-1) } else { let n = self.next; self.next += 1; self.serials.insert(addr, n); n as i64 };
                   self.pending = vec![Some(hit as i64), Some(ser)];
                   self.h.insert(id, BasicH::Raw(p));
                   Some(Blk { addr, usable: self.chunk, mem: true }) }
            1 => { let mut b = PooledBuffer::new(size).ok()?;
                   let blk = Blk { addr: b.as_mut_slice().as_mut_ptr() as usize, usable: b.len(), mem: true };
                   if b.len() != size || b.as_slice().len() != size || b.is_empty() != (size == 0) || b.as_slice().as_ptr() as usize != blk.addr {
                       self.complaint = Some(format!("PooledBuffer::new({}) reports len {} slice {}", size, b.len(), b.as_slice().len())); }
                   self.h.insert(id, BasicH::Buf(b)); Some(blk) }
            _ => { // a vector of the case's element type: filled through push up to its capacity (at most 64 KiB of pushes), one
                   // more push must be refused; the block the oracle tracks is capacity * element size at as_slice()
                   let (esz, _) = pv_elem(self.ty);
                   macro_rules! mk { ($var:ident, $t:ty, $val:expr) => {{
                       let mut v = PooledVec::<$t>::new().ok()?;
                       let cap = v.capacity();
                       let n = if esz == 0 { 100 } else { cap.min(65536 / esz.max(1)).max(1).min(cap) };
                       for i in 0..n { if v.push($val).is_err() { self.complaint = Some(format!("PooledVec of capacity {} refused push #{}", cap, i)); break; } }
                       if n == cap && esz != 0 && v.push($val).is_ok() { self.complaint = Some(format!("PooledVec of capacity {} accepted push #{}", cap, cap)); }
                       if esz != 0 && v.len() != n { self.complaint = Some(format!("PooledVec len {} after {} pushes", v.len(), n)); }
                       if v.is_empty() != (v.len() == 0) || v.as_slice().len() != v.len() { self.complaint = Some("PooledVec len / is_empty / as_slice disagree".to_string()); }
                       let blk = Blk { addr: v.as_slice().as_ptr() as usize, usable: if esz == 0 { 0 } else { cap * esz }, mem: true };
                       self.h.insert(id, BasicH::Vecu(PV::$var(v))); Some(blk) }}; }
                   match self.ty { 0 => mk!(A, u64, 7u64), 1 => mk!(B, u8, 7u8), 2 => mk!(C, [u8; 3], [1, 2, 3]), 3 => mk!(D, [u64; 200], [9u64; 200]),
                                   4 => mk!(E, [u8; 70000], [5u8; 70000]), 5 => mk!(F, (), ()), 6 => mk!(G, Line64, Line64([3; 64])), _ => mk!(H, i16, -2i16) } }
        }
    }
    fn free(&mut self, id: u64) -> bool {
        match self.h.remove(&id).unwrap() {
            BasicH::Raw(p) => { let pool = self.pool.as_ref().unwrap();
                                let before = pool.stats().chunks;
                                let ok = pool.deallocate(p).is_ok();
                                let kept = pool.stats().chunks > before;
                                if !kept { self.serials.remove(&(p.as_ptr() as usize)); }
                                self.pending = vec![Some(kept as i64)];
                                ok }
            _ => true }
    }
    fn cfg_align(&self) -> usize { if self.mode == 2 { pv_elem(self.ty).1.max(8) } else { self.align } }
    fn must_refuse(&self, size: usize) -> bool { self.mode == 1 && size > PoolConfig::large().chunk_size }
    fn effective(&self, size: usize) -> usize { match self.mode { 0 => self.chunk, 1 => size, _ => pv_elem(self.ty).0 } }
    fn note(&mut self) { let p = std::mem::take(&mut self.pending); self.rec.push(p); }
    fn house(&mut self, k: u64, _live: &[Live]) -> HouseFx {
        let _ = zipora::memory::pool::get_global_pool_stats();
        let _ = zipora::memory::pool::init_global_pools(1 + k as usize, 1 << 20);
        if let Some(pool) = &self.pool {
            let st = pool.stats();
            if st.chunks > pool.config().max_chunks { self.complaint = Some(format!("{} chunks pooled, max_chunks = {}", st.chunks, pool.config().max_chunks)); }
            if k % 2 == 1 {
                // clear(): releases the pooled chunks; the live ones stay live
                if let Err(e) = pool.clear() { self.complaint = Some(format!("clear(): {}", e)); }
                self.serials.clear();
                return HouseFx { forget_all: false, unmodelled: true };
            }
        }
        HouseFx::default()
    }
    fn complaint(&mut self) -> Option<String> { self.complaint.take() }
}
impl Drop for BasicPut { fn drop(&mut self) {
    let hs: Vec<u64> = self.h.keys().copied().collect();
    for id in hs { self.free(id); }
} }

// ---------------- TieredMemoryAllocator / MemoryMappedAllocator / NUMA / hugepages ----------------
struct TieredPut { h: HashMap<u64, TieredAllocation>, a: TieredMemoryAllocator, global: bool,
                   // model comparison: chunk address -> (creating pool, serial), observation of the current op, of all ops
                   chunks: HashMap<usize, (u64, u64)>, serial: u64, pending: Vec<Option<i64>>, rec: Vec<Vec<Option<i64>>>, complaint: Option<String> }
impl TieredPut {
    /// (alloc_count, dealloc_count, pool_hits, chunks kept) of pool 0 (small) and pools 1..5 (medium classes of this thread)
    fn pool_counts(&self) -> Vec<(u64, u64, u64, usize)> {
        let st = self.a.stats();
        std::iter::once(&st.small_pool_stats).chain(st.medium_pool_stats.iter()).map(|p| (p.alloc_count, p.dealloc_count, p.pool_hits, p.chunks)).collect()
    }
    fn views(&mut self, t: &mut TieredAllocation, size: usize) {
        let addr = t.as_ptr::<u8>() as usize;
        if t.size() != size || t.as_mut_slice().len() != size || t.as_slice().len() != size || t.as_slice().as_ptr() as usize != addr {
            self.complaint = Some(format!("TieredAllocation for a request of {} bytes reports size {} slice {}", size, t.size(), t.as_slice().len())); }
    }
}
impl Put for TieredPut {
    fn alloc(&mut self, id: u64, size: usize, _align: usize) -> Option<Blk> {
        if self.global {
            let mut t = zipora::memory::tiered_allocate(size).ok()?;
            let blk = Blk { addr: t.as_ptr::<u8>() as usize, usable: t.size(), mem: true };
            self.views(&mut t, size);
            self.h.insert(id, t);
            return Some(blk);
        }
        let before = self.pool_counts();
        let r = self.a.allocate(size);
        let after = self.pool_counts();
        let mut t = match r { Ok(t) => t, Err(_) => { self.pending = vec![None; 5]; return None; } };
        let addr = t.as_ptr::<u8>() as usize;
        let tier = match &t { TieredAllocation::Small(..) => 0i64, TieredAllocation::Medium(..) => 1, TieredAllocation::Large(..) => 2, _ => 3 };
        self.pending = if tier >= 2 { vec![Some(tier), None, None, None, None] } else {
            let j = (0..before.len().min(after.len())).find(|&j| after[j].0 != before[j].0);
            match j { None => vec![Some(tier), Some(-1), None, None, None],
                Some(j) => { let hit = after[j].2 != before[j].2;
                    let (creator, serial) = if hit { self.chunks.get(&addr).copied().unwrap_or((99, 99)) }
                                            else { let e = (j as u64, self.serial); self.serial += 1; self.chunks.insert(addr, e); e };
                    vec![Some(tier), Some(j as i64), Some(hit as i64), Some(creator as i64), Some(serial as i64)] } } };
        let blk = Blk { addr, usable: t.size(), mem: true };
        self.views(&mut t, size);
        self.h.insert(id, t);
        Some(blk)
    }
    fn free(&mut self, id: u64) -> bool {
        let t = self.h.remove(&id).unwrap();
        if self.global { return zipora::memory::tiered_deallocate(t).is_ok(); }
        let addr = t.as_ptr::<u8>() as usize;
        let pooled = matches!(&t, TieredAllocation::Small(..) | TieredAllocation::Medium(..));
        let before = self.pool_counts();
        let ok = self.a.deallocate(t).is_ok();
        let after = self.pool_counts();
        self.pending = if !pooled { vec![Some(9), Some(0)] } else {
            match (0..before.len().min(after.len())).find(|&j| after[j].1 != before[j].1) {
                None => vec![Some(-1), Some(0)],
                Some(j) => { let kept = after[j].3 > before[j].3; if !kept { self.chunks.remove(&addr); } vec![Some(j as i64), Some(kept as i64)] } } };
        ok
    }
    fn cfg_align(&self) -> usize { 8 }
    fn must_refuse(&self, size: usize) -> bool { size > (1usize << 47) }
    fn note(&mut self) { let p = std::mem::take(&mut self.pending); self.rec.push(p); }
    fn house(&mut self, k: u64, live: &[Live]) -> HouseFx {
        match k % 3 {
            0 => { let _ = self.a.get_allocation_pattern(); if let Err(e) = self.a.optimize_for_pattern() { self.complaint = Some(format!("optimize_for_pattern(): {}", e)); } }
            1 => { let st = if self.global { zipora::memory::get_tiered_stats() } else { self.a.stats() }; let _ = (st.small_allocations, st.mmap_stats.cached_regions); }
            _ => { for l in live { if let Some(t) = self.h.get(&l.id) { if t.as_ptr::<u8>() as usize != l.addr || t.size() != l.len || t.as_slice().len() != l.len {
                       self.complaint = Some(format!("TieredAllocation of block #{} reports ptr {:?} size {}", l.id, t.as_ptr::<u8>(), t.size())); } } } }
        }
        HouseFx::default()
    }
    fn complaint(&mut self) -> Option<String> { self.complaint.take() }
}
impl Drop for TieredPut { fn drop(&mut self) { let hs: Vec<u64> = self.h.keys().copied().collect(); for id in hs { self.free(id); } } }

struct MmapPut { h: HashMap<u64, MmapAllocation>, a: MemoryMappedAllocator, min: usize,
                 // model comparison: region address -> serial, observation of the current op, of all ops
                 serials: HashMap<usize, u64>, next: u64, pending: Vec<Option<i64>>, rec: Vec<Vec<Option<i64>>>, complaint: Option<String> }
impl Put for MmapPut {
    fn alloc(&mut self, id: u64, size: usize, _align: usize) -> Option<Blk> {
        let hits = self.a.stats().cache_hits;
        let should = self.a.should_use_mmap(size);
        let r = self.a.allocate(size);
        if !should && r.is_ok() { self.complaint = Some(format!("should_use_mmap({}) = false (below the minimum of {}) but allocate handed out memory", size, self.min)); }
        let mut m = match r { Ok(m) => m, Err(_) => { self.pending = vec![None; 3]; return None; } };
        let hit = self.a.stats().cache_hits != hits;
        let addr = m.as_mut_ptr() as usize;
        let ser = if hit { self.serials.get(&addr).map(|&v| v as i64).unwrap_or(-1) } else { let n = self.next; self.next += 1; self.serials.insert(addr, n); n as i64 };
        let page = unsafe { libc::sysconf(libc::_SC_PAGESIZE) } as usize;
        // the usable size is the request rounded up to whole pages (the mapping), the guard exposes the requested size
        self.pending = vec![Some(hit as i64), Some(ser), Some((size.div_ceil(page) * page) as i64)];
        // (only actual_size >= size is demanded here; that it is the page rounding is the model's business)
        if m.actual_size() < size || m.as_ptr::<u64>() as usize != addr || m.as_slice().len() != size
           || m.as_mut_slice().len() != size || m.as_slice().as_ptr() as usize != addr {
            self.complaint = Some(format!("MmapAllocation for {} bytes reports size {} actual_size {} (page {})", size, m.size(), m.actual_size(), page)); }
        let blk = Blk { addr, usable: m.size(), mem: true };
        self.h.insert(id, m);
        Some(blk)
    }
    fn free(&mut self, id: u64) -> bool {
        let m = self.h.remove(&id).unwrap();
        let addr = m.as_slice().as_ptr() as usize;
        let before = self.a.stats().cached_regions;
        let ok = self.a.deallocate(m).is_ok();
        let kept = self.a.stats().cached_regions > before;
        if !kept { self.serials.remove(&addr); }
        self.pending = vec![Some(kept as i64)];
        ok
    }
    fn cfg_align(&self) -> usize { 4096 }
    fn must_refuse(&self, size: usize) -> bool { size > (1usize << 47) }
    fn note(&mut self) { let p = std::mem::take(&mut self.pending); self.rec.push(p); }
    fn house(&mut self, k: u64, _live: &[Live]) -> HouseFx {
        let st = self.a.stats();
        if st.cache_hits + st.cache_misses < self.next { self.complaint = Some("fewer cache lookups counted than regions mapped".to_string()); }
        if k % 2 == 1 {
            // clear_cache(): unmaps the cached regions; the live ones stay mapped
            if let Err(e) = self.a.clear_cache() { self.complaint = Some(format!("clear_cache(): {}", e)); }
            if self.a.stats().cached_regions != 0 { self.complaint = Some("regions still cached after clear_cache()".to_string()); }
            return HouseFx { forget_all: false, unmodelled: true };
        }
        HouseFx::default()
    }
    fn complaint(&mut self) -> Option<String> { self.complaint.take() }
}
impl Drop for MmapPut { fn drop(&mut self) { let hs: Vec<u64> = self.h.keys().copied().collect(); for id in hs { self.free(id); } } }

struct NumaPut { h: HashMap<u64, (NonNull<u8>, usize, usize)>, pools: bool, complaint: Option<String> }
impl Put for NumaPut {
    fn alloc(&mut self, id: u64, size: usize, align: usize) -> Option<Blk> {
        let p = numa_alloc_aligned(size, align, 0).ok()?;
        self.h.insert(id, (p, size, align));
        Some(Blk { addr: p.as_ptr() as usize, usable: size, mem: true })
    }
    fn free(&mut self, id: u64) -> bool { let (p, s, a) = self.h.remove(&id).unwrap(); numa_dealloc(p, s, a, 0).is_ok() }
    fn cfg_align(&self) -> usize { 64 }
    fn must_refuse(&self, size: usize) -> bool { size > (1usize << 47) }
    fn house(&mut self, k: u64, _live: &[Live]) -> HouseFx {
        match k % 3 {
            0 => { let st = zipora::memory::get_numa_stats(); for p in st.pools.values() { let _ = (p.hit_rate(), p.total_cached()); }
                   if st.node_count == 0 { self.complaint = Some("get_numa_stats(): no NUMA node".to_string()); } }
            1 => { let n = zipora::memory::get_optimal_numa_node(); let st = zipora::memory::get_numa_stats();
                   if n >= st.node_count.max(1) { self.complaint = Some(format!("get_optimal_numa_node() = {} of {} nodes", n, st.node_count)); }
                   let _ = zipora::memory::set_current_numa_node(0);
                   if zipora::memory::set_current_numa_node(st.node_count + 5).is_ok() { self.complaint = Some("set_current_numa_node accepted a node that does not exist".to_string()); } }
            _ => { if self.pools { let _ = init_numa_pools(); } }
        }
        HouseFx::default()
    }
    fn complaint(&mut self) -> Option<String> { self.complaint.take() }
}
impl Drop for NumaPut { fn drop(&mut self) {
    let hs: Vec<u64> = self.h.keys().copied().collect(); for id in hs { self.free(id); }
    if self.pools { let _ = clear_numa_pools(); }
} }

struct HugePut { h: HashMap<u64, HugePage>, a: HugePageAllocator, complaint: Option<String> }
impl Put for HugePut {
    fn alloc(&mut self, id: u64, size: usize, _align: usize) -> Option<Blk> {
        // entry points by id: the allocator, HugePage::new_2mb / new_1gb / new with an unsupported page size
        let should = self.a.should_use_hugepages(size);
        let r = match id % 4 { 0 => self.a.allocate(size), 1 => HugePage::new_2mb(size), 2 => HugePage::new_1gb(size), _ => HugePage::new(size, 4096) };
        if id % 4 == 0 && !should && r.is_ok() { self.complaint = Some(format!("should_use_hugepages({}) = false but allocate handed out memory", size)); }
        if id % 4 == 3 && r.is_ok() { self.complaint = Some("HugePage::new accepted a page size of 4096".to_string()); }
        let mut p = r.ok()?;
        let blk = Blk { addr: p.as_mut_slice().as_mut_ptr() as usize, usable: p.size(), mem: true };
        if p.as_slice().len() != p.size() || p.size() != size || blk.addr % p.page_size() != 0 { self.complaint = Some(format!("HugePage for {} bytes reports size {} page_size {}", size, p.size(), p.page_size())); }
        self.h.insert(id, p);
        Some(blk)
    }
    fn free(&mut self, id: u64) -> bool { self.h.remove(&id); true }
    fn cfg_align(&self) -> usize { 4096 }
    fn must_refuse(&self, size: usize) -> bool { size > (1usize << 47) }
    fn house(&mut self, _k: u64, live: &[Live]) -> HouseFx {
        use zipora::memory::hugepage::{get_hugepage_count, get_hugepage_info, hugepages_available, init_hugepage_support, HUGEPAGE_SIZE_1GB, HUGEPAGE_SIZE_2MB};
        let _ = (get_hugepage_info(HUGEPAGE_SIZE_2MB).is_ok(), get_hugepage_info(HUGEPAGE_SIZE_1GB).is_ok(), init_hugepage_support().is_ok(), hugepages_available());
        if get_hugepage_info(12345).is_ok() { self.complaint = Some("get_hugepage_info accepted a page size of 12345".to_string()); }
        if live.is_empty() && self.h.is_empty() && get_hugepage_count() != 0 { self.complaint = Some(format!("get_hugepage_count() = {} with no huge page allocated", get_hugepage_count())); }
        HouseFx::default()
    }
    fn complaint(&mut self) -> Option<String> { self.complaint.take() }
}

// ------------------------------------------------------------------------------------------------
// one case
// ------------------------------------------------------------------------------------------------
fn u(v: &Value, k: &str) -> u64 { v[k].as_u64().unwrap_or(0) }
fn ops_of(c: &Value) -> Vec<Vec<u64>> {
    c["ops"].as_array().map(|a| a.iter().map(|o| o.as_array().map(|x| x.iter().map(|y| y.as_u64().unwrap_or(0)).collect()).unwrap_or_default()).collect()).unwrap_or_default()
}

fn coq_oz(o: &Option<i128>) -> String { match o { Some(z) if *z < 0 => format!("Some ({})%Z", z), Some(z) => format!("Some {}%Z", z), None => "None".to_string() } }

/// histories of the deterministic families are described by (kind, n, seed, ...) in the case instead of being spelled out
fn ops_or_big(c: &Value) -> Vec<Vec<u64>> {
    if c.get("big").is_some() { wide::big_ops(&c["big"]) } else { ops_of(c) }
}

fn run_case(cx: &mut Ctx, c: &Value, force: bool) {
    std::fs::write(format!("{}/c07_current.json", cx.out), serde_json::to_string(c).unwrap()).ok();
    let ops = ops_or_big(c);
    let cellk = c["cell"].as_str().unwrap_or("").to_string();
    let key = c.to_string();
    let nontrivial = ops.iter().filter(|o| matches!(o.get(0), Some(&0) | Some(&6) | Some(&7))).count() >= 2;
    // big histories are not sent to Coq (term size)
    let big = c.get("big").is_some();
    match cellk.as_str() {
        "lockfree" => {
            let cell = "LockFreeMemoryPool";
            cx.sum.eval(cell, &key, nontrivial);
            let msize = u(c, "msize") as usize; let preset = u(c, "preset");
            let cfg = lf_config(preset, msize);
            let msize = cfg.memory_size;
            let pool = match guarded(|| LockFreeMemoryPool::new(cfg)) { Ok(Ok(p)) => p, Ok(Err(_)) => { cx.sum.dist("pool_new_refused"); return; }
                Err(p) => { cx.sum.fail(cell, None, c.clone(), &format!("LockFreeMemoryPool::new panicked: {}", p)); return; } };
            let mut put = LfPut { pool: Arc::new(pool), msize, h: HashMap::new(), guards: HashMap::new(), raii: u(c, "raii") != 0,
                                  foreign_buf: (0..FOREIGN_WORDS).map(foreign_word).collect(), complaint: None };
            if let Some(d) = drive(cx, cell, c, &mut put, &ops) {
                if !d.unmodelled && !big && cx.room("lockfree", force) {
                    // offsets relative to the first successful allocation
                    let first = d.ev.iter().find(|e| e.op[0] == 0 && e.res.is_some()).map(|e| e.res.unwrap()).unwrap_or(0);
                    let mut cops = vec![]; let mut exp = vec![]; let mut has_first = false;
                    for e in d.ev.iter() {
                        let (o, r) = (&e.op, &e.res);
                        match o[0] {
                            0 => { cops.push(format!("OAlloc {}", o[1])); exp.push(coq_oz(&r.map(|a| a - first))); if r.is_some() { has_first = true; } }
                            1 => { cops.push(format!("OFree {}", o[1])); exp.push(coq_oz(r)); }
                            2 => { let off = if o[1] == 1 && has_first { format!("{}%Z", msize) } else if o[1] == 2 && has_first { format!("{}%Z", msize + 8) } else { "(-1)%Z".to_string() };
                                   let sz = o.get(2).copied().unwrap_or(0).max(1);
                                   cops.push(format!("OForeign {} {}", off, if o[1] >= 3 { sz.min(FOREIGN_WORDS as u64 * 8) } else { sz })); exp.push(coq_oz(r)); }
                            _ => {}
                        }
                    }
                    let term = format!("XOld (CLf {} {} [{}] [{}])", coq_n_list(cx.impl_bins.iter().map(|&x| x as u128)), msize, cops.join("; "), exp.join("; "));
                    cx.shards.push(term, c.clone());
                }
            }
        }
        "fixedcap" => {
            let cell = "FixedCapacityMemoryPool";
            cx.sum.eval(cell, &key, nontrivial);
            let cfg = fc_config(u(c, "preset"), u(c, "mbs") as usize, u(c, "blocks") as usize, u(c, "align") as usize, u(c, "flags"));
            let pool = match guarded(|| FixedCapacityMemoryPool::new(cfg.clone())) { Ok(Ok(p)) => p, Ok(Err(_)) => { cx.sum.dist("pool_new_refused"); return; }
                Err(p) => { cx.sum.fail(cell, None, c.clone(), &format!("FixedCapacityMemoryPool::new panicked: {}", p)); return; } };
            let (mx, al, nb) = (cfg.max_block_size, cfg.alignment, cfg.total_blocks);
            let mut put = FcPut { h: HashMap::new(), pool: Box::new(pool), cfg, complaint: None };
            if let Some(d) = drive(cx, cell, c, &mut put, &ops) {
                // model comparison (pools of at most 2000 blocks keep the Coq terms small)
                if nb <= 2000 && !d.unmodelled && !big && cx.room("fixedcap", force) {
                    let first = d.ev.iter().find(|e| e.op[0] == 0 && e.res.is_some()).map(|e| e.res.unwrap()).unwrap_or(0);
                    let mut cops = vec![]; let mut exp = vec![];
                    for e in d.ev.iter() {
                        let (o, r) = (&e.op, &e.res);
                        match o[0] {
                            0 => { cops.push(format!("FAlloc {}", o[1])); exp.push(coq_oz(&r.map(|a| a - first))); }
                            1 => { cops.push(format!("FFree {}", o[1])); exp.push(coq_oz(r)); }
                            _ => {}
                        }
                    }
                    cx.shards.push(format!("XOld (CFc {} {} {} [{}] [{}])", mx, al, nb, cops.join("; "), exp.join("; ")), c.clone());
                }
            }
        }
        "bump" => {
            let cell = if u(c, "arena") != 0 { "BumpArena" } else { "BumpAllocator" };
            cx.sum.eval(cell, &key, nontrivial);
            let cap = u(c, "cap") as usize;
            let mut put = if u(c, "arena") != 0 {
                match guarded(|| BumpArena::new(cap)) { Ok(Ok(a)) => BumpPut { scopes: vec![], vecs: vec![], arena: Some(Box::new(a)), plain: None, cap, complaint: None }, _ => { cx.sum.dist("pool_new_refused"); return; } }
            } else {
                match guarded(|| BumpAllocator::new(cap)) { Ok(Ok(a)) => BumpPut { scopes: vec![], vecs: vec![], arena: None, plain: Some(Box::new(a)), cap, complaint: None }, _ => { cx.sum.dist("pool_new_refused"); return; } }
            };
            if let Some(d) = drive(cx, cell, c, &mut put, &ops) {
                // model comparison: histories that start with alloc(1,1) (its address is the buffer base) and
                // whose scopes are not nested and contain only allocations
                let evs = &d.ev;
                let shape_ok = evs.first().map(|e| e.op[0] == 0 && e.op[1] == 1 && e.op.get(2).copied().unwrap_or(1) <= 1 && e.res.is_some()).unwrap_or(false) && {
                    let mut dd = 0; let mut okk = true;
                    for e in evs { match e.op[0] { 3 => { dd += 1; if dd > 1 { okk = false; } } 4 => { if dd == 0 { okk = false; } else { dd -= 1; } } 0 => {} _ => { if dd > 0 { okk = false; } } } }
                    okk && dd == 0 };
                if shape_ok && !d.unmodelled && !big && cx.room("bump", force) {
                    let base = evs[0].res.unwrap();
                    let mut cops: Vec<String> = vec![]; let mut exp = vec![]; let mut inner: Option<Vec<String>> = None;
                    for e in evs.iter() {
                        let (o, r) = (&e.op, &e.res);
                        match o[0] {
                            0 => { let t = format!("({}, {})", o[1], o.get(2).copied().unwrap_or(1).max(1));
                                   exp.push(coq_oz(&r.map(|a| a - base)));
                                   match &mut inner { Some(v) => v.push(t), None => cops.push(format!("BAlloc {} {}", o[1], o.get(2).copied().unwrap_or(1).max(1))) } }
                            3 => { if u(c, "arena") != 0 { inner = Some(vec![]); } }
                            4 => { if let Some(v) = inner.take() { cops.push(format!("BScope [{}]", v.join("; "))); } }
                            _ => {}
                        }
                    }
                    let term = format!("XOld (CBump {} {} [{}] [{}])", cap, base, cops.join("; "), exp.join("; "));
                    cx.shards.push(term, c.clone());
                }
            }
        }
        "five" => {
            let level = u(c, "level");
            let sub = u(c, "sublevel");
            let cfg = five_config(u(c, "preset"), u(c, "align") as usize, u(c, "cap") as usize, u(c, "fast") as usize, u(c, "arena") as usize, u(c, "fixed") as usize, u(c, "flags"));
            let cfg2 = cfg.clone();
            // the member of the family the case exercises (for AdaptiveFiveLevelPool::new it depends on the machine,
            // so it is read back from current_level() below)
            let ad_level = |sub: u64| [ConcurrencyLevel::SingleThread, ConcurrencyLevel::MultiThreadMutex, ConcurrencyLevel::MultiThreadLockFree, ConcurrencyLevel::ThreadLocal, ConcurrencyLevel::FixedCapacity][((sub - 1) % 5) as usize];
            let made = guarded(move || -> Result<Five, String> { Ok(match level {
                0 => Five::L1(NoLockingPool::new(cfg2).map_err(|e| e.to_string())?),
                1 => Five::L2(MutexBasedPool::new(cfg2).map_err(|e| e.to_string())?),
                2 => Five::L3(LockFreePool::new(cfg2).map_err(|e| e.to_string())?),
                3 => Five::L4(ThreadLocalPool::new(cfg2).map_err(|e| e.to_string())?),
                4 => Five::L5(FixedCapacityPool::new(cfg2).map_err(|e| e.to_string())?),
                _ => { if sub == 0 { Five::Ad(AdaptiveFiveLevelPool::new(cfg2).map_err(|e| e.to_string())?) }
                       else { Five::Ad(AdaptiveFiveLevelPool::with_level(cfg2, ad_level(sub)).map_err(|e| e.to_string())?) } }
            }) });
            // model kind: 0 NoLock, 1 Mutex, 2 LockFree, 3 ThreadLocal (not modelled), 4 FixedCap; None = not known before construction
            let kind_of = |l: ConcurrencyLevel| match l { ConcurrencyLevel::SingleThread => 0u64, ConcurrencyLevel::MultiThreadMutex => 1, ConcurrencyLevel::MultiThreadLockFree => 2,
                                                           ConcurrencyLevel::ThreadLocal => 3, ConcurrencyLevel::FixedCapacity => 4 };
            let kind: Option<u64> = match (&made, level) {
                (Ok(Ok(Five::Ad(a))), _) => Some(kind_of(a.current_level())),
                (_, 0..=4) => Some(level),
                (_, _) if sub != 0 => Some(kind_of(ad_level(sub))),
                _ => if cfg.fixed_capacity.is_some() { Some(4) } else { None },
            };
            let is_tl = kind == Some(3);
            let cell = if level >= 5 { format!("five_level/AdaptiveFiveLevelPool{}", if is_tl { "(ThreadLocal)" } else { "" }) }
                       else { format!("five_level/{}", ["NoLockingPool", "MutexBasedPool", "LockFreePool", "ThreadLocalPool", "FixedCapacityPool"][level as usize]) };
            cx.sum.eval(&cell, &key, nontrivial);
            // level 4 is modelled as it is (refutation theorem five_tl_offset_alias_refuted); its overlaps are a listed finding
            // the model's configuration: the FixedCapacityPool owns max_capacity = fixed_capacity.unwrap_or(initial_capacity)
            let mcap = if kind == Some(4) { cfg.fixed_capacity.unwrap_or(cfg.initial_capacity) } else { cfg.initial_capacity };
            let mcfg = format!("(mkFC {} {} {} {})", ["KNoLock", "KMutex", "KLockFree", "KMutex", "KFixedCap"][kind.unwrap_or(0) as usize], cfg.alignment, mcap, cfg.max_fast_block_size);
            let modelled = !is_tl && kind.is_some();
            let p = match made { Ok(Ok(p)) => p,
                Ok(Err(_)) => { cx.sum.dist("pool_new_refused");
                                if modelled && cx.room("five", force) { cx.shards.push(format!("X5 {} false false [] []", mcfg), c.clone()); }
                                if is_tl && cx.room("five", force) { cx.shards.push(format!("X5T {} {} false [] []", mcfg, cfg.arena_size), c.clone()); }
                                return; }
                Err(p) => { cx.sum.fail(&cell, None, c.clone(), &format!("constructor panicked: {}", p)); return; } };
            let cap = match (&p, cfg.fixed_capacity) { (Five::L5(_), Some(f)) => f, (Five::L4(_), _) => cfg.initial_capacity.max(cfg.arena_size),
                                                        (Five::Ad(_), f) => cfg.initial_capacity.max(cfg.arena_size).max(f.unwrap_or(0)), _ => cfg.initial_capacity };
            let alias = five_tl_alias_class(is_tl, &cfg, &ops);
            let direct_fixed = matches!(&p, Five::L5(_));
            let arena_size = cfg.arena_size;
            // the cloneable handle of the adaptive pool (levels 2..4), used for every other request when the case asks for it
            let handle = match (&p, u(c, "handle") != 0) { (Five::Ad(a), true) => {
                let h = a.get_handle();
                let want = matches!(a.current_level(), ConcurrencyLevel::MultiThreadMutex | ConcurrencyLevel::MultiThreadLockFree | ConcurrencyLevel::ThreadLocal);
                if h.is_ok() != want { cx.sum.fail(&cell, None, c.clone(), &format!("get_handle() at level {:?}: {}", a.current_level(), if h.is_ok() { "a handle" } else { "refused" })); return; }
                h.ok() } _ => None };
            let mut put = FivePut { p, cfg, cap, h: HashMap::new(), alias, stats: vec![], handle, complaint: None };
            if let Some(d) = drive(cx, &cell, c, &mut put, &ops) {
                if is_tl && !d.unmodelled && !big && cx.room("five", force) {
                    // level 4: offsets only (histories in which the two offset spaces collide stop at the oracle: known finding)
                    let mut cops = vec![]; let mut exp = vec![];
                    for e in d.ev.iter() {
                        let (o, r) = (&e.op, &e.res);
                        match o[0] { 0 => cops.push(format!("A5 {}", o[1])), 1 => cops.push(format!("F5 {}", o[1])), _ => continue }
                        exp.push(coq_oz(r));
                    }
                    cx.shards.push(format!("X5T {} {} true [{}] [{}]", mcfg, arena_size, cops.join("; "), exp.join("; ")), c.clone());
                }
                if modelled && !d.unmodelled && !big && put.stats.len() == d.ev.len() && cx.room("five", force) {
                    let mut cops = vec![]; let mut exp = vec![];
                    for (e, st) in d.ev.iter().zip(put.stats.iter()) {
                        let (o, r) = (&e.op, &e.res);
                        match o[0] { 0 => cops.push(format!("A5 {}", o[1])), 1 => cops.push(format!("F5 {}", o[1])), _ => continue }
                        exp.push(coq_oz(r));
                        exp.push(format!("Some {}%Z", st.0)); exp.push(format!("Some {}%Z", st.1));
                        if let Some(rem) = st.2 { exp.push(format!("Some {}%Z", rem)); }
                    }
                    cx.shards.push(format!("X5 {} true {} [{}] [{}]", mcfg, coq_bool(direct_fixed), cops.join("; "), exp.join("; ")), c.clone());
                }
            }
        }
        "threadlocal" => {
            let cell = "ThreadLocalMemoryPool";
            cx.sum.eval(cell, &key, nontrivial);
            let mut cfg = match u(c, "preset") { 1 => ThreadLocalPoolConfig::default(), 2 => ThreadLocalPoolConfig::high_performance(), _ => ThreadLocalPoolConfig::compact() };
            if u(c, "arena") != 0 { cfg.arena_size = u(c, "arena") as usize; }
            if u(c, "cached") != 0 { cfg.max_cached_chunks = u(c, "cached") as usize; }
            if u(c, "nosecure") != 0 { cfg.use_secure_memory = false; }
            // fields no preset varies: statistics off, a synchronisation threshold that triggers at (nearly) every free, one thread
            let tf = u(c, "tflags");
            if tf & 1 != 0 { cfg.enable_stats = !cfg.enable_stats; }
            if tf & 2 != 0 { cfg.sync_threshold = (tf >> 8) as isize % 64; }
            if tf & 4 != 0 { cfg.max_threads = 1; }
            let (arena, maxc) = (cfg.arena_size, cfg.max_cached_chunks);
            let two = u(c, "pools") == 2;
            let pool = match guarded(|| ThreadLocalMemoryPool::new(cfg.clone())) { Ok(Ok(p)) => p, _ => { cx.sum.dist("pool_new_refused"); return; } };
            let pool2 = if two { match guarded(|| ThreadLocalMemoryPool::new(cfg)) { Ok(Ok(p)) => Some(p), _ => None } } else { None };
            pool.clear_caches();
            let mut put = TlPut { h: HashMap::new(), pool, pool2, complaint: None };
            if let Some(d) = drive(cx, cell, c, &mut put, &ops) {
                if !d.unmodelled && !big && cx.room("threadlocal", force) {
                    // an address is (arena, offset): arenas in order of first appearance, the first block of a new arena is its base
                    let mut bases: Vec<usize> = vec![];
                    let mut cops = vec![]; let mut exp = vec![];
                    for e in d.ev.iter() {
                        let (o, r) = (&e.op, &e.res);
                        match o[0] {
                            0 => { cops.push(format!("TA {}", o[1]));
                                   match r { Some(a) => { let a = *a as usize;
                                                          let k = match bases.iter().position(|&b| b <= a && a - b < arena) { Some(k) => k, None => { bases.push(a); bases.len() - 1 } };
                                                          exp.push(format!("Some {}%Z", k)); exp.push(format!("Some {}%Z", a - bases[k])); }
                                             None => { exp.push("None".to_string()); exp.push("None".to_string()); } } }
                            1 => { cops.push(format!("TF {}", o[1])); exp.push(coq_oz(r)); }
                            _ => {}
                        }
                    }
                    cx.shards.push(format!("XTl {} (mkTLC {} {}) [{}] [{}]", coq_n_list(cx.tl_classes.iter().map(|&x| x as u128)), arena, maxc, cops.join("; "), exp.join("; ")), c.clone());
                }
            }
        }
        "secure" => {
            let cell = "SecureMemoryPool";
            cx.sum.eval(cell, &key, nontrivial);
            let cfg = sec_config(c);
            let (chunk, align, lcache) = (cfg.chunk_size, cfg.alignment, cfg.local_cache_size);
            let pool = match guarded(|| SecureMemoryPool::new(cfg)) { Ok(Ok(p)) => p, _ => { cx.sum.dist("pool_new_refused"); return; } };
            let mut put = SecPut { h: HashMap::new(), pool: Some(pool), chunk, align, bulk: u(c, "flags") & 2 != 0, serials: HashMap::new(), pending: vec![], rec: vec![], stale: None,
                                   unmodelled: false, complaint: None };
            if let Some(d) = drive(cx, cell, c, &mut put, &ops) {
                if !d.unmodelled && !put.unmodelled && !big && put.rec.len() == d.ev.len() && cx.room("secure", force) {
                    let mut cops = vec![]; let mut exp: Vec<String> = vec![];
                    for (e, r) in d.ev.iter().zip(put.rec.iter()) {
                        match e.op[0] { 0 => cops.push("SAl".to_string()), 1 => cops.push(format!("SFr {}", e.op[1])), 2 => cops.push("SDbl".to_string()), _ => continue }
                        for x in r { exp.push(coq_oz(&x.map(|v| v as i128))); }
                    }
                    cx.shards.push(format!("XSec {} [{}] [{}]", lcache, cops.join("; "), exp.join("; ")), c.clone());
                }
                let pool = put.pool.clone();
                drop(put);
                if let Some(pool) = pool { if let Err(e) = pool.validate() { cx.sum.fail(cell, None, c.clone(), &format!("pool.validate() after the history: {}", e)); } }
            }
        }
        "basic" => {
            let mode = u(c, "mode");
            let cell = ["MemoryPool", "PooledBuffer", "PooledVec"][mode.min(2) as usize];
            cx.sum.eval(cell, &key, nontrivial);
            let (chunk, align) = (u(c, "chunk") as usize, u(c, "align") as usize);
            let pool = if mode == 0 {
                let cfg = match u(c, "preset") { 1 => PoolConfig::small(), 2 => PoolConfig::medium(), 3 => PoolConfig::large(), _ => PoolConfig::new(chunk, u(c, "maxchunks") as usize, align) };
                match guarded(|| MemoryPool::new(cfg)) { Ok(Ok(p)) => Some(p), _ => { cx.sum.dist("pool_new_refused"); return; } }
            } else { None };
            let (chunk, align) = match &pool { Some(p) => (p.config().chunk_size, p.config().alignment), None => (chunk, 8) };
            let maxc = pool.as_ref().map(|p| p.config().max_chunks).unwrap_or(0);
            if mode != 0 { cx.sum.cell_status(cell, "S-only"); }
            let mut put = BasicPut { h: HashMap::new(), pool, chunk, align, mode, ty: u(c, "ty"), serials: HashMap::new(), next: 0, pending: vec![], rec: vec![], complaint: None };
            if let Some(d) = drive(cx, cell, c, &mut put, &ops) { if mode == 0 && !d.unmodelled && !big && put.rec.len() == d.ev.len() && cx.room("mempool", force) {
                let mut cops = vec![]; let mut exp: Vec<String> = vec![];
                for (e, r) in d.ev.iter().zip(put.rec.iter()) {
                    match e.op[0] { 0 => cops.push("MAl".to_string()), 1 => cops.push(format!("MFr {}", e.op[1])), _ => continue }
                    for x in r { exp.push(coq_oz(&x.map(|v| v as i128))); }
                }
                cx.shards.push(format!("XMp {} [{}] [{}]", maxc, cops.join("; "), exp.join("; ")), c.clone());
            } }
        }
        "tiered" => {
            let cell = "TieredMemoryAllocator";
            cx.sum.eval(cell, &key, nontrivial);
            let f = u(c, "flags");
            let mut cfg = if u(c, "preset") == 1 { TieredConfig::default() } else {
                TieredConfig { enable_small_pools: f & 1 != 0, enable_medium_pools: f & 2 != 0, enable_mmap_large: f & 4 != 0, enable_hugepages: f & 8 != 0, ..TieredConfig::default() } };
            // the two threshold fields (absent / 0 = the defaults 16 KiB and 2 MiB)
            if u(c, "mmapthr") != 0 { cfg.mmap_threshold = u(c, "mmapthr") as usize; }
            if u(c, "hugethr") != 0 { cfg.hugepage_threshold = u(c, "hugethr") as usize; }
            let mcfg = format!("(mkTC {} {} {} {} {} {} false)", coq_bool(cfg.enable_small_pools), coq_bool(cfg.enable_medium_pools), coq_bool(cfg.enable_mmap_large),
                               coq_bool(cfg.enable_hugepages), cfg.mmap_threshold, cfg.hugepage_threshold);
            // preset 3: the convenience constructor TieredMemoryAllocator::default()
            let via_default = u(c, "preset") == 3;
            let a = match guarded(|| if via_default { TieredMemoryAllocator::default() } else { TieredMemoryAllocator::new(cfg) }) { Ok(Ok(a)) => a, _ => { cx.sum.dist("pool_new_refused"); return; } };
            let mcfg = if via_default { let d = TieredConfig::default(); format!("(mkTC {} {} {} {} {} {} false)", coq_bool(d.enable_small_pools), coq_bool(d.enable_medium_pools), coq_bool(d.enable_mmap_large),
                               coq_bool(d.enable_hugepages), d.mmap_threshold, d.hugepage_threshold) } else { mcfg };
            let global = u(c, "preset") == 2;
            let mut put = TieredPut { h: HashMap::new(), a, global, chunks: HashMap::new(), serial: 0, pending: vec![], rec: vec![], complaint: None };
            if let Some(d) = drive(cx, cell, c, &mut put, &ops) {
                // model comparison: allocators of their own (the global one keeps its small pool across cases), on machines
                // where hugepage requests are refused (the model's t_hp_ok = false), sizes the mmap tier can certainly serve
                let hp_ok = HugePageAllocator::new().ok().map(|h| h.allocate(2 << 20).is_ok()).unwrap_or(false);
                let sizes_ok = d.ev.iter().all(|e| e.op[0] != 0 || e.op[1] <= (64 << 20));
                if !global && !hp_ok && sizes_ok && !d.unmodelled && !big && put.rec.len() == d.ev.len() && cx.room("tiered", force) {
                    let mut cops = vec![]; let mut exp: Vec<String> = vec![];
                    for (e, r) in d.ev.iter().zip(put.rec.iter()) {
                        match e.op[0] { 0 => cops.push(format!("TAl {}", e.op[1])), 1 => cops.push(format!("TFr {}", e.op[1])), _ => continue }
                        for x in r { exp.push(coq_oz(&x.map(|v| v as i128))); }
                    }
                    cx.shards.push(format!("XTi {} [{}] [{}]", mcfg, cops.join("; "), exp.join("; ")), c.clone());
                }
            }
        }
        "mmap" => {
            let cell = "MemoryMappedAllocator";
            cx.sum.eval(cell, &key, nontrivial);
            // min = 0: the convenience constructor MemoryMappedAllocator::default() (16 KiB minimum)
            let (a, min) = if u(c, "min") == 0 { (MemoryMappedAllocator::default(), 16 * 1024) } else { (MemoryMappedAllocator::new(u(c, "min") as usize), u(c, "min") as usize) };
            let mut put = MmapPut { h: HashMap::new(), a, min, serials: HashMap::new(), next: 0, pending: vec![], rec: vec![], complaint: None };
            if let Some(d) = drive(cx, cell, c, &mut put, &ops) {
                // model comparison: sizes a mapping certainly succeeds for (or whose page rounding overflows)
                let pg = unsafe { libc::sysconf(libc::_SC_PAGESIZE) } as u64;
                let sizes_ok = d.ev.iter().all(|e| e.op[0] != 0 || e.op[1] <= (1 << 30) || e.op[1] > u64::MAX - (pg - 1));
                if sizes_ok && !d.unmodelled && !big && put.rec.len() == d.ev.len() && cx.room("mmap", force) {
                    let page = unsafe { libc::sysconf(libc::_SC_PAGESIZE) } as usize;
                    let mut cops = vec![]; let mut exp: Vec<String> = vec![];
                    for (e, r) in d.ev.iter().zip(put.rec.iter()) {
                        match e.op[0] { 0 => cops.push(format!("MMA {}", e.op[1])), 1 => cops.push(format!("MMF {}", e.op[1])), _ => continue }
                        for x in r { exp.push(coq_oz(&x.map(|v| v as i128))); }
                    }
                    cx.shards.push(format!("XMm {} {} [{}] [{}]", min, page, cops.join("; "), exp.join("; ")), c.clone());
                }
            }
        }
        "numa" => {
            let cell = "numa_alloc_aligned";
            cx.sum.eval(cell, &key, nontrivial); cx.sum.cell_status(cell, "S-only");
            let pools = u(c, "pools") != 0;
            if pools { let _ = init_numa_pools(); }
            let mut put = NumaPut { h: HashMap::new(), pools, complaint: None };
            drive(cx, cell, c, &mut put, &ops);
        }
        "huge" => {
            let cell = "HugePageAllocator";
            cx.sum.eval(cell, &key, nontrivial); cx.sum.cell_status(cell, "S-only");
            // minsize = 0: HugePageAllocator::new(); otherwise with_config(minsize, page size by the "page" field)
            let a = if u(c, "minsize") == 0 { if u(c, "page") == 1 { Ok(HugePageAllocator::default()) } else { HugePageAllocator::new() } } else {
                let page = match u(c, "page") { 0 => 2usize << 20, 1 => 1 << 30, p => p as usize };
                let r = HugePageAllocator::with_config(u(c, "minsize") as usize, page);
                if r.is_ok() != (page == 2 << 20 || page == 1 << 30) { cx.sum.fail(cell, None, c.clone(), &format!("HugePageAllocator::with_config(_, {}) {}", page, if r.is_ok() { "accepted" } else { "refused" })); return; }
                r };
            if let Ok(a) = a { let mut put = HugePut { h: HashMap::new(), a, complaint: None }; drive(cx, cell, c, &mut put, &ops); }
        }
        "cvec" => wide::run_cvec(cx, c),
        "secglobal" => wide::run_secglobal(cx, c),
        _ => {}
    }
}

/// every case runs on a fresh thread: several pools keep per-thread caches in `thread_local!` statics
fn run_case_threaded(cx: &mut Ctx, c: &Value, force: bool) {
    std::thread::scope(|s| { let _ = s.spawn(|| run_case(cx, c, force)).join(); });
}

// ------------------------------------------------------------------------------------------------
// generators
// ------------------------------------------------------------------------------------------------
fn classes_for(kind: &str, bins: &[u64]) -> Vec<u64> {
    match kind {
        "lockfree" => bins.to_vec(),
        "threadlocal" => vec![16, 32, 48, 64, 96, 128, 192, 256, 384, 512, 768, 1024, 1536, 2048, 3072, 4096],
        _ => vec![8, 16, 24, 32, 64, 96, 128, 192, 256, 288, 432, 512, 648, 1024, 2048, 4096, 8192, 16384, 32768, 65536],
    }
}
/// a request size biased to the class boundaries / capacity of the pool
fn gen_size(r: &mut Rng, classes: &[u64], cap: u64, focus: &[u64], huge: bool) -> u64 {
    let d = [-9i64, -8, -7, -1, 0, 0, 1, 7, 8];
    let s = match r.below(20) {
        0..=7 => { let c = *r.pick(if !focus.is_empty() { focus } else { classes }); (c as i64 + *r.pick(&d)).max(1) as u64 }
        8..=10 => { let c = *r.pick(classes); (c as i64 + *r.pick(&d)).max(1) as u64 }
        11..=13 => r.range(1, 40),
        14 => *r.pick(&[8185u64, 8191, 8192, 8193, 8200, 10000, 16384, 0]),
        15..=16 => { let v = [cap, cap.saturating_sub(8), cap.saturating_sub(16), cap + 1, cap / 2, cap / 4, cap / 4 + 1, cap / 3]; (*r.pick(&v)).max(1) }
        17 => if huge { *r.pick(&[0xFFFF_FFF8u64, 0xFFFF_FFF0, 1 << 32, (1 << 32) + 8, u64::MAX, u64::MAX - 7, u64::MAX - 8, 1 << 63, (1 << 63) - 8]) } else { r.range(1, 300) },
        _ => { let c = *r.pick(classes); r.range(c / 2 + 1, c.max(2)) }
    };
    s
}
/// the secondary entry points a cell's histories may mix in: number of housekeeping / accessor kinds (op 5), bulk requests
/// (op 6), requests sized around the reported remaining capacity (op 7), foreign-pointer kinds
#[derive(Clone, Copy, Default)]
struct Extra { house: u64, bulk: bool, rel: bool }
fn gen_ops(r: &mut Rng, n: u64, classes: &[u64], cap: u64, huge: bool, foreign: bool, aligns: &[u64]) -> Vec<Vec<u64>> {
    gen_ops_x(r, n, classes, cap, huge, foreign, aligns, Extra::default())
}
fn gen_ops_x(r: &mut Rng, n: u64, classes: &[u64], cap: u64, huge: bool, foreign: bool, aligns: &[u64], x: Extra) -> Vec<Vec<u64>> {
    let mut focus: Vec<u64> = vec![];
    if r.chance(1, 2) { for _ in 0..r.range(1, 2) { focus.push(*r.pick(classes)); } }
    let mut ops = vec![];
    let free_bias = r.range(2, 6);
    for _ in 0..n {
        if x.house > 0 && r.chance(1, 9) { ops.push(vec![5, r.below(x.house * 6)]); continue; }
        if x.bulk && r.chance(1, 14) {
            // bulk requests below and above the prefetch look-ahead of 8 / 12, some with a size the pool cannot serve
            let step = if r.chance(1, 2) { 0 } else { *r.pick(&[1u64, 8, 24, 4096]) };
            let base = if r.chance(1, 8) { *r.pick(&[0u64, 10000, u64::MAX, u64::MAX - 6, 1 << 63]) } else { gen_size(r, classes, cap, &focus, false) };
            ops.push(vec![6, *r.pick(&[1u64, 2, 3, 8, 9, 10, 13, 17, 40]), base, step]); continue; }
        if x.rel && r.chance(1, 8) { ops.push(vec![7, r.below(5), *r.pick(aligns)]); continue; }
        match r.below(10) {
            v if v < free_bias => ops.push(vec![1, r.below(64)]),
            9 if foreign && r.chance(1, 3) => ops.push(vec![2, r.below(if x.house > 0 { 5 } else { 3 }), gen_size(r, classes, cap, &focus, false)]),
            _ => ops.push(vec![0, gen_size(r, classes, cap, &focus, huge), *r.pick(aligns)]),
        }
    }
    ops
}

fn gen_case(r: &mut Rng, which: u64, bins: &[u64]) -> Value {
    // a third of the histories mix the secondary entry points (housekeeping / accessors, bulk requests, requests sized
    // around the reported remaining capacity, non-preset configuration fields) into the allocate / free traffic
    let wide = r.chance(1, 3);
    let xx = |house: u64, bulk: bool, rel: bool| if wide { Extra { house, bulk, rel } } else { Extra::default() };
    match which {
        0 => { // lockfree
            let preset = if wide { *r.pick(&[0u64, 4, 5, 6, 7, 8, 9, 10, 11, 8, 11]) } else { *r.pick(&[0u64, 0, 0, 0, 0, 0, 1, 3, 2, 4, 4, 4, 5, 6]) };
            let msize = if preset % 4 == 0 || r.chance(2, 3) { *r.pick(&[256u64, 1024, 4096, 4096, 16384, 65536, 1 << 20]) } else { 0 };
            let cap = if msize == 0 { [16u64 << 20, 64 << 20, 256 << 20, 16 << 20][(preset % 4) as usize] } else { msize };
            let cl = classes_for("lockfree", bins);
            let n = r.range(3, 70);
            json!({"cell": "lockfree", "preset": preset, "msize": msize, "raii": r.below(2), "ops": gen_ops_x(r, n, &cl, cap, true, true, &[1], xx(2, true, false))})
        }
        1 => { // fixed capacity
            let preset = *r.pick(&[0u64, 0, 0, 1, 2, 3, 4, 5]);
            let align = *r.pick(&[8u64, 8, 16, 32, 64, 4, 1, 3]);
            // mostly well-formed configurations; some whose block size cannot hold the 16-byte block header or is not a
            // multiple of the alignment (these must be refused by the constructor, not produce misaligned blocks)
            let mbs = if r.chance(1, 8) { *r.pick(&[8u64, 12, 24, 100, 1000, 0]) } else { align * *r.pick(&[2u64, 4, 8, 16, 33, 128, 512]) };
            let blocks = *r.pick(&[1u64, 2, 3, 8, 50, 0]);
            let cap = match preset { 1 | 5 => 4096, 2 => 1024, 3 => 65536, 4 => 8192, _ => mbs };
            let cl: Vec<u64> = classes_for("", bins).into_iter().filter(|&c| c <= cap).chain([cap, cap / 2]).collect();
            let n = r.range(3, 60);
            json!({"cell": "fixedcap", "preset": preset, "mbs": mbs, "blocks": blocks, "align": align, "flags": r.below(8), "ops": gen_ops_x(r, n, &cl, cap, true, false, &[1], xx(1, false, true))})
        }
        2 => { // bump
            let cap = *r.pick(&[1u64, 7, 64, 100, 1000, 4096, 4097, 65536, 200000, 1 << 20]);
            let arena = r.below(2);
            let cl: Vec<u64> = vec![1, 2, 3, 4, 8, 16, 24, 64, 100, 256, 1000, 4096];
            let aligns = [1u64, 1, 2, 4, 8, 16, 32, 64, 128, 4096, 3, 0];
            let mut ops = vec![vec![0u64, 1, 1]];
            let n = r.range(2, 40);
            let mut depth = 0;
            for _ in 0..n {
                match r.below(if wide { 15 } else { 12 }) {
                    0 if arena == 1 && depth == 0 => { ops.push(vec![3]); depth += 1; }
                    1 if depth > 0 => { ops.push(vec![4]); depth -= 1; }
                    2 if arena == 1 && r.chance(1, 4) => { ops.push(vec![3]); depth += 1; }
                    12 => { let m = if r.chance(1, 3) { 18 } else { 2 }; ops.push(vec![5, r.below(m)]); }
                    13 | 14 => ops.push(vec![7, r.below(5), *r.pick(&[1u64, 1, 1, 2, 8, 64])]),
                    _ => ops.push(vec![0, gen_size(r, &cl, cap, &[], true), *r.pick(&aligns)]),
                }
            }
            json!({"cell": "bump", "cap": cap, "arena": arena, "ops": ops})
        }
        3 => { // five-level family
            let level = r.below(6);
            let preset = *r.pick(&[0u64, 0, 0, 0, 1, 2, 3, 4]);
            // alignments below 4 cannot hold the 4-byte free-list link, capacities above u32::MAX cannot be addressed by a
            // MemOffset: the constructors must refuse both (never hand out blocks)
            let align = *r.pick(&[8u64, 8, 8, 16, 32, 64, 4, 4, 2, 1]);
            let cap = if r.chance(1, 40) { *r.pick(&[(1u64 << 32) + 8, 1 << 32, u32::MAX as u64]) } else { *r.pick(&[256u64, 1024, 4096, 65536]) };
            let fast = *r.pick(&[64u64, 256, 1024, 4096]);
            let arena = *r.pick(&[512u64, 2048, 8192, 1 << 16]);
            let fixed = if level == 4 || r.chance(1, 4) { *r.pick(&[128u64, 1024, 4096]) } else { 0 };
            let pcap = match preset { 1 => 1 << 20, 2 => 8 << 20, 3 => 512 << 10, 4 => 16 << 20, _ => if fixed > 0 && level >= 4 { fixed } else { cap } };
            let cl: Vec<u64> = (1..=8).map(|k| k * align).chain([fast.saturating_sub(align).max(1), fast, fast + align, 2 * fast]).collect();
            let n = r.range(3, 60);
            json!({"cell": "five", "level": level, "sublevel": r.below(6), "preset": preset, "align": align, "cap": cap, "fast": fast, "arena": arena, "fixed": fixed,
                   "flags": if wide { r.below(1 << 10) } else { 0 }, "handle": 1,
                   "ops": gen_ops_x(r, n, &cl, pcap, true, false, &[1], xx(1, false, true))})
        }
        4 => { // thread-local pool
            let preset = *r.pick(&[0u64, 0, 0, 1, 3, 2]);
            let arena = if preset == 0 { *r.pick(&[1024u64, 4096, 16384, 65536]) } else { 0 };
            let cap = if arena == 0 { 512 << 10 } else { arena };
            let cl = classes_for("threadlocal", bins);
            let n = r.range(3, 70);
            json!({"cell": "threadlocal", "preset": preset, "arena": arena, "cached": *r.pick(&[0u64, 1, 2, 64]), "nosecure": r.below(2),
                   "tflags": if wide { r.below(1 << 14) } else { 0 }, "pools": if wide && r.chance(1, 3) { 2 } else { 1 },
                   "ops": gen_ops_x(r, n, &cl, cap, false, false, &[1], xx(3, false, false))})
        }
        5 => { // secure pool
            let preset = *r.pick(&[0u64, 0, 1, 2, 3]);
            let n = if preset == 3 { r.range(2, 8) } else { r.range(3, 60) };
            // op 2 = a second free of the chunk the previous guard drop gave back (through the verification hook)
            let mut ops: Vec<Vec<u64>> = vec![];
            for mut o in gen_ops_x(r, n, &[8], 8, false, true, &[1], xx(5, preset != 3, false)) {
                if o[0] == 2 { o[1] = 0; }
                if o[0] == 6 { o[1] = o[1].min(if preset == 2 { 13 } else { 17 }); o[2] = if r.chance(1, 5) { 0 } else { 8 }; o[3] = 0; }
                let was_free = o[0] == 1;
                ops.push(o);
                if was_free && r.chance(1, 4) { ops.push(vec![2, 0, 8]); }
            }
            json!({"cell": "secure", "preset": preset, "chunk": *r.pick(&[1u64, 8, 24, 100, 1024, 4096, 63, 64, 65]), "maxchunks": *r.pick(&[1u64, 4, 100]), "align": *r.pick(&[1u64, 8, 16, 32, 64, 4096]),
                   "lcache": *r.pick(&[0u64, 1, 2, 64]), "flags": r.below(4), "opts": if wide { r.below(1 << 19) } else { 0 }, "ops": ops})
        }
        6 => { // basic pool + pooled containers
            let mode = *r.pick(&[0u64, 0, 1, 1, 2]);
            let preset = *r.pick(&[0u64, 0, 1, 2, 3]);
            let cl = vec![1u64, 100, 1023, 1024, 1025, 65535, 65536, 65537, 1 << 20, (1 << 20) + 1, 2 << 20];
            let ty = if mode == 2 { r.below(8) } else { 0 };
            let n = if mode == 1 || preset == 3 || ty == 4 { r.range(2, 10) } else { r.range(3, 50) };
            let mut ops = gen_ops_x(r, n, &cl, 1 << 20, false, false, &[1], xx(2, false, false));
            if mode == 1 { for o in ops.iter_mut() { if o[0] == 0 { o[1] = if r.chance(1, 20) { 0 } else { *r.pick(&cl) }; } } }
            json!({"cell": "basic", "mode": mode, "ty": ty, "preset": preset, "chunk": *r.pick(&[1u64, 8, 24, 100, 4096]), "maxchunks": *r.pick(&[0u64, 1, 4, 100]), "align": *r.pick(&[1u64, 8, 16, 64, 4096]), "ops": ops})
        }
        7 => { // tiered
            let cl = vec![1u64, 64, 1023, 1024, 1025, 2048, 2049, 4096, 8192, 16383, 16384, 16385, 65536, (2 << 20) - 1, 2 << 20];
            let n = r.range(3, 30);
            let mut ops = gen_ops_x(r, n, &cl, 1 << 20, false, false, &[1], xx(3, false, false));
            for o in ops.iter_mut() { if o[0] == 0 { o[1] = if wide && r.chance(1, 12) { *r.pick(&[u64::MAX, u64::MAX - (2 << 20) + 2, 1 << 63, (1 << 47) + 1, 0, 1 << 32, (1 << 32) + 1]) }
                                                       else if r.chance(3, 4) { (*r.pick(&cl) as i64 + *r.pick(&[-1i64, 0, 0, 1])).max(1) as u64 } else { r.range(1, 40000) }; } }
            json!({"cell": "tiered", "preset": r.below(if wide { 4 } else { 3 }), "flags": r.below(16),
                   "mmapthr": if wide { *r.pick(&[0u64, 0, 1, 4096, 1025, 65536]) } else { 0 }, "hugethr": if wide { *r.pick(&[0u64, 0, 1 << 20, 4 << 20, 4096]) } else { 0 }, "ops": ops})
        }
        8 => { // mmap allocator (min 0 = MemoryMappedAllocator::default())
            let min = *r.pick(&[1u64, 4096, 16384, 65536, 0]);
            let m = if min == 0 { 16384 } else { min };
            let cl = vec![m.saturating_sub(1).max(1), m, m + 1, 4095, 4096, 4097, 8192, 16384, 65536, 65537, 1 << 20];
            let n = r.range(3, 30);
            let mut ops = gen_ops_x(r, n, &cl, 1 << 20, false, false, &[1], xx(2, false, false));
            // a focus size: more than four regions of one rounded size are freed (the per-size bound of the region cache)
            let focus = *r.pick(&cl);
            for o in ops.iter_mut() { if o[0] == 0 { o[1] = if r.chance(1, 25) { *r.pick(&[u64::MAX, u64::MAX - 4094, u64::MAX - 4095, 1 << 62]) } else if r.chance(1, 2) { focus } else { *r.pick(&cl) }; } }
            json!({"cell": "mmap", "min": min, "ops": ops})
        }
        9 => { // NUMA helpers
            let cl = vec![1u64, 63, 64, 65, 1023, 1024, 1025, 65535, 65536, 100000];
            let n = r.range(3, 40);
            let mut ops = gen_ops_x(r, n, &cl, 1 << 20, false, false, &[1, 8, 64, 128, 4096], xx(3, false, false));
            for o in ops.iter_mut() { if o[0] == 0 { o[1] = *r.pick(&cl); } }
            json!({"cell": "numa", "pools": r.below(2), "ops": ops})
        }
        11 => wide::gen_cvec(r),
        _ => json!({"cell": "huge", "minsize": *r.pick(&[0u64, 0, 1, 4096, 2 << 20]), "page": *r.pick(&[0u64, 0, 1, 4096, 12345]),
                    "ops": [[0, *r.pick(&[1u64, 2 << 20, (2 << 20) + 1]), 1], [5, 0], [0, 2 << 20, 1], [0, *r.pick(&[u64::MAX, u64::MAX - (2 << 20) + 2, 1 << 62, 1 << 30]), 1], [0, 4096, 1], [1, 0], [0, 0, 1], [0, 1 << 21, 1]]}),
    }
}

fn read_impl_bins() -> Vec<u64> { read_const_list("src/memory/lockfree_pool.rs", "const FAST_BIN_SIZES") }
fn read_const_list(file: &str, name: &str) -> Vec<u64> {
    // the one "translator": the size-class tables are private, so they are read from the source under test and compared
    // with the model's table inside every Coq-evaluated case
    let repo = std::env::var("ZV_REPO").unwrap_or_else(|_| "/repo".to_string());
    let src = std::fs::read_to_string(format!("{}/{}", repo, file)).unwrap_or_default();
    let Some(i) = src.find(name) else { return vec![] };
    let rest = &src[i..];
    let Some(a) = rest.find("&[") else { return vec![] };
    let Some(b) = rest[a..].find("];") else { return vec![] };
    let body: String = rest[a + 2..a + b].lines().map(|l| l.split("//").next().unwrap_or("")).collect::<Vec<_>>().join(" ");
    body.split(|c: char| !c.is_ascii_digit()).filter(|s| !s.is_empty()).filter_map(|s| s.parse().ok()).collect()
}

fn generate(cx: &mut Ctx, args: &Args) {
    let mut rng = Rng::new(args.seed);
    // corpus first (cwd is the framework root)
    if let Ok(rd) = std::fs::read_dir("corpus/C07") {
        let mut files: Vec<_> = rd.filter_map(|e| e.ok()).map(|e| e.path()).filter(|p| p.extension().map(|e| e == "json").unwrap_or(false)).collect();
        files.sort();
        for p in files {
            if let Ok(v) = serde_json::from_str::<Value>(&std::fs::read_to_string(&p).unwrap_or_default()) {
                let c = if v.get("case").is_some() { v["case"].clone() } else { v };
                run_case_threaded(cx, &c, true);
                cx.sum.dist("corpus_cases");
            }
        }
    }
    let bins = cx.impl_bins.clone();
    let rounds = if args.thorough { 4000 } else { 260 };
    let only: Option<u64> = std::env::var("ZV_C07_ONLY").ok().and_then(|s| s.parse().ok());   // development aid
    // the deterministic breadth families (c07_wide.rs): presets x entry points x internal thresholds
    if only.is_none() || only == Some(99) {
        for c in wide::families() { run_case_threaded(cx, &c, false); cx.sum.dist("family_cases"); }
    }
    // refused operations inside histories (deterministic: fixed generator seeds, independent of --seed): every pool kind, three
    // histories each, with requests the pool has to refuse spliced in after every third of the history - a request two bytes above what
    // the pool reports as remaining, deallocation of memory the pool never issued (through deallocate and deallocate_with_zero), a
    // request of usize::MAX bytes where the cell's generator uses such sizes - and allocate / free traffic going on after each of them
    if only.is_none() || only == Some(98) {
        for which in 0u64..10 { for v in 0u64..3 {
            let mut r = Rng::new(0xC07_4EF5 ^ (which * 64 + v));
            let mut c = gen_case(&mut r, which, &bins);
            if let Some(ops) = c["ops"].as_array().cloned() {
                let spl: Vec<Value> = vec![json!([7, 4, 1]), json!([2, 0, 64]), json!([7, 3, 8]), json!([2, 2, 4096]), json!([2, 3 + v, 16]), json!([0, 40, 1]), json!([1, 0])];
                let huge = which == 0;
                let mut out: Vec<Value> = vec![];
                let third = (ops.len() / 3).max(1);
                for (i, o) in ops.iter().enumerate() {
                    out.push(o.clone());
                    if i % third == third - 1 { out.extend(spl.iter().cloned()); if huge { out.push(json!([0, u64::MAX, 1])); out.push(json!([0, u64::MAX - 7, 1])); out.push(json!([0, 24, 1])); } }
                }
                c["ops"] = json!(out);
            }
            run_case_threaded(cx, &c, false);
            cx.sum.dist("refused_family_cases");
        } }
    }
    for i in 0..rounds {
        // weights: the two modelled pools and the size-class pools get most cases
        for which in [0u64, 0, 0, 1, 2, 2, 3, 3, 4, 5, 6, 7, 8, 9] {
            if (which == 8 || which == 9 || which == 6) && i % 3 != 0 { continue; }
            if (which == 7 || which == 5) && i % 3 == 2 { continue; }
            if only.map(|o| o != which).unwrap_or(false) { continue; }
            let c = gen_case(&mut rng, which, &bins);
            if i < 1 { cx.sum.sample(json!({"cell": c["cell"], "ops": c["ops"].as_array().map(|a| a.iter().take(6).cloned().collect::<Vec<_>>())})); }
            run_case_threaded(cx, &c, false);
        }
        if i % 20 == 0 && only.is_none() { let c = gen_case(&mut rng, 10, &bins); run_case_threaded(cx, &c, false); }
        if i % 2 == 0 && only.map(|o| o == 11).unwrap_or(true) { let c = gen_case(&mut rng, 11, &bins); run_case_threaded(cx, &c, false); }
    }
}

fn child(args: &Args) {
    let mut cx = Ctx {
        sum: Summary::new("C07", "histories of allocate(size[,align]) / free(k-th live block) / free(foreign pointer) / arena scope begin-end, 3..70 ops, per pool type and configuration (presets and small custom capacities so that exhaustion, recycling and arena turnover happen); sizes drawn around every size-class boundary (c-9..c+8), around the fast-bin threshold, around the capacity, and u32/usize extremes; every live block carries a position-dependent pattern checked after every operation; a third of the histories also mix in the secondary entry points (bulk requests of 1..40 sizes, housekeeping such as clear / clear_caches / clear_cache / reset / validate / statistics and capacity accessors, RAII guard views, pool handles, typed and slice allocation, requests sized around the reported remaining capacity) and configuration fields no preset sets; 248 deterministic families (presets x internal thresholds: cache bounds 4 / 32 / 64 / 100 / 128, look-ahead 8 / 12, class-table ends, 1 KiB .. 2 MiB tier boundaries, arenas and pools driven to exhaustion, a 4 GiB region) written as (kind, n, size, seed); CacheAlignedVec over seven element types against a Vec shadow; non-trivial = history with at least two allocations"),
        shards: CoqShards::new(HEADER, 150),
        budget: if args.thorough { 9000 } else { 1500 },
        impl_bins: read_impl_bins(),
        tl_classes: read_const_list("src/memory/threadlocal_pool.rs", "const TLS_SIZE_CLASSES"),
        out: args.out.clone(),
        used: HashMap::new(),
        thorough: args.thorough,
    };
    if let Some(f) = &args.replay {
        let v: Value = serde_json::from_str(&std::fs::read_to_string(f).expect("replay file")).expect("json");
        let c = if v.get("case").is_some() { v["case"].clone() } else { v };
        run_case_threaded(&mut cx, &c, true);
    } else {
        generate(&mut cx, args);
    }
    cx.sum.dist_max("coq_cases", cx.shards.len() as u64);
    let _ = std::fs::remove_file(format!("{}/c07_current.json", args.out));
    let sh = cx.shards.write(&args.out);
    cx.sum.write(&args.out, sh);
}

pub fn run(args: &Args) {
    if std::env::var("ZV_C07_CHILD").is_ok() { child(args); return; }
    let exe = std::env::current_exe().expect("current_exe");
    let mut cmd = std::process::Command::new(exe);
    cmd.arg("C07").arg("--seed").arg(args.seed.to_string()).arg("--tier").arg(if args.thorough { "thorough" } else { "quick" }).arg("--out").arg(&args.out);
    if let Some(f) = &args.replay { cmd.arg("--replay").arg(f); }
    cmd.env("ZV_C07_CHILD", "1");
    let st = cmd.status();
    let summary_ok = std::path::Path::new(&format!("{}/summary.json", args.out)).exists();
    if matches!(&st, Ok(s) if s.success()) && summary_ok { return; }
    // the child died: the case it was working on is the failing input
    let mut sum = Summary::new("C07", "child process died; see failure");
    let cur = std::fs::read_to_string(format!("{}/c07_current.json", args.out)).ok().and_then(|s| serde_json::from_str::<Value>(&s).ok());
    let how = match &st { Ok(s) => format!("{}", s), Err(e) => format!("{}", e) };
    match cur {
        Some(c) => { let cell = c["cell"].as_str().unwrap_or("?").to_string(); sum.eval(&cell, &c.to_string(), true);
                     sum.fail(&cell, None, c, &format!("the process running this history died ({}) - memory was unmapped or corrupted under the oracle", how)); }
        None => { sum.notes.push(format!("child died ({}) before any case", how)); }
    }
    sum.write(&args.out, vec![]);
}
