//! C07: live allocations from any pool never overlap and keep their contents.
//!
//! Oracle (independent of the Coq model): every history of allocate/free is replayed on the real pool with a
//! shadow list of live ranges; each live block is filled with a per-block position-dependent pattern.  After every
//! operation the oracle checks: the new block is at least as large as requested, satisfies the requested /
//! configured alignment, does not overlap any live block, all blocks ever issued fit the memory the pool owns
//! (a window of `capacity` bytes, or an absolute offset range for the offset-returning five-level pools), requests
//! larger than the capacity are refused with an error (a panic is a violation), patterns of all live blocks are
//! intact (head/tail after every op, full at free and at the end), a free of a live block is accepted, a pointer the
//! pool never issued is refused by the pools that validate pointers and the pool stays usable.
//! M+S cells: LockFreeMemoryPool, BumpAllocator/BumpArena (histories evaluated against coq/C07/Model.v).
//! S-only cells: everything else (see `cells`).
//!
//! The whole run happens in a child process (a pool defect can unmap or corrupt memory the oracle then touches):
//! the child notes the case it is working on; if it dies, the parent reports that case as the failing input.
use crate::util::*;
use serde_json::{json, Value};
use std::collections::HashMap;
use std::ptr::NonNull;
use std::sync::Arc;
use zipora::memory::{
    numa_alloc_aligned, numa_dealloc, init_numa_pools, clear_numa_pools,
    AdaptiveFiveLevelPool, BumpAllocator, BumpArena, ConcurrencyLevel, FiveLevelPoolConfig, FixedCapacityAllocation,
    FixedCapacityMemoryPool, FixedCapacityPool, FixedCapacityPoolConfig, HugePage, HugePageAllocator, LockFreeAllocation,
    LockFreeMemoryPool, LockFreePool, LockFreePoolConfig, MemOffset, MemoryMappedAllocator, MemoryPool, MmapAllocation,
    MutexBasedPool, NoLockingPool, PoolConfig, PooledBuffer, PooledVec, SecureMemoryPool, SecurePoolConfig, SecurePooledPtr,
    ThreadLocalAllocation, ThreadLocalMemoryPool, ThreadLocalPool, ThreadLocalPoolConfig, TieredAllocation, TieredConfig,
    TieredMemoryAllocator,
};

const HEADER: &str = r#"From ZV.Common Require Import Base Run.
From ZV.C07 Require Import Model ModelFive ModelTL ModelTiered ModelSecure ModelMmap Cases.
Open Scope N_scope.
Definition case_t := xcase.
Definition ok := xok.
"#;

struct Ctx { sum: Summary, shards: CoqShards, budget: usize, impl_bins: Vec<u64>, tl_classes: Vec<u64>, out: String, used: HashMap<&'static str, usize>, thorough: bool }
impl Ctx {
    /// per-cell budget of Coq-evaluated cases (quick tier: about 1500 in total)
    fn room(&mut self, key: &'static str, force: bool) -> bool {
        let cap = match key { "lockfree" => 340, "fixedcap" => 170, "bump" => 230, "five" => 300, "threadlocal" => 140, "tiered" => 110, "secure" => 110, "mempool" => 30, "mmap" => 60, _ => 0 }
                  * if self.thorough { 7 } else { 1 };
        let n = self.used.entry(key).or_insert(0);
        if force || (*n < cap && self.shards.len() < self.budget) { *n += 1; true } else { false }
    }
}

// ------------------------------------------------------------------------------------------------
// pools under test behind one interface
// ------------------------------------------------------------------------------------------------
struct Blk { addr: usize, usable: usize, mem: bool }

trait Put {
    /// None = refused with an error
    fn alloc(&mut self, id: u64, size: usize, align: usize) -> Option<Blk>;
    /// result of the free (true = accepted)
    fn free(&mut self, id: u64) -> bool;
    fn supports_free(&self) -> bool { true }
    /// all blocks ever issued must fit a window of this many bytes (the memory the pool owns)
    fn window(&self) -> Option<usize> { None }
    /// "addresses" are offsets that must lie in [lo, hi)
    fn abs_range(&self) -> Option<(usize, usize)> { None }
    fn must_refuse(&self, _size: usize) -> bool { false }
    fn cfg_align(&self) -> usize { 1 }
    /// deallocate a pointer the pool never issued: Some(accepted) when the pool has such an entry point
    fn foreign(&mut self, _kind: u64, _size: usize, _first: Option<usize>, _lowest: Option<usize>) -> Option<bool> { None }
    fn scope_begin(&mut self) -> bool { false }
    fn scope_end(&mut self) {}
    /// the request size the pool actually serves for a request of `size` (fixed-chunk pools ignore the size)
    fn effective(&self, size: usize) -> usize { size }
    /// called once after every operation of the history (pools record their statistics here)
    fn note(&mut self) {}
    /// finding class an overlap / out-of-range failure of this pool falls in, if any
    fn overlap_class(&self) -> Option<&'static str> { None }
}

fn pat(id: u64, i: usize) -> u8 { (id.wrapping_mul(37).wrapping_add(11) as u8) ^ ((i as u32).wrapping_mul(7) as u8) }

fn positions(n: usize, full: bool) -> Vec<(usize, usize)> {
    // ranges of a block that are written / verified
    if !full { if n <= 32 { vec![(0, n)] } else { vec![(0, 16), (n - 16, n)] } }
    else if n <= 65536 { vec![(0, n)] } else { vec![(0, 4096), (n / 2, n / 2 + 64), (n - 4096, n)] }
}
unsafe fn fill(addr: usize, n: usize, id: u64) {
    for (a, b) in positions(n, true) { for i in a..b { *((addr + i) as *mut u8) = pat(id, i); } }
}
unsafe fn verify(addr: usize, n: usize, id: u64, full: bool) -> Option<usize> {
    for (a, b) in positions(n, full) { for i in a..b { if *((addr + i) as *const u8) != pat(id, i) { return Some(i); } } }
    None
}

struct Live { id: u64, addr: usize, len: usize, mem: bool, scope: usize }

/// Replays `ops` on `put`; returns the observation per op (Some(addr) / Some(0) / None) or stops at the first failure.
fn drive(cx: &mut Ctx, cell: &str, cj: &Value, put: &mut dyn Put, ops: &[Vec<u64>]) -> Option<Vec<Option<i128>>> {
    let mut live: Vec<Live> = vec![];
    let mut obs: Vec<Option<i128>> = vec![];
    let mut lo = usize::MAX; let mut hi = 0usize;
    let mut first: Option<usize> = None;
    let mut next_id = 0u64;
    let mut scope_depth = 0usize;
    macro_rules! bad { ($class:expr, $($a:tt)*) => {{ cx.sum.fail(cell, $class, cj.clone(), &format!($($a)*)); return None; }}; }
    for (n, op) in ops.iter().enumerate() {
        if n > 0 { put.note(); }
        let t = op.get(0).copied().unwrap_or(9);
        let a = op.get(1).copied().unwrap_or(0);
        let b = op.get(2).copied().unwrap_or(0);
        match t {
            0 => {
                let size = a as usize; let align = (b as usize).max(1);
                let id = next_id; next_id += 1;
                let r = guarded(|| put.alloc(id, size, align));
                match r {
                    Err(p) => bad!(None, "op {}: allocate({}, align {}) panicked: {}", n, size, align, p),
                    Ok(None) => { obs.push(None); cx.sum.dist("alloc_refused"); }
                    Ok(Some(blk)) => {
                        cx.sum.dist("alloc_ok");
                        let eff = put.effective(size);
                        if put.must_refuse(eff) { bad!(None, "op {}: request of {} bytes exceeds the pool's capacity but memory was handed out", n, eff); }
                        if blk.usable < eff { bad!(None, "op {}: block of {} bytes for a request of {}", n, blk.usable, eff); }
                        let al = align.max(put.cfg_align());
                        if blk.addr % al != 0 { bad!(class_misaligned(cell), "op {}: address {:#x} (request of {} bytes) is not aligned to {}", n, blk.addr, eff, al); }
                        let len = blk.usable;
                        let end = match blk.addr.checked_add(len) { Some(e) => e, None => bad!(None, "op {}: block wraps the address space", n) };
                        if len > 0 {
                            for l in &live {
                                if l.len > 0 && blk.addr < l.addr + l.len && l.addr < end {
                                    bad!(put.overlap_class(), "op {}: new block [{:#x},+{}) overlaps live block [{:#x},+{}) (allocated as #{})", n, blk.addr, len, l.addr, l.len, l.id);
                                }
                            }
                            lo = lo.min(blk.addr); hi = hi.max(end);
                            if let Some(w) = put.window() { if hi - lo > w { bad!(None, "op {}: blocks issued span {} bytes but the pool owns {}", n, hi - lo, w); } }
                            if let Some((rl, rh)) = put.abs_range() { if blk.addr < rl || end > rh { bad!(None, "op {}: block [{},+{}) outside the pool's memory [{},{})", n, blk.addr, len, rl, rh); } }
                        }
                        if first.is_none() { first = Some(blk.addr); }
                        if blk.mem && len > 0 { unsafe { fill(blk.addr, len, id); } }
                        obs.push(Some(blk.addr as i128));
                        live.push(Live { id, addr: blk.addr, len, mem: blk.mem, scope: scope_depth });
                    }
                }
            }
            1 => {
                if !put.supports_free() || live.is_empty() { obs.push(Some(0)); continue; }
                let k = (a as usize) % live.len();
                if live[k].scope != scope_depth { obs.push(Some(0)); continue; }   // never free across an arena scope
                let l = live.remove(k);
                if l.mem { if let Some(i) = unsafe { verify(l.addr, l.len, l.id, true) } {
                    bad!(None, "op {}: byte {} of live block #{} [{:#x},+{}) changed before it was freed", n, i, l.id, l.addr, l.len); } }
                match guarded(|| put.free(l.id)) {
                    Err(p) => bad!(None, "op {}: free of live block #{} panicked: {}", n, l.id, p),
                    Ok(false) => bad!(None, "op {}: free of live block #{} ({} bytes) was reported as an error", n, l.id, l.len),
                    Ok(true) => obs.push(Some(0)),
                }
            }
            2 => {
                let size = (b as usize).max(1);
                let lowest = if lo == usize::MAX { None } else { Some(lo) };
                match guarded(|| put.foreign(a, size, first, lowest)) {
                    Err(p) => bad!(None, "op {}: deallocating a foreign pointer panicked: {}", n, p),
                    Ok(None) => obs.push(Some(0)),
                    Ok(Some(acc)) => {
                        if acc && a != 1 { bad!(None, "op {}: a pointer the pool never issued ({} bytes) was accepted by deallocate", n, size); }
                        obs.push(if acc { Some(0) } else { None });
                    }
                }
            }
            3 => { if put.scope_begin() { scope_depth += 1; } obs.push(Some(0)); }
            4 => {
                if scope_depth > 0 {
                    for l in live.iter().filter(|l| l.scope == scope_depth) {
                        if l.mem { if let Some(i) = unsafe { verify(l.addr, l.len, l.id, true) } {
                            bad!(None, "op {}: byte {} of live block #{} changed inside the arena scope", n, i, l.id); } }
                    }
                    live.retain(|l| l.scope != scope_depth);
                    put.scope_end();
                    scope_depth -= 1;
                }
                obs.push(Some(0));
            }
            _ => obs.push(Some(0)),
        }
        // nothing else was disturbed
        for l in &live {
            if l.mem { if let Some(i) = unsafe { verify(l.addr, l.len, l.id, false) } {
                bad!(None, "after op {} {:?}: byte {} of live block #{} [{:#x},+{}) changed", n, op, i, l.id, l.addr, l.len); } }
        }
    }
    if !ops.is_empty() { put.note(); }
    while scope_depth > 0 { live.retain(|l| l.scope != scope_depth); put.scope_end(); scope_depth -= 1; }
    // final full verification, then release everything (RAII guards drop here too)
    for l in &live {
        if l.mem { if let Some(i) = unsafe { verify(l.addr, l.len, l.id, true) } {
            bad!(None, "at the end: byte {} of live block #{} [{:#x},+{}) changed", i, l.id, l.addr, l.len); } }
    }
    if put.supports_free() {
        while let Some(l) = live.pop() {
            match guarded(|| put.free(l.id)) {
                Err(p) => bad!(None, "final free of live block #{} panicked: {}", l.id, p),
                Ok(false) => bad!(None, "final free of live block #{} was reported as an error", l.id),
                Ok(true) => {}
            }
            for m in &live { if m.mem { if let Some(i) = unsafe { verify(m.addr, m.len, m.id, false) } {
                bad!(None, "final free of #{}: byte {} of live block #{} changed", l.id, i, m.id); } } }
        }
    }
    Some(obs)
}

/// narrow finding classes (none recorded for misalignment at present; kept as the single place to add one)
fn class_misaligned(_cell: &str) -> Option<&'static str> { None }

/// finding five_tl_offset_alias: ThreadLocalPool (level 4 of the five-level family, also behind AdaptiveFiveLevelPool)
/// returns offsets into the per-thread arena for fast-bin sizes and offsets into the shared MutexBasedPool otherwise;
/// both start at 0, so two live blocks can carry the same MemOffset.  The class is decidable on the case: the pool is a
/// ThreadLocalPool and the history contains a request that cannot be served from the arena's hot half (aligned size above
/// max_fast_block_size, or cumulative aligned fast-bin bytes above arena_size / 2).
fn five_tl_alias_class(is_tl: bool, cfg: &FiveLevelPoolConfig, ops: &[Vec<u64>]) -> bool {
    if !is_tl { return false; }
    let al = cfg.alignment as u64;
    let mut hot = 0u64;
    for o in ops {
        if o.get(0) != Some(&0) { continue; }
        let size = o.get(1).copied().unwrap_or(0);
        if size == 0 || size > u64::MAX - al { continue; }
        let a = (size + al - 1) & !(al - 1);
        if a > cfg.max_fast_block_size as u64 { return true; }
        hot = hot.saturating_add(a);
        if hot > (cfg.arena_size / 2) as u64 { return true; }
    }
    false
}

// ---------------- LockFreeMemoryPool ----------------
struct LfPut { pool: Arc<LockFreeMemoryPool>, msize: usize, h: HashMap<u64, (NonNull<u8>, usize)>, raii: bool, foreign_buf: Vec<u64> }
fn lf_config(preset: u64, msize: usize) -> LockFreePoolConfig {
    // presets 4..7: the presets 0..3 with the non-default `zero_on_free` (blocks freed through deallocate_with_zero are scrubbed;
    // the scrub must stay inside the block, whatever its size is relative to a cache line)
    let mut c = match preset % 4 { 1 => LockFreePoolConfig::default(), 2 => LockFreePoolConfig::high_performance(), _ => LockFreePoolConfig::compact() };
    if preset >= 4 { c.zero_on_free = true; c.enable_simd_optimization = true; }
    if msize != 0 { c.memory_size = msize; }
    c
}
impl Put for LfPut {
    fn alloc(&mut self, id: u64, size: usize, _align: usize) -> Option<Blk> {
        let p = if id % 5 == 4 { self.pool.allocate_bulk_simd(&[size]).ok()?.pop()? } else { self.pool.allocate(size).ok()? };
        self.h.insert(id, (p, size));
        Some(Blk { addr: p.as_ptr() as usize, usable: size, mem: true })
    }
    fn free(&mut self, id: u64) -> bool {
        let (p, size) = self.h.remove(&id).unwrap();
        if self.raii && id % 3 == 0 { drop(LockFreeAllocation::new(p, size, Arc::clone(&self.pool))); true }
        else if id % 3 == 1 { self.pool.deallocate_with_zero(p, size).is_ok() }
        else { self.pool.deallocate(p, size).is_ok() }
    }
    fn window(&self) -> Option<usize> { Some(self.msize) }
    fn must_refuse(&self, size: usize) -> bool { size > self.msize }
    fn cfg_align(&self) -> usize { 8 }
    fn foreign(&mut self, kind: u64, size: usize, first: Option<usize>, lowest: Option<usize>) -> Option<bool> {
        let p = match (kind, first, lowest) {
            (1, Some(f), _) => (f - 8 + self.msize) as *mut u8,           // one past the arena under the modelled layout (model comparison only)
            (2, _, Some(l)) => (l + self.msize) as *mut u8,                // lowest address ever issued + capacity: certainly outside the arena
            _ => self.foreign_buf.as_mut_ptr() as *mut u8,
        };
        Some(self.pool.deallocate(NonNull::new(p).unwrap(), size).is_ok())
    }
}

// ---------------- FixedCapacityMemoryPool ----------------
struct FcPut { h: HashMap<u64, FixedCapacityAllocation>, pool: Box<FixedCapacityMemoryPool>, cfg: FixedCapacityPoolConfig }
impl Put for FcPut {
    fn alloc(&mut self, id: u64, size: usize, _align: usize) -> Option<Blk> {
        let mut a = self.pool.allocate(size).ok()?;
        let blk = Blk { addr: a.as_ptr() as usize, usable: a.size(), mem: true };
        let _ = a.as_mut_slice().len();
        self.h.insert(id, a);
        Some(blk)
    }
    fn free(&mut self, id: u64) -> bool { self.h.remove(&id); true }
    fn window(&self) -> Option<usize> { Some(self.pool.total_capacity()) }
    fn must_refuse(&self, size: usize) -> bool { size > self.cfg.max_block_size }
    fn cfg_align(&self) -> usize { self.cfg.alignment }
}
impl Drop for FcPut { fn drop(&mut self) { self.h.clear(); } }
fn fc_config(preset: u64, mbs: usize, blocks: usize, align: usize, flags: u64) -> FixedCapacityPoolConfig {
    match preset {
        1 => FixedCapacityPoolConfig::default(),
        2 => FixedCapacityPoolConfig::small_objects(),
        3 => FixedCapacityPoolConfig::medium_objects(),
        4 => FixedCapacityPoolConfig::realtime(),
        5 => FixedCapacityPoolConfig::secure(),
        _ => FixedCapacityPoolConfig { max_block_size: mbs, total_blocks: blocks, alignment: align, enable_stats: flags & 1 != 0, eager_allocation: flags & 2 != 0, secure_clear: flags & 4 != 0 },
    }
}

// ---------------- BumpAllocator / BumpArena ----------------
struct BumpPut { scopes: Vec<zipora::memory::bump::BumpScope<'static>>, arena: Option<Box<BumpArena>>, plain: Option<BumpAllocator>, cap: usize }
impl Put for BumpPut {
    fn alloc(&mut self, _id: u64, size: usize, align: usize) -> Option<Blk> {
        let p = if let Some(s) = self.scopes.last() {
                    if size == 8 && align == 8 { s.alloc::<u64>().map(|p| p.cast::<u8>()) }
                    else if align == 4 && size % 4 == 0 { s.alloc_slice::<u32>(size / 4).map(|p| p.cast::<u8>()) }
                    else { s.alloc_bytes(size, align) } }
                else if let Some(a) = &self.arena {
                    if size == 8 && align == 8 { a.alloc::<u64>().map(|p| p.cast::<u8>()) }
                    else if align == 4 && size % 4 == 0 { a.alloc_slice::<u32>(size / 4).map(|p| p.cast::<u8>()) }
                    else { a.alloc_bytes(size, align) } }
                else { let a = self.plain.as_ref().unwrap();
                    if size == 8 && align == 8 { a.alloc::<u64>().map(|p| p.cast::<u8>()) }
                    else if align == 4 && size % 4 == 0 { a.alloc_slice::<u32>(size / 4).map(|p| p.cast::<u8>()) }
                    else { a.alloc_bytes(size, align) } }.ok()?;
        Some(Blk { addr: p.as_ptr() as usize, usable: size, mem: true })
    }
    fn free(&mut self, _id: u64) -> bool { true }
    fn supports_free(&self) -> bool { false }
    fn window(&self) -> Option<usize> { Some(self.cap) }
    fn must_refuse(&self, size: usize) -> bool { size > self.cap }
    fn scope_begin(&mut self) -> bool {
        match &self.arena {
            Some(a) => { let s: zipora::memory::bump::BumpScope<'_> = a.scope();
                         self.scopes.push(unsafe { std::mem::transmute::<_, zipora::memory::bump::BumpScope<'static>>(s) }); true }
            None => false,
        }
    }
    fn scope_end(&mut self) { self.scopes.pop(); }
}
impl Drop for BumpPut { fn drop(&mut self) { while self.scopes.pop().is_some() {} } }

// ---------------- five-level family (offsets, memory not reachable through the API) ----------------
enum Five { L1(NoLockingPool), L2(MutexBasedPool), L3(LockFreePool), L4(ThreadLocalPool), L5(FixedCapacityPool), Ad(AdaptiveFiveLevelPool) }
struct FivePut { p: Five, cfg: FiveLevelPoolConfig, cap: usize, h: HashMap<u64, (MemOffset, usize)>, alias: bool, stats: Vec<(usize, usize, Option<usize>)> }
fn off_value(o: &MemOffset) -> usize {
    let s = format!("{:?}", o);
    s.chars().filter(|c| c.is_ascii_digit()).collect::<String>().parse::<usize>().unwrap_or(usize::MAX)
}
impl Put for FivePut {
    fn alloc(&mut self, id: u64, size: usize, _align: usize) -> Option<Blk> {
        let r = match &mut self.p { Five::L1(p) => p.alloc(size), Five::L2(p) => p.alloc(size), Five::L3(p) => p.alloc(size),
                                    Five::L4(p) => p.alloc(size), Five::L5(p) => p.alloc(size), Five::Ad(p) => p.alloc(size) };
        let o = r.ok()?;
        let v = off_value(&o);
        self.h.insert(id, (o, size));
        Some(Blk { addr: v, usable: size, mem: false })
    }
    fn free(&mut self, id: u64) -> bool {
        let (o, size) = self.h.remove(&id).unwrap();
        match &mut self.p { Five::L1(p) => p.free(o, size), Five::L2(p) => p.free(o, size), Five::L3(p) => p.free(o, size),
                            Five::L4(p) => p.free(o, size), Five::L5(p) => p.free(o, size), Five::Ad(p) => p.free(o, size) }.is_ok()
    }
    fn abs_range(&self) -> Option<(usize, usize)> { Some((0, self.cap)) }
    fn must_refuse(&self, size: usize) -> bool { size > self.cap }
    fn cfg_align(&self) -> usize { self.cfg.alignment }
    fn overlap_class(&self) -> Option<&'static str> { if self.alias { Some("five_tl_offset_alias") } else { None } }
    fn note(&mut self) {
        // stats(): used_memory, fragment_size; remaining_capacity() where the pool has it
        let (st, rem) = match &self.p { Five::L1(p) => (p.stats(), None), Five::L2(p) => (p.stats(), None), Five::L3(p) => (p.stats(), None),
                                        Five::L4(p) => (p.stats(), None), Five::L5(p) => (p.stats(), Some(p.remaining_capacity())), Five::Ad(p) => (p.stats(), None) };
        self.stats.push((st.used_memory, st.fragment_size, rem));
    }
}
fn five_config(preset: u64, align: usize, cap: usize, fast: usize, arena: usize, fixed: usize) -> FiveLevelPoolConfig {
    match preset {
        1 => FiveLevelPoolConfig::default(),
        2 => FiveLevelPoolConfig::performance_optimized(),
        3 => FiveLevelPoolConfig::memory_optimized(),
        4 => FiveLevelPoolConfig::realtime(),
        _ => FiveLevelPoolConfig { max_fast_block_size: fast, alignment: align, initial_capacity: cap, arena_size: arena,
                                   fixed_capacity: if fixed > 0 { Some(fixed) } else { None }, ..FiveLevelPoolConfig::memory_optimized() },
    }
}

// ---------------- ThreadLocalMemoryPool ----------------
struct TlPut { h: HashMap<u64, ThreadLocalAllocation>, pool: Arc<ThreadLocalMemoryPool> }
impl Put for TlPut {
    fn alloc(&mut self, id: u64, size: usize, _align: usize) -> Option<Blk> {
        let mut a = self.pool.allocate(size).ok()?;
        let blk = Blk { addr: a.as_ptr() as usize, usable: a.size(), mem: true };
        let _ = a.as_mut_slice().len();
        self.h.insert(id, a);
        Some(blk)
    }
    fn free(&mut self, id: u64) -> bool { self.h.remove(&id); true }
    fn cfg_align(&self) -> usize { 8 }
}
impl Drop for TlPut { fn drop(&mut self) { self.h.clear(); self.pool.clear_caches(); } }

// ---------------- SecureMemoryPool ----------------
struct SecPut { h: HashMap<u64, SecurePooledPtr>, pool: Arc<SecureMemoryPool>, chunk: usize, align: usize, bulk: bool,
                // model comparison: chunk data address -> serial, observation of the current op, of all ops
                serials: HashMap<usize, u64>, pending: Vec<Option<i64>>, rec: Vec<Vec<Option<i64>>>,
                // a copy of the record of the chunk given back by the most recent guard drop (for the double-free op)
                stale: Option<(usize, zipora::memory::secure_pool::SecureChunk)> }
impl SecPut {
    fn serial(&mut self, addr: usize) -> i64 { let n = self.serials.len() as u64; *self.serials.entry(addr).or_insert(n) as i64 }
    fn known(&self, addr: usize) -> i64 { self.serials.get(&addr).map(|&v| v as i64).unwrap_or(-1) }
    /// the whole bookkeeping state through the inspectors: local cache and shared stack (top first), active table size
    fn dump(&self) -> Vec<Option<i64>> {
        let mut v = vec![];
        let cache = self.pool.verif_local_cache_chunks();
        v.push(Some(cache.len() as i64));
        for a in cache.iter().rev() { v.push(Some(self.known(*a))); }
        let mut stack = vec![];
        let mut node = self.pool.verif_stack_head();
        while node != 0 && stack.len() < 100000 { let (next, data) = unsafe { self.pool.verif_stack_node(node) }; stack.push(data); node = next; }
        v.push(Some(stack.len() as i64));
        for a in &stack { v.push(Some(self.known(*a))); }
        v.push(Some(self.pool.verif_active_len() as i64));
        v
    }
}
impl Put for SecPut {
    fn alloc(&mut self, id: u64, _size: usize, _align: usize) -> Option<Blk> {
        let r = if self.bulk && id % 4 == 0 { self.pool.allocate_bulk_with_prefetch(&[self.chunk]).ok().and_then(|mut v| v.pop()) }
                else if id % 4 == 1 { self.pool.allocate_with_hint(true).ok() } else { self.pool.allocate().ok() };
        let mut p = match r { Some(p) => p, None => { self.pending = vec![None, None]; return None; } };
        let blk = Blk { addr: p.as_ptr() as usize, usable: p.size(), mem: true };
        let _ = p.as_mut_slice().len();
        let ser = self.serial(blk.addr);
        self.pending = vec![Some(ser), Some(p.generation() as i64)];
        self.pending.extend(self.dump());
        self.h.insert(id, p);
        Some(blk)
    }
    fn free(&mut self, id: u64) -> bool {
        if let Some(g) = self.h.remove(&id) {
            self.stale = SecureMemoryPool::verif_chunk_copy(&g).map(|c| (g.as_ptr() as usize, c));
            drop(g);
        }
        self.pending = vec![Some(0)];
        self.pending.extend(self.dump());
        true
    }
    /// a second free of the chunk the most recent guard drop gave back (while it has not been handed out again):
    /// deallocate_internal must report it; Some(accepted)
    fn foreign(&mut self, _kind: u64, _size: usize, _first: Option<usize>, _lowest: Option<usize>) -> Option<bool> {
        let live_again = match &self.stale { Some((a, _)) => self.h.values().any(|g| g.as_ptr() as usize == *a), None => return None };
        if live_again { return None; }
        let (_, copy) = self.stale.take().unwrap();
        let acc = self.pool.verif_deallocate(copy).is_ok();
        self.pending = vec![if acc { Some(0) } else { None }];
        self.pending.extend(self.dump());
        Some(acc)
    }
    fn cfg_align(&self) -> usize { self.align }
    fn effective(&self, _size: usize) -> usize { self.chunk }
    fn note(&mut self) { let p = std::mem::take(&mut self.pending); self.rec.push(p); }
}
impl Drop for SecPut { fn drop(&mut self) { self.h.clear(); } }

// ---------------- MemoryPool / PooledBuffer / PooledVec ----------------
enum BasicH { Raw(NonNull<u8>), Buf(PooledBuffer), Vecu(PooledVec<u64>) }
struct BasicPut { h: HashMap<u64, BasicH>, pool: Option<MemoryPool>, chunk: usize, align: usize, mode: u64,
                  // model comparison (MemoryPool): chunk address -> serial, observation of the current op, of all ops
                  serials: HashMap<usize, u64>, next: u64, pending: Vec<Option<i64>>, rec: Vec<Vec<Option<i64>>> }
impl Put for BasicPut {
    fn alloc(&mut self, id: u64, size: usize, _align: usize) -> Option<Blk> {
        match self.mode {
            0 => { let pool = self.pool.as_ref().unwrap();
                   let hits = pool.stats().pool_hits;
                   let p = match pool.allocate() { Ok(p) => p, Err(_) => { self.pending = vec![None, None]; return None; } };
                   let hit = pool.stats().pool_hits != hits;
                   let addr = p.as_ptr() as usize;
                   let ser = if hit { self.serials.get(&addr).map(|&v| v as i64).unwrap_or(-1) } else { let n = self.next; self.next += 1; self.serials.insert(addr, n); n as i64 };
                   self.pending = vec![Some(hit as i64), Some(ser)];
                   self.h.insert(id, BasicH::Raw(p));
                   Some(Blk { addr, usable: self.chunk, mem: true }) }
            1 => { let mut b = PooledBuffer::new(size).ok()?;
                   let blk = Blk { addr: b.as_mut_slice().as_mut_ptr() as usize, usable: b.len(), mem: true };
                   self.h.insert(id, BasicH::Buf(b)); Some(blk) }
            _ => { let v = PooledVec::<u64>::new().ok()?;
                   let blk = Blk { addr: v.as_slice().as_ptr() as usize, usable: v.capacity() * 8, mem: true };
                   self.h.insert(id, BasicH::Vecu(v)); Some(blk) }
        }
    }
    fn free(&mut self, id: u64) -> bool {
        match self.h.remove(&id).unwrap() {
            BasicH::Raw(p) => { let pool = self.pool.as_ref().unwrap();
                                let before = pool.stats().chunks;
                                let ok = pool.deallocate(p).is_ok();
                                let kept = pool.stats().chunks > before;
                                if !kept { self.serials.remove(&(p.as_ptr() as usize)); }
                                self.pending = vec![Some(kept as i64)];
                                ok }
            _ => true }
    }
    fn cfg_align(&self) -> usize { self.align }
    fn must_refuse(&self, size: usize) -> bool { self.mode == 1 && size > PoolConfig::large().chunk_size }
    fn effective(&self, size: usize) -> usize { match self.mode { 0 => self.chunk, 1 => size, _ => 8 } }
    fn note(&mut self) { let p = std::mem::take(&mut self.pending); self.rec.push(p); }
}
impl Drop for BasicPut { fn drop(&mut self) {
    let hs: Vec<u64> = self.h.keys().copied().collect();
    for id in hs { self.free(id); }
} }

// ---------------- TieredMemoryAllocator / MemoryMappedAllocator / NUMA / hugepages ----------------
struct TieredPut { h: HashMap<u64, TieredAllocation>, a: TieredMemoryAllocator, global: bool,
                   // model comparison: chunk address -> (creating pool, serial), observation of the current op, of all ops
                   chunks: HashMap<usize, (u64, u64)>, serial: u64, pending: Vec<Option<i64>>, rec: Vec<Vec<Option<i64>>> }
impl TieredPut {
    /// (alloc_count, dealloc_count, pool_hits, chunks kept) of pool 0 (small) and pools 1..5 (medium classes of this thread)
    fn pool_counts(&self) -> Vec<(u64, u64, u64, usize)> {
        let st = self.a.stats();
        std::iter::once(&st.small_pool_stats).chain(st.medium_pool_stats.iter()).map(|p| (p.alloc_count, p.dealloc_count, p.pool_hits, p.chunks)).collect()
    }
}
impl Put for TieredPut {
    fn alloc(&mut self, id: u64, size: usize, _align: usize) -> Option<Blk> {
        if self.global {
            let mut t = zipora::memory::tiered_allocate(size).ok()?;
            let blk = Blk { addr: t.as_ptr::<u8>() as usize, usable: t.size(), mem: true };
            let _ = t.as_mut_slice().len();
            self.h.insert(id, t);
            return Some(blk);
        }
        let before = self.pool_counts();
        let r = self.a.allocate(size);
        let after = self.pool_counts();
        let mut t = match r { Ok(t) => t, Err(_) => { self.pending = vec![None; 5]; return None; } };
        let addr = t.as_ptr::<u8>() as usize;
        let tier = match &t { TieredAllocation::Small(..) => 0i64, TieredAllocation::Medium(..) => 1, TieredAllocation::Large(..) => 2, _ => 3 };
        self.pending = if tier >= 2 { vec![Some(tier), None, None, None, None] } else {
            let j = (0..before.len().min(after.len())).find(|&j| after[j].0 != before[j].0);
            match j { None => vec![Some(tier), Some(-1), None, None, None],
                Some(j) => { let hit = after[j].2 != before[j].2;
                    let (creator, serial) = if hit { self.chunks.get(&addr).copied().unwrap_or((99, 99)) }
                                            else { let e = (j as u64, self.serial); self.serial += 1; self.chunks.insert(addr, e); e };
                    vec![Some(tier), Some(j as i64), Some(hit as i64), Some(creator as i64), Some(serial as i64)] } } };
        let blk = Blk { addr, usable: t.size(), mem: true };
        let _ = t.as_mut_slice().len();
        self.h.insert(id, t);
        Some(blk)
    }
    fn free(&mut self, id: u64) -> bool {
        let t = self.h.remove(&id).unwrap();
        if self.global { return zipora::memory::tiered_deallocate(t).is_ok(); }
        let addr = t.as_ptr::<u8>() as usize;
        let pooled = matches!(&t, TieredAllocation::Small(..) | TieredAllocation::Medium(..));
        let before = self.pool_counts();
        let ok = self.a.deallocate(t).is_ok();
        let after = self.pool_counts();
        self.pending = if !pooled { vec![Some(9), Some(0)] } else {
            match (0..before.len().min(after.len())).find(|&j| after[j].1 != before[j].1) {
                None => vec![Some(-1), Some(0)],
                Some(j) => { let kept = after[j].3 > before[j].3; if !kept { self.chunks.remove(&addr); } vec![Some(j as i64), Some(kept as i64)] } } };
        ok
    }
    fn cfg_align(&self) -> usize { 8 }
    fn note(&mut self) { let p = std::mem::take(&mut self.pending); self.rec.push(p); }
}
impl Drop for TieredPut { fn drop(&mut self) { let hs: Vec<u64> = self.h.keys().copied().collect(); for id in hs { self.free(id); } } }

struct MmapPut { h: HashMap<u64, MmapAllocation>, a: MemoryMappedAllocator,
                 // model comparison: region address -> serial, observation of the current op, of all ops
                 serials: HashMap<usize, u64>, next: u64, pending: Vec<Option<i64>>, rec: Vec<Vec<Option<i64>>> }
impl Put for MmapPut {
    fn alloc(&mut self, id: u64, size: usize, _align: usize) -> Option<Blk> {
        let hits = self.a.stats().cache_hits;
        let mut m = match self.a.allocate(size) { Ok(m) => m, Err(_) => { self.pending = vec![None; 3]; return None; } };
        let hit = self.a.stats().cache_hits != hits;
        let addr = m.as_mut_ptr() as usize;
        let ser = if hit { self.serials.get(&addr).map(|&v| v as i64).unwrap_or(-1) } else { let n = self.next; self.next += 1; self.serials.insert(addr, n); n as i64 };
        let page = unsafe { libc::sysconf(libc::_SC_PAGESIZE) } as usize;
        // the usable size is the request rounded up to whole pages (the mapping), the guard exposes the requested size
        self.pending = vec![Some(hit as i64), Some(ser), Some((size.div_ceil(page) * page) as i64)];
        let blk = Blk { addr, usable: m.size(), mem: true };
        self.h.insert(id, m);
        Some(blk)
    }
    fn free(&mut self, id: u64) -> bool {
        let m = self.h.remove(&id).unwrap();
        let addr = m.as_slice().as_ptr() as usize;
        let before = self.a.stats().cached_regions;
        let ok = self.a.deallocate(m).is_ok();
        let kept = self.a.stats().cached_regions > before;
        if !kept { self.serials.remove(&addr); }
        self.pending = vec![Some(kept as i64)];
        ok
    }
    fn cfg_align(&self) -> usize { 4096 }
    fn must_refuse(&self, size: usize) -> bool { size > (1usize << 47) }
    fn note(&mut self) { let p = std::mem::take(&mut self.pending); self.rec.push(p); }
}
impl Drop for MmapPut { fn drop(&mut self) { let hs: Vec<u64> = self.h.keys().copied().collect(); for id in hs { self.free(id); } } }

struct NumaPut { h: HashMap<u64, (NonNull<u8>, usize, usize)>, pools: bool }
impl Put for NumaPut {
    fn alloc(&mut self, id: u64, size: usize, align: usize) -> Option<Blk> {
        let p = numa_alloc_aligned(size, align, 0).ok()?;
        self.h.insert(id, (p, size, align));
        Some(Blk { addr: p.as_ptr() as usize, usable: size, mem: true })
    }
    fn free(&mut self, id: u64) -> bool { let (p, s, a) = self.h.remove(&id).unwrap(); numa_dealloc(p, s, a, 0).is_ok() }
    fn cfg_align(&self) -> usize { 64 }
    fn must_refuse(&self, size: usize) -> bool { size > (1usize << 47) }
}
impl Drop for NumaPut { fn drop(&mut self) {
    let hs: Vec<u64> = self.h.keys().copied().collect(); for id in hs { self.free(id); }
    if self.pools { let _ = clear_numa_pools(); }
} }

struct HugePut { h: HashMap<u64, HugePage>, a: HugePageAllocator }
impl Put for HugePut {
    fn alloc(&mut self, id: u64, size: usize, _align: usize) -> Option<Blk> {
        let mut p = self.a.allocate(size).ok()?;
        let blk = Blk { addr: p.as_mut_slice().as_mut_ptr() as usize, usable: p.size(), mem: true };
        self.h.insert(id, p);
        Some(blk)
    }
    fn free(&mut self, id: u64) -> bool { self.h.remove(&id); true }
    fn cfg_align(&self) -> usize { 4096 }
}

// ------------------------------------------------------------------------------------------------
// one case
// ------------------------------------------------------------------------------------------------
fn u(v: &Value, k: &str) -> u64 { v[k].as_u64().unwrap_or(0) }
fn ops_of(c: &Value) -> Vec<Vec<u64>> {
    c["ops"].as_array().map(|a| a.iter().map(|o| o.as_array().map(|x| x.iter().map(|y| y.as_u64().unwrap_or(0)).collect()).unwrap_or_default()).collect()).unwrap_or_default()
}

fn coq_oz(o: &Option<i128>) -> String { match o { Some(z) if *z < 0 => format!("Some ({})%Z", z), Some(z) => format!("Some {}%Z", z), None => "None".to_string() } }

fn run_case(cx: &mut Ctx, c: &Value, force: bool) {
    std::fs::write(format!("{}/c07_current.json", cx.out), serde_json::to_string(c).unwrap()).ok();
    let ops = ops_of(c);
    let cellk = c["cell"].as_str().unwrap_or("").to_string();
    let key = c.to_string();
    let nontrivial = ops.iter().filter(|o| o.get(0) == Some(&0)).count() >= 2;
    match cellk.as_str() {
        "lockfree" => {
            let cell = "LockFreeMemoryPool";
            cx.sum.eval(cell, &key, nontrivial);
            let msize = u(c, "msize") as usize; let preset = u(c, "preset");
            let cfg = lf_config(preset, msize);
            let msize = cfg.memory_size;
            let pool = match guarded(|| LockFreeMemoryPool::new(cfg)) { Ok(Ok(p)) => p, Ok(Err(_)) => { cx.sum.dist("pool_new_refused"); return; }
                Err(p) => { cx.sum.fail(cell, None, c.clone(), &format!("LockFreeMemoryPool::new panicked: {}", p)); return; } };
            let mut put = LfPut { pool: Arc::new(pool), msize, h: HashMap::new(), raii: u(c, "raii") != 0, foreign_buf: vec![0u64; 2048] };
            if let Some(obs) = drive(cx, cell, c, &mut put, &ops) {
                if cx.room("lockfree", force) {
                    // offsets relative to the first successful allocation
                    let first = ops.iter().zip(obs.iter()).find(|(o, r)| o[0] == 0 && r.is_some()).map(|(_, r)| r.unwrap()).unwrap_or(0);
                    let mut cops = vec![]; let mut exp = vec![];
                    for (o, r) in ops.iter().zip(obs.iter()) {
                        match o[0] {
                            0 => { cops.push(format!("OAlloc {}", o[1])); exp.push(coq_oz(&r.map(|a| a - first))); }
                            1 => { cops.push(format!("OFree {}", o[1])); exp.push(coq_oz(r)); }
                            2 => { let has_first = ops.iter().zip(obs.iter()).take_while(|(oo, _)| !std::ptr::eq(*oo, o)).any(|(oo, rr)| oo[0] == 0 && rr.is_some());
                                   let off = if o[1] == 1 && has_first { format!("{}%Z", msize) } else if o[1] == 2 && has_first { format!("{}%Z", msize + 8) } else { "(-1)%Z".to_string() };
                                   cops.push(format!("OForeign {} {}", off, o.get(2).copied().unwrap_or(0).max(1))); exp.push(coq_oz(r)); }
                            _ => {}
                        }
                    }
                    let term = format!("XOld (CLf {} {} [{}] [{}])", coq_n_list(cx.impl_bins.iter().map(|&x| x as u128)), msize, cops.join("; "), exp.join("; "));
                    cx.shards.push(term, c.clone());
                }
            }
        }
        "fixedcap" => {
            let cell = "FixedCapacityMemoryPool";
            cx.sum.eval(cell, &key, nontrivial);
            let cfg = fc_config(u(c, "preset"), u(c, "mbs") as usize, u(c, "blocks") as usize, u(c, "align") as usize, u(c, "flags"));
            let pool = match guarded(|| FixedCapacityMemoryPool::new(cfg.clone())) { Ok(Ok(p)) => p, Ok(Err(_)) => { cx.sum.dist("pool_new_refused"); return; }
                Err(p) => { cx.sum.fail(cell, None, c.clone(), &format!("FixedCapacityMemoryPool::new panicked: {}", p)); return; } };
            let (mx, al, nb) = (cfg.max_block_size, cfg.alignment, cfg.total_blocks);
            let mut put = FcPut { h: HashMap::new(), pool: Box::new(pool), cfg };
            if let Some(obs) = drive(cx, cell, c, &mut put, &ops) {
                // model comparison (pools of at most 2000 blocks keep the Coq terms small)
                if nb <= 2000 && cx.room("fixedcap", force) {
                    let first = ops.iter().zip(obs.iter()).find(|(o, r)| o[0] == 0 && r.is_some()).map(|(_, r)| r.unwrap()).unwrap_or(0);
                    let mut cops = vec![]; let mut exp = vec![];
                    for (o, r) in ops.iter().zip(obs.iter()) {
                        match o[0] {
                            0 => { cops.push(format!("FAlloc {}", o[1])); exp.push(coq_oz(&r.map(|a| a - first))); }
                            1 => { cops.push(format!("FFree {}", o[1])); exp.push(coq_oz(r)); }
                            _ => {}
                        }
                    }
                    cx.shards.push(format!("XOld (CFc {} {} {} [{}] [{}])", mx, al, nb, cops.join("; "), exp.join("; ")), c.clone());
                }
            }
        }
        "bump" => {
            let cell = if u(c, "arena") != 0 { "BumpArena" } else { "BumpAllocator" };
            cx.sum.eval(cell, &key, nontrivial);
            let cap = u(c, "cap") as usize;
            let mut put = if u(c, "arena") != 0 {
                match guarded(|| BumpArena::new(cap)) { Ok(Ok(a)) => BumpPut { scopes: vec![], arena: Some(Box::new(a)), plain: None, cap }, _ => { cx.sum.dist("pool_new_refused"); return; } }
            } else {
                match guarded(|| BumpAllocator::new(cap)) { Ok(Ok(a)) => BumpPut { scopes: vec![], arena: None, plain: Some(a), cap }, _ => { cx.sum.dist("pool_new_refused"); return; } }
            };
            if let Some(obs) = drive(cx, cell, c, &mut put, &ops) {
                // model comparison: histories that start with alloc(1,1) (its address is the buffer base) and
                // whose scopes are not nested and contain only allocations
                let shape_ok = ops.first().map(|o| o[0] == 0 && o[1] == 1 && o.get(2).copied().unwrap_or(1) <= 1).unwrap_or(false) && obs[0].is_some() && {
                    let mut d = 0; let mut okk = true;
                    for o in &ops { match o[0] { 3 => { d += 1; if d > 1 { okk = false; } } 4 => { if d == 0 { okk = false; } else { d -= 1; } } 0 => {} _ => { if d > 0 { okk = false; } } } }
                    okk && d == 0 };
                if shape_ok && cx.room("bump", force) {
                    let base = obs[0].unwrap();
                    let mut cops: Vec<String> = vec![]; let mut exp = vec![]; let mut inner: Option<Vec<String>> = None;
                    for (o, r) in ops.iter().zip(obs.iter()) {
                        match o[0] {
                            0 => { let t = format!("({}, {})", o[1], o.get(2).copied().unwrap_or(1).max(1));
                                   exp.push(coq_oz(&r.map(|a| a - base)));
                                   match &mut inner { Some(v) => v.push(t), None => cops.push(format!("BAlloc {} {}", o[1], o.get(2).copied().unwrap_or(1).max(1))) } }
                            3 => { if u(c, "arena") != 0 { inner = Some(vec![]); } }
                            4 => { if let Some(v) = inner.take() { cops.push(format!("BScope [{}]", v.join("; "))); } }
                            _ => {}
                        }
                    }
                    let term = format!("XOld (CBump {} {} [{}] [{}])", cap, base, cops.join("; "), exp.join("; "));
                    cx.shards.push(term, c.clone());
                }
            }
        }
        "five" => {
            let level = u(c, "level");
            let sub = u(c, "sublevel");
            let cfg = five_config(u(c, "preset"), u(c, "align") as usize, u(c, "cap") as usize, u(c, "fast") as usize, u(c, "arena") as usize, u(c, "fixed") as usize);
            let cfg2 = cfg.clone();
            // the member of the family the case exercises (for AdaptiveFiveLevelPool::new it depends on the machine,
            // so it is read back from current_level() below)
            let ad_level = |sub: u64| [ConcurrencyLevel::SingleThread, ConcurrencyLevel::MultiThreadMutex, ConcurrencyLevel::MultiThreadLockFree, ConcurrencyLevel::ThreadLocal, ConcurrencyLevel::FixedCapacity][((sub - 1) % 5) as usize];
            let made = guarded(move || -> Result<Five, String> { Ok(match level {
                0 => Five::L1(NoLockingPool::new(cfg2).map_err(|e| e.to_string())?),
                1 => Five::L2(MutexBasedPool::new(cfg2).map_err(|e| e.to_string())?),
                2 => Five::L3(LockFreePool::new(cfg2).map_err(|e| e.to_string())?),
                3 => Five::L4(ThreadLocalPool::new(cfg2).map_err(|e| e.to_string())?),
                4 => Five::L5(FixedCapacityPool::new(cfg2).map_err(|e| e.to_string())?),
                _ => { if sub == 0 { Five::Ad(AdaptiveFiveLevelPool::new(cfg2).map_err(|e| e.to_string())?) }
                       else { Five::Ad(AdaptiveFiveLevelPool::with_level(cfg2, ad_level(sub)).map_err(|e| e.to_string())?) } }
            }) });
            // model kind: 0 NoLock, 1 Mutex, 2 LockFree, 3 ThreadLocal (not modelled), 4 FixedCap; None = not known before construction
            let kind_of = |l: ConcurrencyLevel| match l { ConcurrencyLevel::SingleThread => 0u64, ConcurrencyLevel::MultiThreadMutex => 1, ConcurrencyLevel::MultiThreadLockFree => 2,
                                                           ConcurrencyLevel::ThreadLocal => 3, ConcurrencyLevel::FixedCapacity => 4 };
            let kind: Option<u64> = match (&made, level) {
                (Ok(Ok(Five::Ad(a))), _) => Some(kind_of(a.current_level())),
                (_, 0..=4) => Some(level),
                (_, _) if sub != 0 => Some(kind_of(ad_level(sub))),
                _ => if cfg.fixed_capacity.is_some() { Some(4) } else { None },
            };
            let is_tl = kind == Some(3);
            let cell = if level >= 5 { format!("five_level/AdaptiveFiveLevelPool{}", if is_tl { "(ThreadLocal)" } else { "" }) }
                       else { format!("five_level/{}", ["NoLockingPool", "MutexBasedPool", "LockFreePool", "ThreadLocalPool", "FixedCapacityPool"][level as usize]) };
            cx.sum.eval(&cell, &key, nontrivial);
            // level 4 is modelled as it is (refutation theorem five_tl_offset_alias_refuted); its overlaps are a listed finding
            // the model's configuration: the FixedCapacityPool owns max_capacity = fixed_capacity.unwrap_or(initial_capacity)
            let mcap = if kind == Some(4) { cfg.fixed_capacity.unwrap_or(cfg.initial_capacity) } else { cfg.initial_capacity };
            let mcfg = format!("(mkFC {} {} {} {})", ["KNoLock", "KMutex", "KLockFree", "KMutex", "KFixedCap"][kind.unwrap_or(0) as usize], cfg.alignment, mcap, cfg.max_fast_block_size);
            let modelled = !is_tl && kind.is_some();
            let p = match made { Ok(Ok(p)) => p,
                Ok(Err(_)) => { cx.sum.dist("pool_new_refused");
                                if modelled && cx.room("five", force) { cx.shards.push(format!("X5 {} false false [] []", mcfg), c.clone()); }
                                if is_tl && cx.room("five", force) { cx.shards.push(format!("X5T {} {} false [] []", mcfg, cfg.arena_size), c.clone()); }
                                return; }
                Err(p) => { cx.sum.fail(&cell, None, c.clone(), &format!("constructor panicked: {}", p)); return; } };
            let cap = match (&p, cfg.fixed_capacity) { (Five::L5(_), Some(f)) => f, (Five::L4(_), _) => cfg.initial_capacity.max(cfg.arena_size),
                                                        (Five::Ad(_), f) => cfg.initial_capacity.max(cfg.arena_size).max(f.unwrap_or(0)), _ => cfg.initial_capacity };
            let alias = five_tl_alias_class(is_tl, &cfg, &ops);
            let direct_fixed = matches!(&p, Five::L5(_));
            let arena_size = cfg.arena_size;
            let mut put = FivePut { p, cfg, cap, h: HashMap::new(), alias, stats: vec![] };
            if let Some(obs) = drive(cx, &cell, c, &mut put, &ops) {
                if is_tl && cx.room("five", force) {
                    // level 4: offsets only (histories in which the two offset spaces collide stop at the oracle: known finding)
                    let mut cops = vec![]; let mut exp = vec![];
                    for (o, r) in ops.iter().zip(obs.iter()) {
                        match o[0] { 0 => cops.push(format!("A5 {}", o[1])), 1 => cops.push(format!("F5 {}", o[1])), _ => continue }
                        exp.push(coq_oz(r));
                    }
                    cx.shards.push(format!("X5T {} {} true [{}] [{}]", mcfg, arena_size, cops.join("; "), exp.join("; ")), c.clone());
                }
                if modelled && put.stats.len() == ops.len() && cx.room("five", force) {
                    let mut cops = vec![]; let mut exp = vec![];
                    for ((o, r), st) in ops.iter().zip(obs.iter()).zip(put.stats.iter()) {
                        match o[0] { 0 => cops.push(format!("A5 {}", o[1])), 1 => cops.push(format!("F5 {}", o[1])), _ => continue }
                        exp.push(coq_oz(r));
                        exp.push(format!("Some {}%Z", st.0)); exp.push(format!("Some {}%Z", st.1));
                        if let Some(rem) = st.2 { exp.push(format!("Some {}%Z", rem)); }
                    }
                    cx.shards.push(format!("X5 {} true {} [{}] [{}]", mcfg, coq_bool(direct_fixed), cops.join("; "), exp.join("; ")), c.clone());
                }
            }
        }
        "threadlocal" => {
            let cell = "ThreadLocalMemoryPool";
            cx.sum.eval(cell, &key, nontrivial);
            let mut cfg = match u(c, "preset") { 1 => ThreadLocalPoolConfig::default(), 2 => ThreadLocalPoolConfig::high_performance(), _ => ThreadLocalPoolConfig::compact() };
            if u(c, "arena") != 0 { cfg.arena_size = u(c, "arena") as usize; }
            if u(c, "cached") != 0 { cfg.max_cached_chunks = u(c, "cached") as usize; }
            if u(c, "nosecure") != 0 { cfg.use_secure_memory = false; }
            let (arena, maxc) = (cfg.arena_size, cfg.max_cached_chunks);
            let pool = match guarded(|| ThreadLocalMemoryPool::new(cfg)) { Ok(Ok(p)) => p, _ => { cx.sum.dist("pool_new_refused"); return; } };
            pool.clear_caches();
            let mut put = TlPut { h: HashMap::new(), pool };
            if let Some(obs) = drive(cx, cell, c, &mut put, &ops) {
                if cx.room("threadlocal", force) {
                    // an address is (arena, offset): arenas in order of first appearance, the first block of a new arena is its base
                    let mut bases: Vec<usize> = vec![];
                    let mut cops = vec![]; let mut exp = vec![];
                    for (o, r) in ops.iter().zip(obs.iter()) {
                        match o[0] {
                            0 => { cops.push(format!("TA {}", o[1]));
                                   match r { Some(a) => { let a = *a as usize;
                                                          let k = match bases.iter().position(|&b| b <= a && a - b < arena) { Some(k) => k, None => { bases.push(a); bases.len() - 1 } };
                                                          exp.push(format!("Some {}%Z", k)); exp.push(format!("Some {}%Z", a - bases[k])); }
                                             None => { exp.push("None".to_string()); exp.push("None".to_string()); } } }
                            1 => { cops.push(format!("TF {}", o[1])); exp.push(coq_oz(r)); }
                            _ => {}
                        }
                    }
                    cx.shards.push(format!("XTl {} (mkTLC {} {}) [{}] [{}]", coq_n_list(cx.tl_classes.iter().map(|&x| x as u128)), arena, maxc, cops.join("; "), exp.join("; ")), c.clone());
                }
            }
        }
        "secure" => {
            let cell = "SecureMemoryPool";
            cx.sum.eval(cell, &key, nontrivial);
            let cfg = match u(c, "preset") { 1 => SecurePoolConfig::small_secure(), 2 => SecurePoolConfig::medium_secure(), 3 => SecurePoolConfig::large_secure(),
                _ => SecurePoolConfig::new(u(c, "chunk") as usize, u(c, "maxchunks") as usize, u(c, "align") as usize).with_local_cache_size(u(c, "lcache") as usize).with_zero_on_alloc(u(c, "flags") & 1 != 0) };
            let (chunk, align, lcache) = (cfg.chunk_size, cfg.alignment, cfg.local_cache_size);
            let pool = match guarded(|| SecureMemoryPool::new(cfg)) { Ok(Ok(p)) => p, _ => { cx.sum.dist("pool_new_refused"); return; } };
            let mut put = SecPut { h: HashMap::new(), pool: pool.clone(), chunk, align, bulk: u(c, "flags") & 2 != 0, serials: HashMap::new(), pending: vec![], rec: vec![], stale: None };
            if drive(cx, cell, c, &mut put, &ops).is_some() {
                if put.rec.len() == ops.len() && cx.room("secure", force) {
                    let mut cops = vec![]; let mut exp: Vec<String> = vec![];
                    for (o, r) in ops.iter().zip(put.rec.iter()) {
                        match o[0] { 0 => cops.push("SAl".to_string()), 1 => cops.push(format!("SFr {}", o[1])), 2 => cops.push("SDbl".to_string()), _ => continue }
                        for x in r { exp.push(coq_oz(&x.map(|v| v as i128))); }
                    }
                    cx.shards.push(format!("XSec {} [{}] [{}]", lcache, cops.join("; "), exp.join("; ")), c.clone());
                }
                drop(put);
                if let Err(e) = pool.validate() { cx.sum.fail(cell, None, c.clone(), &format!("pool.validate() after the history: {}", e)); }
            }
        }
        "basic" => {
            let mode = u(c, "mode");
            let cell = ["MemoryPool", "PooledBuffer", "PooledVec"][mode.min(2) as usize];
            cx.sum.eval(cell, &key, nontrivial);
            let (chunk, align) = (u(c, "chunk") as usize, u(c, "align") as usize);
            let pool = if mode == 0 {
                let cfg = match u(c, "preset") { 1 => PoolConfig::small(), 2 => PoolConfig::medium(), 3 => PoolConfig::large(), _ => PoolConfig::new(chunk, u(c, "maxchunks") as usize, align) };
                match guarded(|| MemoryPool::new(cfg)) { Ok(Ok(p)) => Some(p), _ => { cx.sum.dist("pool_new_refused"); return; } }
            } else { None };
            let (chunk, align) = match &pool { Some(p) => (p.config().chunk_size, p.config().alignment), None => (chunk, 8) };
            let maxc = pool.as_ref().map(|p| p.config().max_chunks).unwrap_or(0);
            if mode != 0 { cx.sum.cell_status(cell, "S-only"); }
            let mut put = BasicPut { h: HashMap::new(), pool, chunk, align, mode, serials: HashMap::new(), next: 0, pending: vec![], rec: vec![] };
            if drive(cx, cell, c, &mut put, &ops).is_some() && mode == 0 && put.rec.len() == ops.len() && cx.room("mempool", force) {
                let mut cops = vec![]; let mut exp: Vec<String> = vec![];
                for (o, r) in ops.iter().zip(put.rec.iter()) {
                    match o[0] { 0 => cops.push("MAl".to_string()), 1 => cops.push(format!("MFr {}", o[1])), _ => continue }
                    for x in r { exp.push(coq_oz(&x.map(|v| v as i128))); }
                }
                cx.shards.push(format!("XMp {} [{}] [{}]", maxc, cops.join("; "), exp.join("; ")), c.clone());
            }
        }
        "tiered" => {
            let cell = "TieredMemoryAllocator";
            cx.sum.eval(cell, &key, nontrivial);
            let f = u(c, "flags");
            let cfg = if u(c, "preset") == 1 { TieredConfig::default() } else {
                TieredConfig { enable_small_pools: f & 1 != 0, enable_medium_pools: f & 2 != 0, enable_mmap_large: f & 4 != 0, enable_hugepages: f & 8 != 0, ..TieredConfig::default() } };
            let mcfg = format!("(mkTC {} {} {} {} {} {} false)", coq_bool(cfg.enable_small_pools), coq_bool(cfg.enable_medium_pools), coq_bool(cfg.enable_mmap_large),
                               coq_bool(cfg.enable_hugepages), cfg.mmap_threshold, cfg.hugepage_threshold);
            let a = match guarded(|| TieredMemoryAllocator::new(cfg)) { Ok(Ok(a)) => a, _ => { cx.sum.dist("pool_new_refused"); return; } };
            let global = u(c, "preset") == 2;
            let mut put = TieredPut { h: HashMap::new(), a, global, chunks: HashMap::new(), serial: 0, pending: vec![], rec: vec![] };
            if drive(cx, cell, c, &mut put, &ops).is_some() {
                // model comparison: allocators of their own (the global one keeps its small pool across cases), on machines
                // where hugepage requests are refused (the model's t_hp_ok = false), sizes the mmap tier can certainly serve
                let hp_ok = HugePageAllocator::new().ok().map(|h| h.allocate(2 << 20).is_ok()).unwrap_or(false);
                let sizes_ok = ops.iter().all(|o| o[0] != 0 || o[1] <= (64 << 20));
                if !global && !hp_ok && sizes_ok && put.rec.len() == ops.len() && cx.room("tiered", force) {
                    let mut cops = vec![]; let mut exp: Vec<String> = vec![];
                    for (o, r) in ops.iter().zip(put.rec.iter()) {
                        match o[0] { 0 => cops.push(format!("TAl {}", o[1])), 1 => cops.push(format!("TFr {}", o[1])), _ => continue }
                        for x in r { exp.push(coq_oz(&x.map(|v| v as i128))); }
                    }
                    cx.shards.push(format!("XTi {} [{}] [{}]", mcfg, cops.join("; "), exp.join("; ")), c.clone());
                }
            }
        }
        "mmap" => {
            let cell = "MemoryMappedAllocator";
            cx.sum.eval(cell, &key, nontrivial);
            let min = u(c, "min") as usize;
            let mut put = MmapPut { h: HashMap::new(), a: MemoryMappedAllocator::new(min), serials: HashMap::new(), next: 0, pending: vec![], rec: vec![] };
            if drive(cx, cell, c, &mut put, &ops).is_some() {
                // model comparison: sizes a mapping certainly succeeds for (or whose page rounding overflows)
                let pg = unsafe { libc::sysconf(libc::_SC_PAGESIZE) } as u64;
                let sizes_ok = ops.iter().all(|o| o[0] != 0 || o[1] <= (1 << 30) || o[1] > u64::MAX - (pg - 1));
                if sizes_ok && put.rec.len() == ops.len() && cx.room("mmap", force) {
                    let page = unsafe { libc::sysconf(libc::_SC_PAGESIZE) } as usize;
                    let mut cops = vec![]; let mut exp: Vec<String> = vec![];
                    for (o, r) in ops.iter().zip(put.rec.iter()) {
                        match o[0] { 0 => cops.push(format!("MMA {}", o[1])), 1 => cops.push(format!("MMF {}", o[1])), _ => continue }
                        for x in r { exp.push(coq_oz(&x.map(|v| v as i128))); }
                    }
                    cx.shards.push(format!("XMm {} {} [{}] [{}]", min, page, cops.join("; "), exp.join("; ")), c.clone());
                }
            }
        }
        "numa" => {
            let cell = "numa_alloc_aligned";
            cx.sum.eval(cell, &key, nontrivial); cx.sum.cell_status(cell, "S-only");
            let pools = u(c, "pools") != 0;
            if pools { let _ = init_numa_pools(); }
            let mut put = NumaPut { h: HashMap::new(), pools };
            drive(cx, cell, c, &mut put, &ops);
        }
        "huge" => {
            let cell = "HugePageAllocator";
            cx.sum.eval(cell, &key, nontrivial); cx.sum.cell_status(cell, "S-only");
            if let Ok(a) = HugePageAllocator::new() { let mut put = HugePut { h: HashMap::new(), a }; drive(cx, cell, c, &mut put, &ops); }
        }
        _ => {}
    }
}

/// every case runs on a fresh thread: several pools keep per-thread caches in `thread_local!` statics
fn run_case_threaded(cx: &mut Ctx, c: &Value, force: bool) {
    std::thread::scope(|s| { let _ = s.spawn(|| run_case(cx, c, force)).join(); });
}

// ------------------------------------------------------------------------------------------------
// generators
// ------------------------------------------------------------------------------------------------
fn classes_for(kind: &str, bins: &[u64]) -> Vec<u64> {
    match kind {
        "lockfree" => bins.to_vec(),
        "threadlocal" => vec![16, 32, 48, 64, 96, 128, 192, 256, 384, 512, 768, 1024, 1536, 2048, 3072, 4096],
        _ => vec![8, 16, 24, 32, 64, 96, 128, 192, 256, 288, 432, 512, 648, 1024, 2048, 4096, 8192, 16384, 32768, 65536],
    }
}
/// a request size biased to the class boundaries / capacity of the pool
fn gen_size(r: &mut Rng, classes: &[u64], cap: u64, focus: &[u64], huge: bool) -> u64 {
    let d = [-9i64, -8, -7, -1, 0, 0, 1, 7, 8];
    let s = match r.below(20) {
        0..=7 => { let c = *r.pick(if !focus.is_empty() { focus } else { classes }); (c as i64 + *r.pick(&d)).max(1) as u64 }
        8..=10 => { let c = *r.pick(classes); (c as i64 + *r.pick(&d)).max(1) as u64 }
        11..=13 => r.range(1, 40),
        14 => *r.pick(&[8185u64, 8191, 8192, 8193, 8200, 10000, 16384, 0]),
        15..=16 => { let v = [cap, cap.saturating_sub(8), cap.saturating_sub(16), cap + 1, cap / 2, cap / 4, cap / 4 + 1, cap / 3]; (*r.pick(&v)).max(1) }
        17 => if huge { *r.pick(&[0xFFFF_FFF8u64, 0xFFFF_FFF0, 1 << 32, (1 << 32) + 8, u64::MAX, u64::MAX - 7, u64::MAX - 8, 1 << 63, (1 << 63) - 8]) } else { r.range(1, 300) },
        _ => { let c = *r.pick(classes); r.range(c / 2 + 1, c.max(2)) }
    };
    s
}
fn gen_ops(r: &mut Rng, n: u64, classes: &[u64], cap: u64, huge: bool, foreign: bool, aligns: &[u64]) -> Vec<Vec<u64>> {
    let mut focus: Vec<u64> = vec![];
    if r.chance(1, 2) { for _ in 0..r.range(1, 2) { focus.push(*r.pick(classes)); } }
    let mut ops = vec![];
    let free_bias = r.range(2, 6);
    for _ in 0..n {
        match r.below(10) {
            x if x < free_bias => ops.push(vec![1, r.below(64)]),
            9 if foreign && r.chance(1, 3) => ops.push(vec![2, r.below(3), gen_size(r, classes, cap, &focus, false)]),
            _ => ops.push(vec![0, gen_size(r, classes, cap, &focus, huge), *r.pick(aligns)]),
        }
    }
    ops
}

fn gen_case(r: &mut Rng, which: u64, bins: &[u64]) -> Value {
    match which {
        0 => { // lockfree
            let preset = *r.pick(&[0u64, 0, 0, 0, 0, 0, 1, 3, 2, 4, 4, 4, 5, 6]);
            let msize = if preset % 4 == 0 || r.chance(2, 3) { *r.pick(&[256u64, 1024, 4096, 4096, 16384, 65536, 1 << 20]) } else { 0 };
            let cap = if msize == 0 { [16u64 << 20, 64 << 20, 256 << 20, 16 << 20][(preset % 4) as usize] } else { msize };
            let cl = classes_for("lockfree", bins);
            let n = r.range(3, 70);
            json!({"cell": "lockfree", "preset": preset, "msize": msize, "raii": r.below(2), "ops": gen_ops(r, n, &cl, cap, true, true, &[1])})
        }
        1 => { // fixed capacity
            let preset = *r.pick(&[0u64, 0, 0, 1, 2, 3, 4, 5]);
            let align = *r.pick(&[8u64, 8, 16, 32, 64, 4, 1, 3]);
            // mostly well-formed configurations; some whose block size cannot hold the 16-byte block header or is not a
            // multiple of the alignment (these must be refused by the constructor, not produce misaligned blocks)
            let mbs = if r.chance(1, 8) { *r.pick(&[8u64, 12, 24, 100, 1000, 0]) } else { align * *r.pick(&[2u64, 4, 8, 16, 33, 128, 512]) };
            let blocks = *r.pick(&[1u64, 2, 3, 8, 50, 0]);
            let cap = match preset { 1 | 5 => 4096, 2 => 1024, 3 => 65536, 4 => 8192, _ => mbs };
            let cl: Vec<u64> = classes_for("", bins).into_iter().filter(|&c| c <= cap).chain([cap, cap / 2]).collect();
            let n = r.range(3, 60);
            json!({"cell": "fixedcap", "preset": preset, "mbs": mbs, "blocks": blocks, "align": align, "flags": r.below(8), "ops": gen_ops(r, n, &cl, cap, true, false, &[1])})
        }
        2 => { // bump
            let cap = *r.pick(&[1u64, 7, 64, 100, 1000, 4096, 4097, 65536, 200000, 1 << 20]);
            let arena = r.below(2);
            let cl: Vec<u64> = vec![1, 3, 8, 16, 24, 100, 256, 1000, 4096];
            let aligns = [1u64, 1, 2, 4, 8, 16, 32, 64, 128, 4096, 3, 0];
            let mut ops = vec![vec![0u64, 1, 1]];
            let n = r.range(2, 40);
            let mut depth = 0;
            for _ in 0..n {
                match r.below(12) {
                    0 if arena == 1 && depth == 0 => { ops.push(vec![3]); depth += 1; }
                    1 if depth > 0 => { ops.push(vec![4]); depth -= 1; }
                    2 if arena == 1 && r.chance(1, 4) => { ops.push(vec![3]); depth += 1; }
                    _ => ops.push(vec![0, gen_size(r, &cl, cap, &[], true), *r.pick(&aligns)]),
                }
            }
            json!({"cell": "bump", "cap": cap, "arena": arena, "ops": ops})
        }
        3 => { // five-level family
            let level = r.below(6);
            let preset = *r.pick(&[0u64, 0, 0, 0, 1, 2, 3, 4]);
            // alignments below 4 cannot hold the 4-byte free-list link, capacities above u32::MAX cannot be addressed by a
            // MemOffset: the constructors must refuse both (never hand out blocks)
            let align = *r.pick(&[8u64, 8, 8, 16, 32, 64, 4, 4, 2, 1]);
            let cap = if r.chance(1, 40) { *r.pick(&[(1u64 << 32) + 8, 1 << 32, u32::MAX as u64]) } else { *r.pick(&[256u64, 1024, 4096, 65536]) };
            let fast = *r.pick(&[64u64, 256, 1024, 4096]);
            let arena = *r.pick(&[512u64, 2048, 8192, 1 << 16]);
            let fixed = if level == 4 || r.chance(1, 4) { *r.pick(&[128u64, 1024, 4096]) } else { 0 };
            let pcap = match preset { 1 => 1 << 20, 2 => 8 << 20, 3 => 512 << 10, 4 => 16 << 20, _ => if fixed > 0 && level >= 4 { fixed } else { cap } };
            let cl: Vec<u64> = (1..=8).map(|k| k * align).chain([fast.saturating_sub(align).max(1), fast, fast + align, 2 * fast]).collect();
            let n = r.range(3, 60);
            json!({"cell": "five", "level": level, "sublevel": r.below(6), "preset": preset, "align": align, "cap": cap, "fast": fast, "arena": arena, "fixed": fixed,
                   "ops": gen_ops(r, n, &cl, pcap, true, false, &[1])})
        }
        4 => { // thread-local pool
            let preset = *r.pick(&[0u64, 0, 0, 1, 3]);
            let arena = if preset == 0 { *r.pick(&[1024u64, 4096, 16384, 65536]) } else { 0 };
            let cap = if arena == 0 { 512 << 10 } else { arena };
            let cl = classes_for("threadlocal", bins);
            let n = r.range(3, 70);
            json!({"cell": "threadlocal", "preset": preset, "arena": arena, "cached": *r.pick(&[0u64, 1, 2, 64]), "nosecure": r.below(2),
                   "ops": gen_ops(r, n, &cl, cap, false, false, &[1])})
        }
        5 => { // secure pool
            let preset = *r.pick(&[0u64, 0, 1, 2, 3]);
            let n = if preset == 3 { r.range(2, 8) } else { r.range(3, 60) };
            // op 2 = a second free of the chunk the previous guard drop gave back (through the verification hook)
            let mut ops: Vec<Vec<u64>> = vec![];
            for mut o in gen_ops(r, n, &[8], 8, false, true, &[1]) {
                if o[0] == 2 { o[1] = 0; }
                let was_free = o[0] == 1;
                ops.push(o);
                if was_free && r.chance(1, 4) { ops.push(vec![2, 0, 8]); }
            }
            json!({"cell": "secure", "preset": preset, "chunk": *r.pick(&[1u64, 8, 24, 100, 1024, 4096]), "maxchunks": *r.pick(&[1u64, 4, 100]), "align": *r.pick(&[1u64, 8, 16, 32, 64, 4096]),
                   "lcache": *r.pick(&[0u64, 1, 2, 64]), "flags": r.below(4), "ops": ops})
        }
        6 => { // basic pool + pooled containers
            let mode = *r.pick(&[0u64, 0, 1, 1, 2]);
            let preset = *r.pick(&[0u64, 0, 1, 2, 3]);
            let cl = vec![1u64, 100, 1023, 1024, 1025, 65535, 65536, 65537, 1 << 20, (1 << 20) + 1, 2 << 20];
            let n = if mode == 1 || preset == 3 { r.range(2, 10) } else { r.range(3, 50) };
            let mut ops = gen_ops(r, n, &cl, 1 << 20, false, false, &[1]);
            if mode == 1 { for o in ops.iter_mut() { if o[0] == 0 { o[1] = *r.pick(&cl); } } }
            json!({"cell": "basic", "mode": mode, "preset": preset, "chunk": *r.pick(&[1u64, 8, 24, 100, 4096]), "maxchunks": *r.pick(&[0u64, 1, 4, 100]), "align": *r.pick(&[1u64, 8, 16, 64, 4096]), "ops": ops})
        }
        7 => { // tiered
            let cl = vec![1u64, 64, 1023, 1024, 1025, 2048, 2049, 4096, 8192, 16383, 16384, 16385, 65536, (2 << 20) - 1, 2 << 20];
            let n = r.range(3, 30);
            let mut ops = gen_ops(r, n, &cl, 1 << 20, false, false, &[1]);
            for o in ops.iter_mut() { if o[0] == 0 { o[1] = if r.chance(3, 4) { (*r.pick(&cl) as i64 + *r.pick(&[-1i64, 0, 0, 1])).max(1) as u64 } else { r.range(1, 40000) }; } }
            json!({"cell": "tiered", "preset": r.below(3), "flags": r.below(16), "ops": ops})
        }
        8 => { // mmap allocator
            let min = *r.pick(&[1u64, 4096, 16384, 65536]);
            let cl = vec![min.saturating_sub(1).max(1), min, min + 1, 4095, 4096, 4097, 8192, 16384, 65536, 65537, 1 << 20];
            let n = r.range(3, 30);
            let mut ops = gen_ops(r, n, &cl, 1 << 20, false, false, &[1]);
            for o in ops.iter_mut() { if o[0] == 0 { o[1] = if r.chance(1, 25) { *r.pick(&[u64::MAX, u64::MAX - 4094, u64::MAX - 4095, 1 << 62]) } else { *r.pick(&cl) }; } }
            json!({"cell": "mmap", "min": min, "ops": ops})
        }
        9 => { // NUMA helpers
            let cl = vec![1u64, 63, 64, 65, 1023, 1024, 1025, 65535, 65536, 100000];
            let n = r.range(3, 40);
            let mut ops = gen_ops(r, n, &cl, 1 << 20, false, false, &[1, 8, 64, 128, 4096]);
            for o in ops.iter_mut() { if o[0] == 0 { o[1] = *r.pick(&cl); } }
            json!({"cell": "numa", "pools": r.below(2), "ops": ops})
        }
        _ => json!({"cell": "huge", "ops": [[0, *r.pick(&[1u64, 2 << 20, (2 << 20) + 1]), 1], [0, 2 << 20, 1], [1, 0]]}),
    }
}

fn read_impl_bins() -> Vec<u64> { read_const_list("src/memory/lockfree_pool.rs", "const FAST_BIN_SIZES") }
fn read_const_list(file: &str, name: &str) -> Vec<u64> {
    // the one "translator": the size-class tables are private, so they are read from the source under test and compared
    // with the model's table inside every Coq-evaluated case
    let repo = std::env::var("ZV_REPO").unwrap_or_else(|_| "/repo".to_string());
    let src = std::fs::read_to_string(format!("{}/{}", repo, file)).unwrap_or_default();
    let Some(i) = src.find(name) else { return vec![] };
    let rest = &src[i..];
    let Some(a) = rest.find("&[") else { return vec![] };
    let Some(b) = rest[a..].find("];") else { return vec![] };
    rest[a + 2..a + b].split(|c: char| !c.is_ascii_digit()).filter(|s| !s.is_empty()).filter_map(|s| s.parse().ok()).collect()
}

fn generate(cx: &mut Ctx, args: &Args) {
    let mut rng = Rng::new(args.seed);
    // corpus first (cwd is the framework root)
    if let Ok(rd) = std::fs::read_dir("corpus/C07") {
        let mut files: Vec<_> = rd.filter_map(|e| e.ok()).map(|e| e.path()).filter(|p| p.extension().map(|e| e == "json").unwrap_or(false)).collect();
        files.sort();
        for p in files {
            if let Ok(v) = serde_json::from_str::<Value>(&std::fs::read_to_string(&p).unwrap_or_default()) {
                let c = if v.get("case").is_some() { v["case"].clone() } else { v };
                run_case_threaded(cx, &c, true);
                cx.sum.dist("corpus_cases");
            }
        }
    }
    let bins = cx.impl_bins.clone();
    let rounds = if args.thorough { 4000 } else { 260 };
    let only: Option<u64> = std::env::var("ZV_C07_ONLY").ok().and_then(|s| s.parse().ok());   // development aid
    for i in 0..rounds {
        // weights: the two modelled pools and the size-class pools get most cases
        for which in [0u64, 0, 0, 1, 2, 2, 3, 3, 4, 5, 6, 7, 8, 9] {
            if (which == 8 || which == 9 || which == 6) && i % 3 != 0 { continue; }
            if (which == 7 || which == 5) && i % 3 == 2 { continue; }
            if only.map(|o| o != which).unwrap_or(false) { continue; }
            let c = gen_case(&mut rng, which, &bins);
            if i < 1 { cx.sum.sample(json!({"cell": c["cell"], "ops": c["ops"].as_array().map(|a| a.iter().take(6).cloned().collect::<Vec<_>>())})); }
            run_case_threaded(cx, &c, false);
        }
        if i % 50 == 0 { let c = gen_case(&mut rng, 10, &bins); run_case_threaded(cx, &c, false); }
    }
}

fn child(args: &Args) {
    let mut cx = Ctx {
        sum: Summary::new("C07", "histories of allocate(size[,align]) / free(k-th live block) / free(foreign pointer) / arena scope begin-end, 3..70 ops, per pool type and configuration (presets and small custom capacities so that exhaustion, recycling and arena turnover happen); sizes drawn around every size-class boundary (c-9..c+8), around the fast-bin threshold, around the capacity, and u32/usize extremes; every live block carries a position-dependent pattern checked after every operation; non-trivial = history with at least two allocations"),
        shards: CoqShards::new(HEADER, 150),
        budget: if args.thorough { 9000 } else { 1500 },
        impl_bins: read_impl_bins(),
        tl_classes: read_const_list("src/memory/threadlocal_pool.rs", "const TLS_SIZE_CLASSES"),
        out: args.out.clone(),
        used: HashMap::new(),
        thorough: args.thorough,
    };
    if let Some(f) = &args.replay {
        let v: Value = serde_json::from_str(&std::fs::read_to_string(f).expect("replay file")).expect("json");
        let c = if v.get("case").is_some() { v["case"].clone() } else { v };
        run_case_threaded(&mut cx, &c, true);
    } else {
        generate(&mut cx, args);
    }
    cx.sum.dist_max("coq_cases", cx.shards.len() as u64);
    let _ = std::fs::remove_file(format!("{}/c07_current.json", args.out));
    let sh = cx.shards.write(&args.out);
    cx.sum.write(&args.out, sh);
}

pub fn run(args: &Args) {
    if std::env::var("ZV_C07_CHILD").is_ok() { child(args); return; }
    let exe = std::env::current_exe().expect("current_exe");
    let mut cmd = std::process::Command::new(exe);
    cmd.arg("C07").arg("--seed").arg(args.seed.to_string()).arg("--tier").arg(if args.thorough { "thorough" } else { "quick" }).arg("--out").arg(&args.out);
    if let Some(f) = &args.replay { cmd.arg("--replay").arg(f); }
    cmd.env("ZV_C07_CHILD", "1");
    let st = cmd.status();
    let summary_ok = std::path::Path::new(&format!("{}/summary.json", args.out)).exists();
    if matches!(&st, Ok(s) if s.success()) && summary_ok { return; }
    // the child died: the case it was working on is the failing input
    let mut sum = Summary::new("C07", "child process died; see failure");
    let cur = std::fs::read_to_string(format!("{}/c07_current.json", args.out)).ok().and_then(|s| serde_json::from_str::<Value>(&s).ok());
    let how = match &st { Ok(s) => format!("{}", s), Err(e) => format!("{}", e) };
    match cur {
        Some(c) => { let cell = c["cell"].as_str().unwrap_or("?").to_string(); sum.eval(&cell, &c.to_string(), true);
                     sum.fail(&cell, None, c, &format!("the process running this history died ({}) - memory was unmapped or corrupted under the oracle", how)); }
        None => { sum.notes.push(format!("child died ({}) before any case", how)); }
    }
    sum.write(&args.out, vec![]);
}
