//! C08 oracle breadth: the secondary entry points, presets, options and thresholds of the five anchored pools,
//! exercised inside the machinery of c08.rs (controlled schedules judged by the same ownership / free-structure /
//! counter oracle, and free-running stress with an ownership table).
//!
//!  * `families`: deterministic small families of controlled runs - bulk allocation (allocate_bulk_simd,
//!    allocate_bulk_with_prefetch) under exhaustion and stalled in the middle, compare-exchange retry storms
//!    (max_cas_retries 1-3, linear / exponential back-off, 70 lost rounds), RAII guards (LockFreeAllocation),
//!    presets of every pool, size-class boundaries (128/144, 4096/4608, 8192, 8193 = large-block path), five-level
//!    pools through AdaptiveFiveLevelPool::with_level + FiveLevelPoolHandle, alignments, max_fast_block_size
//!    boundary and huge path, FixedCapacityMemoryPool with other block sizes / alignments / lazy arena / no
//!    statistics / the capacity accessors / the utilization gauge, SecureMemoryPool::allocate_with_hint, clear()
//!    racing with pops and pushes, validate() and the guard accessors in mid-history, cache size 0, the 64 KiB and
//!    1 MiB presets, every builder option; MemoryPool::clear() between parked operations and the pool presets.
//!  * `gen_prog_wide`: the random programs with the new operations mixed in.
//!  * `stress_wide`: the free-running cells for the same entry points (every public way in, presets as they are).
use super::*;

pub(super) fn p(s: &str) -> Vec<Op> { s.split_whitespace().filter_map(op_parse).collect() }

fn whole(t: usize, n: usize) -> Vec<usize> { vec![WHOLE_OP + t; n] }

/// Random programs with the operations of the secondary entry points mixed in.  `bulk` / `clear`: the cell has them.
pub(super) fn gen_prog_wide(r: &mut Rng, len: usize, slots: usize, bulk: bool, clear: bool, allow_m: bool) -> Vec<Op> {
    let mut out = vec![];
    let mut held = 0usize;
    for _ in 0..len {
        let x = r.below(100);
        if held == 0 && x < 60 || x < 25 { out.push(Op::Alloc); held += 1; }
        else if x < 35 { out.push(Op::Hot); held += 1; }
        else if x < 45 && bulk { let k = r.range(2, 4) as usize; out.push(Op::Bulk(k)); held += k; }
        else if x < 75 { if held > 0 { held -= 1; } out.push(Op::Free(r.below(4) as usize)); }
        else if x < 82 { out.push(Op::Check); }
        else if x < 88 && clear { out.push(Op::Clear); }
        else if x < 96 || !allow_m { out.push(Op::Scribble(r.below(3) as usize, if r.chance(1, 4) { None } else { Some(r.below(slots as u64) as u32) })); }
        else { out.push(Op::Malloc); }
    }
    out
}

pub(super) fn families(cx: &mut Ctx, rng: &mut Rng, thorough: bool) {
    let reps = if thorough { 8 } else { 2 };
    // ---------------------------------------------------------------- LockFreeMemoryPool
    // W1. bulk allocation: two threads ask for more blocks than the arena has (a bulk request fails part-way),
    //     alone, interleaved at random, and stalled inside the second allocation of a bulk request
    {
        let p0 = p("B3 F0 V B2 F0 F0 A");
        let p1 = p("A B3 F1 A F0 B2");
        for &(size, slots) in &[(64usize, 4usize), (24, 5), (136, 3)] {
            for order in 0..3 {
                let mut sched = vec![];
                for i in 0..8 { sched.push(WHOLE_OP + (if order == 0 { i / 4 } else if order == 1 { i % 2 } else { 1 - i % 2 })); }
                run_lf_v(cx, size, slots, &json!({"fam": "bulk"}), &[p0.clone(), p1.clone()], &sched, false);
            }
            for _ in 0..reps {
                let sched = gen_sched(rng, 2, 90);
                run_lf_v(cx, size, slots, &json!({"fam": "bulk"}), &[p0.clone(), p1.clone()], &sched, false);
            }
        }
        for k in 1..=8usize {
            let q0 = p("A A F1 F0 B3 F0");
            let q1 = p("B2 F0 F0 A");
            let mut sched = whole(0, 4);
            sched.extend(std::iter::repeat(0).take(k));
            sched.extend(whole(1, q1.len()));
            run_lf_v(cx, 64, 4, &json!({"fam": "bulk-stalled"}), &[q0, q1], &sched, false);
        }
        // three threads, one of them only ever uses the bulk entry point
        for _ in 0..reps {
            let sched = gen_sched(rng, 3, 120);
            run_lf_v(cx, 64, 6, &json!({"fam": "bulk3"}), &[p("B2 F0 B2 F1 F0 F0"), p("A A F0 A F1"), p("B3 V F2 F0")], &sched, false);
        }
    }
    // W2. a thread that loses the compare-exchange of a pop / push round after round: with max_cas_retries 1-3 the
    //     pop falls back to a fresh block and the push is refused (the block stays with its owner); linear and
    //     exponential back-off; 70 lost rounds in a row
    {
        let churn = |n: usize| -> Vec<Op> { let mut v = vec![]; for _ in 0..n { v.push(Op::Alloc); v.push(Op::Free(0)); } v };
        for &retries in &[1u64, 2, 3] {
            for &n in &[2u64, 4, 6] {
                // thread 0: two blocks on the list, then a pop that keeps losing
                run_lf_v(cx, 64, 5, &json!({"fam": "storm-pop", "retries": retries, "storm": [n, 1]}), &[p("A A F1 F0 A V A"), churn(8)], &whole(0, 4), false);
                // thread 0: a push that keeps losing (it is refused after `retries` attempts), then frees again
                run_lf_v(cx, 64, 5, &json!({"fam": "storm-push", "retries": retries, "storm": [n, 1]}), &[p("A A F1 F0 F0 A"), churn(8)], &whole(0, 3), false);
            }
        }
        for &backoff in &[1u64, 2] {
            run_lf_v(cx, 64, 5, &json!({"fam": "storm-backoff", "backoff": backoff, "storm": [6, 1]}), &[p("A A F1 F0 A A"), churn(6)], &whole(0, 4), false);
            run_lf_v(cx, 64, 5, &json!({"fam": "storm-backoff", "backoff": backoff, "storm": [6, 1]}), &[p("A A F1 F0 F0 A"), churn(6)], &whole(0, 3), false);
        }
        // more lost rounds than a 64-bit shift has room for (1 << retry in the exponential back-off)
        run_lf_v(cx, 64, 5, &json!({"fam": "storm-long", "backoff": 2, "storm": [70, 1]}), &[p("A A F1 F0 A A"), churn(40)], &whole(0, 4), false);
        run_lf_v(cx, 64, 5, &json!({"fam": "storm-long", "backoff": 2, "storm": [70, 1]}), &[p("A A F1 F0 F0 A"), churn(40)], &whole(0, 3), false);
        run_lf_v(cx, 64, 5, &json!({"fam": "storm-long", "preset": 3, "storm": [70, 1]}), &[p("A A F1 F0 A A"), churn(40)], &whole(0, 4), false);
    }
    // W3. guards, presets, class boundaries and per-thread request sizes on the stalled-operation windows
    {
        let p0 = p("A A F1 F0 A V A");
        let p1s = [p("A A A F2 F0"), p("A A F1 A F0 F0"), p("A F0 A A F0 F0 A")];
        let variants: Vec<(usize, Value)> = vec![
            (64, json!({"raii": true})), (200, json!({"raii": true, "preset": 1})),
            (64, json!({"preset": 1})), (64, json!({"preset": 2})), (64, json!({"preset": 3})),
            (129, json!({"sizes": [129, 144, 136]})), (128, json!({})), (4097, json!({})), (4096, json!({"raii": true})),
            (8192, json!({})), (8185, json!({"sizes": [8185, 7681]})), (1, json!({"preset": 3, "zero": true})),
        ];
        for (vi, (size, v)) in variants.iter().enumerate() {
            for k in 1..=4usize {
                let p1 = p1s[(vi + k) % p1s.len()].clone();
                let mut sched = whole(0, 4);
                sched.extend(std::iter::repeat(0).take(k));
                sched.extend(whole(1, p1.len()));
                let mut v = v.clone();
                v["fam"] = json!("variants");
                run_lf_v(cx, *size, 6, &v, &[p0.clone(), p1], &sched, false);
            }
            let sched = gen_sched(rng, 3, 140);
            let mut v = v.clone();
            v["fam"] = json!("variants");
            run_lf_v(cx, *size, 5, &v, &[p("A A F0 A V F1 F0"), p("A F0 A A F0"), p("A A F1 A")], &sched, false);
        }
        // the large-block path (above 8192 bytes): blocks are carved by a compare-exchange on the bump offset and
        // never reused; two and three threads carving at once, the arena running out
        for &size in &[8193usize, 8200, 20000] {
            for _ in 0..reps + 1 {
                let sched = gen_sched(rng, 3, 60);
                run_lf_v(cx, size, 5, &json!({"fam": "large"}), &[p("A A F0 A"), p("A F0 A V"), p("B2 F0")], &sched, false);
            }
        }
    }
    // ---------------------------------------------------------------- five-level LockFreePool
    // W4. through AdaptiveFiveLevelPool::with_level + a cloned FiveLevelPoolHandle; the presets as they are; other
    //     alignments; the last fast bin (size = max_fast_block_size) and the huge path above it
    {
        let p0 = p("A A F1 F0 A V A");
        let p1s = [p("A A A F2 F0"), p("A A F1 A F0 F0"), p("A V F0 A A F0 F0 A")];
        let variants: Vec<(usize, Value)> = vec![
            (64, json!({"handle": true})), (24, json!({"handle": true, "align": 16})),
            (64, json!({"preset": 1})), (100, json!({"preset": 2, "handle": true})), (64, json!({"preset": 3})), (1000, json!({"preset": 4})),
            (20, json!({"align": 4})), (40, json!({"align": 16})), (65, json!({"align": 64})),
            (256, json!({"maxfast": 256})), (250, json!({"maxfast": 256, "align": 16, "handle": true})),
        ];
        for (vi, (size, v)) in variants.iter().enumerate() {
            for k in 1..=4usize {
                let p1 = p1s[(vi + k) % p1s.len()].clone();
                let mut sched = whole(0, 4);
                sched.extend(std::iter::repeat(0).take(k));
                sched.extend(whole(1, p1.len()));
                let mut v = v.clone();
                v["fam"] = json!("variants");
                run_fl_v(cx, *size, 6, &v, &[p0.clone(), p1], &sched, false);
            }
            let sched = gen_sched(rng, 3, 140);
            let mut v = v.clone();
            v["fam"] = json!("variants");
            run_fl_v(cx, *size, 5, &v, &[p("A A F0 A V F1 F0"), p("A F0 A A F0"), p("A A F1 A")], &sched, false);
        }
        for &(size, maxfast) in &[(257usize, 256u64), (300, 128), (2000, 1024)] {
            for _ in 0..reps {
                let sched = gen_sched(rng, 3, 40);
                run_fl_v(cx, size, 6, &json!({"fam": "huge", "maxfast": maxfast, "handle": size == 300}), &[p("A A F0 A F0"), p("A F0 A V"), p("A A F1")], &sched, false);
            }
        }
    }
    // ---------------------------------------------------------------- FixedCapacityMemoryPool
    // W5. other block sizes and alignments (128 / 8: sixteen classes, still the model's shape; 64 / 16, 256 / 64),
    //     the arena created by the first allocation (eager_allocation = false), no statistics, the presets, the
    //     capacity accessors in mid-history and at the end, threads stopped in front of the utilization gauge
    {
        let p0 = p("A A F1 F0 A V A");
        let p1s = [p("A A A F2 F0"), p("A A F1 A F0 F0 V"), p("A F0 A A F0 F0 A")];
        let variants: Vec<(Vec<usize>, Value)> = vec![
            (vec![40, 100], json!({"maxb": 128})), (vec![128, 121, 8], json!({"maxb": 128})), (vec![40], json!({"lazy": true})),
            (vec![40, 17], json!({"lazy": true, "maxb": 128})), (vec![40], json!({"nostats": true})),
            (vec![30, 50], json!({"align": 16})), (vec![200, 65], json!({"align": 64, "maxb": 256})),
            (vec![40, 1000], json!({"preset": 1})), (vec![60000, 100], json!({"preset": 2})), (vec![8192, 64], json!({"preset": 3})),
            (vec![4096, 9], json!({"preset": 4})), (vec![100, 3000], json!({"preset": 5})),
        ];
        for (vi, (sizes, v)) in variants.iter().enumerate() {
            let npre = v["preset"].as_u64().unwrap_or(0);
            for k in 1..=(if npre != 0 { 2 } else { 4usize }) {
                let p1 = p1s[(vi + k) % p1s.len()].clone();
                let mut sched = whole(0, 4);
                sched.extend(std::iter::repeat(0).take(k));
                sched.extend(whole(1, p1.len()));
                let mut v = v.clone();
                v["fam"] = json!("variants");
                run_fc_v(cx, sizes, vi % 3 == 1, 6, &v, &[p0.clone(), p1], &sched, false);
            }
            let sched = gen_sched(rng, 3, 140);
            let mut v = v.clone();
            v["fam"] = json!("variants");
            run_fc_v(cx, sizes, false, 4, &v, &[p("A A F0 A V F1 F0"), p("A F0 A A F0"), p("A A F1 A")], &sched, false);
        }
        // the gauge: a thread stops after it has counted its block in active_blocks and before it stores the derived
        // utilization; the other thread allocates / frees in between
        for k in 1..=8usize {
            for (q0, q1) in [(p("A A"), p("A A F0")), (p("A F0 A"), p("A A")), (p("A A F0 F0"), p("A F0 A")), (p("A"), p("A F0 A A"))] {
                // the last operation of thread 0 is the one that stops: what it stores afterwards is what stays
                let mut sched: Vec<usize> = whole(0, q0.len() - 1);
                sched.extend(std::iter::repeat(0).take(k));
                sched.extend(whole(1, q1.len()));
                run_fc_v(cx, &[40], false, 4, &json!({"fam": "gauge", "util": true}), &[q0, q1], &sched, false);
            }
        }
        for _ in 0..reps * 2 {
            let sched = gen_sched(rng, 3, 120);
            run_fc_v(cx, &[40, 17], false, 5, &json!({"fam": "gauge", "util": true}), &[p("A A F0 A F1 F0"), p("A F0 A A F0"), p("A A F1 A F0 F0")], &sched, false);
        }
    }
    // ---------------------------------------------------------------- SecureMemoryPool
    // W6. the hinted and the bulk entry point, the observers in mid-history, a disabled thread cache, the 64 KiB and
    //     1 MiB presets, every builder option
    {
        let filler = p("A H B3 A V F0 F0 F0 F0 F0 F0 H");
        let taker = p("H A B2 F0 V F1 A F0");
        for &(cache, preset, opts) in &[(0usize, 0u64, 0u64), (1, 0, 1 | 4 | 16), (2, 1, 2 | 32 | 64), (4, 1, 8 | 128 | 256 | 512), (1, 2, 0), (2, 3, 0), (0, 2, 1024 | 16), (3, 0, 2047)] {
            let v = json!({"fam": "entry", "preset": preset, "opts": opts});
            let mut sched = whole(0, 11);
            sched.extend(whole(1, taker.len()));
            run_sp_v(cx, cache, &v, &[filler.clone(), taker.clone()], &sched, false);
            for _ in 0..reps {
                let sched = gen_sched(rng, 2, 140);
                run_sp_v(cx, cache, &v, &[filler.clone(), taker.clone()], &sched, false);
            }
        }
        // plain programs (the model's operations only) on the new configurations, so that the Coq tie sees them too
        for &(cache, preset, opts) in &[(0usize, 0u64, 0u64), (0, 1, 2), (1, 2, 4), (2, 3, 0), (1, 0, 2047), (8, 0, 0)] {
            let v = json!({"fam": "entry-plain", "preset": preset, "opts": opts});
            for _ in 0..reps {
                let sched = gen_sched(rng, 2, 140);
                run_sp_v(cx, cache, &v, &[p("A H A A F0 F0 F0 F0 H V"), p("H A F0 A F1 F0 A F0")], &sched, false);
            }
        }
    }
    // W7. clear(): it pops the shared stack while other threads push to it and pop from it, whole and stalled after
    //     k steps; the chunks that are handed out stay valid and come back to the pool afterwards
    {
        for &cache in &[0usize, 1, 2] {
            let q0 = p("A A A A F0 F0 F0 F0 A A V F0 F0");
            for k in 0..=5usize {
                // thread 1 starts clear() when thread 0 has put its chunks back, stops after k steps; thread 0 goes on
                let mut sched = whole(0, 8);
                sched.extend(std::iter::repeat(1).take(k));
                sched.extend(whole(0, 5));
                run_sp_v(cx, cache, &json!({"fam": "clear"}), &[q0.clone(), p("C A V F0 C")], &sched, false);
            }
            // clear() while chunks are handed out, and again after they came back
            run_sp_v(cx, cache, &json!({"fam": "clear"}), &[p("A A A C F0 F0 V C F0 A A F0 F0"), p("A F0")], &whole(0, 13), false);
            for _ in 0..reps {
                let sched = gen_sched(rng, 3, 160);
                run_sp_v(cx, cache, &json!({"fam": "clear", "opts": 16}), &[p("A A A F0 F0 C A F0 F0"), p("A F0 C A A F1 F0"), p("H B2 F0 F0 F0 V")], &sched, false);
            }
        }
    }
    // ---------------------------------------------------------------- MemoryPool (pool.rs)
    // W8. clear() between the operations of other threads (stopped before try_lock, at the miss / direct-release
    //     paths and before the byte accounting - never while one of them holds the queue lock), the presets, an
    //     alignment above the default
    {
        let q0 = p("A A F0 F0 A V F0");
        for &maxc in &[1usize, 2, 4] {
            for k in 0..=4usize {
                let mut sched = whole(0, 3);
                sched.extend(std::iter::repeat(0).take(k));
                sched.extend(whole(1, 5));
                run_mp_v(cx, 64, maxc, &json!({"fam": "clear"}), &[q0.clone(), p("A C F0 V C")], &sched, false);
            }
            run_mp_v(cx, 64, maxc, &json!({"fam": "clear"}), &[p("A A A F0 F0 C V F0 C A F0"), p("A F0")], &whole(0, 11), false);
            for _ in 0..reps {
                let sched = gen_sched(rng, 3, 120);
                run_mp_v(cx, 100, maxc, &json!({"fam": "clear"}), &[p("A A F0 C A F0 F0"), p("A F0 A C F0 V"), p("A A F1 F0 C")], &sched, false);
            }
        }
        for &(preset, align) in &[(1u64, 0u64), (2, 0), (3, 0), (0, 64), (1, 4096)] {
            let mut v = json!({"fam": "presets", "preset": preset});
            if align != 0 { v["align"] = json!(align); }
            for _ in 0..reps {
                let sched = gen_sched(rng, 2, 100);
                run_mp_v(cx, 64, 2, &v, &[p("A A F0 A V F0 F0"), p("A F0 A A F1 F0")], &sched, false);
            }
        }
    }
}

// ------------------------------------------------------------------------------------------
// free-running cells for the secondary entry points
// ------------------------------------------------------------------------------------------
pub(super) fn stress_wide(cell: &str, c: &Value) -> Option<Vec<String>> {
    let nthr = c["threads"].as_u64().unwrap_or(4) as usize;
    let iters = c["iters"].as_u64().unwrap_or(2000) as usize;
    let seed = c["seed"].as_u64().unwrap_or(1);
    let hold = c["hold"].as_u64().unwrap_or(4) as usize;
    let variant = c["variant"].as_u64().unwrap_or(0);
    Some(match cell {
        "stress/LockFreeMemoryPool/entry_points" => stress_lf_wide(nthr, iters, seed, hold, variant),
        "stress/five_level::handles" => stress_fl_wide(nthr, iters, seed, hold, variant),
        "stress/FixedCapacityMemoryPool/presets" => stress_fc_wide(nthr, iters, seed, hold, variant),
        "stress/SecureMemoryPool/entry_points" => stress_sp_wide(nthr, iters, seed, hold, variant),
        "stress/MemoryPool/entry_points" => stress_mp_wide(nthr, iters, seed, hold, variant),
        _ => return None,
    })
}

pub(super) const WIDE_STRESS_CELLS: [&str; 5] = [
    "stress/LockFreeMemoryPool/entry_points", "stress/five_level::handles", "stress/FixedCapacityMemoryPool/presets",
    "stress/SecureMemoryPool/entry_points", "stress/MemoryPool/entry_points",
];

struct Clash { flag: AtomicBool, detail: Mutex<String> }
impl Clash {
    fn new() -> Arc<Self> { Arc::new(Clash { flag: AtomicBool::new(false), detail: Mutex::new(String::new()) }) }
    fn set(&self, d: String) { if !self.flag.swap(true, Ordering::SeqCst) { *self.detail.lock().unwrap() = d; } }
    fn get(&self) -> Option<String> { if self.flag.load(Ordering::SeqCst) { Some(self.detail.lock().unwrap().clone()) } else { None } }
}

/// LockFreeMemoryPool through every public way in: allocate / allocate_bulk_simd / LockFreeAllocation guards /
/// deallocate / deallocate_with_zero, requests of several size classes (boundaries 128|144, 4096|4608, 8192) in one
/// pool.  variant 0: a small arena (exhaustion: bulk requests fail part-way), 1: compact(), 2: high_performance()
/// (no statistics), 3: default() - the presets as they are.  At quiescence every carved byte must be on exactly one
/// bin's list (every block was given back) and the counters must add up.
fn stress_lf_wide(nthr: usize, iters: usize, seed: u64, hold: usize, variant: u64) -> Vec<String> {
    const SIZES: [usize; 7] = [64, 129, 144, 1000, 4097, 8192, 24];
    let zero = variant == 0 && seed % 2 == 1;
    let cfg = match variant {
        1 => LockFreePoolConfig::compact(),
        2 => LockFreePoolConfig::high_performance(),
        3 => LockFreePoolConfig::default(),
        _ => LockFreePoolConfig { memory_size: 8 + 9000 * (nthr * hold / 2 + 1), enable_stats: true, max_cas_retries: 100_000, backoff_strategy: BackoffStrategy::None,
            enable_cache_alignment: false, cache_config: None, enable_numa_awareness: false, enable_huge_pages: false, huge_page_threshold: 1 << 30,
            enable_simd_optimization: zero, zero_on_free: zero },
    };
    let cap = cfg.memory_size;
    let pool = Arc::new(match LockFreeMemoryPool::new(cfg) { Ok(p) => p, Err(e) => return vec![format!("pool creation failed: {}", e)] });
    let base = pool.verif_layout().0;
    let nslots = (cap.min(64 << 20)) / 8 + 1;
    let own = Arc::new(Ownership::new(nslots));
    let clash = Clash::new();
    let okc = Arc::new(AtomicU64::new(0));
    let frc = Arc::new(AtomicU64::new(0));
    let failed_bulk_slack = Arc::new(AtomicU64::new(0));
    let (p2, o2, c2, ok2, fr2, sl2) = (pool.clone(), own.clone(), clash.clone(), okc.clone(), frc.clone(), failed_bulk_slack.clone());
    enum H { Raw(NonNull<u8>, usize), Guard(LockFreeAllocation) }
    let r = stress_threads(nthr, move |t| {
        let mut rng = Rng::new(seed * 1000 + t as u64);
        let mut held: Vec<H> = vec![];
        let take = |p: NonNull<u8>, size: usize, held: &mut Vec<H>, guard: bool| {
            ok2.fetch_add(1, Ordering::Relaxed);
            let off = p.as_ptr() as usize - base;
            if off % 8 != 0 || off + lf_slot_size(size) > cap { c2.set(format!("allocate({}) returned offset {} outside the arena / unaligned", size, off)); }
            o2.take(off / 8, t);
            unsafe { std::ptr::write_bytes(p.as_ptr(), t as u8 + 1, size); }
            held.push(if guard { H::Guard(LockFreeAllocation::new(p, size, p2.clone())) } else { H::Raw(p, size) });
        };
        let give = |h: H| {
            let (p, size) = match &h { H::Raw(p, s) => (*p, *s), H::Guard(g) => (NonNull::new(g.as_ptr()).unwrap(), g.size()) };
            let s = unsafe { std::slice::from_raw_parts(p.as_ptr(), size) };
            if s.iter().any(|&b| b != t as u8 + 1) { c2.set(format!("block contents of thread {} overwritten while it owned the block", t)); }
            o2.give((p.as_ptr() as usize - base) / 8, t);
            fr2.fetch_add(1, Ordering::Relaxed);
            match h {
                H::Raw(p, size) => { let r = if zero { p2.deallocate_with_zero(p, size) } else { p2.deallocate(p, size) }; if let Err(e) = r { c2.set(format!("deallocate of an owned block failed: {}", e)); } }
                H::Guard(g) => drop(g),
            }
        };
        for _ in 0..iters {
            if held.len() < hold && (held.is_empty() || rng.chance(1, 2)) {
                let size = *rng.pick(&SIZES);
                match rng.below(4) {
                    0 => {
                        let k = rng.range(2, 4) as usize;
                        let sizes: Vec<usize> = (0..k).map(|i| if i == 0 { size } else { *rng.pick(&SIZES) }).collect();
                        match p2.allocate_bulk_simd(&sizes) {
                            Ok(v) => { if v.len() != k { c2.set(format!("allocate_bulk_simd of {} sizes returned {} blocks", k, v.len())); } for (p, s) in v.into_iter().zip(sizes) { take(p, s, &mut held, false); } }
                            Err(_) => { sl2.fetch_add(k as u64 - 1, Ordering::Relaxed); }
                        }
                    }
                    1 if !zero => { if let Ok(p) = p2.allocate(size) { take(p, size, &mut held, true); } }
                    _ => { if let Ok(p) = p2.allocate(size) { take(p, size, &mut held, false); } }
                }
            } else if !held.is_empty() {
                let h = held.swap_remove(rng.below(held.len() as u64) as usize);
                give(h);
            }
        }
        for h in held { give(h); }
    });
    let mut f = vec![];
    if let Err(e) = r { f.push(e); }
    if own.clash.load(Ordering::SeqCst) { f.push(own.detail.lock().unwrap().clone()); }
    if let Some(d) = clash.get() { f.push(d); }
    if !f.is_empty() { return f; }
    // quiescence: every bin's list is walked; an element is any 8-aligned offset below the bump offset, met once
    let (_, bump) = pool.verif_layout();
    let mut listed_bytes = 0u64;
    let mut seen = BTreeSet::new();
    let mut classes: Vec<usize> = SIZES.iter().map(|&s| lf_slot_size(s)).collect();
    classes.sort();
    classes.dedup();
    for &cls in &classes {
        let (packed, count) = pool.verif_bin_state(cls).unwrap_or((0, 0));
        let mut h = packed & 0xFFFF_FFFF;
        let mut n = 0u64;
        while h != 0 {
            if h % 8 != 0 || h < 8 || h + cls as u64 > bump as u64 { f.push(format!("bin {}: free list links to {} which is not a block below the bump offset {} (dangling link)", cls, h, bump)); return f; }
            if !seen.insert(h) { f.push(format!("bin {}: block {} is on a free list twice (cycle or shared by two bins)", cls, h)); return f; }
            n += 1;
            listed_bytes += cls as u64;
            h = match pool.verif_read_link(h as u32) { Some(x) => x as u64, None => { f.push(format!("bin {}: link of {} is outside the arena", cls, h)); return f; } };
        }
        if n != count as u64 { f.push(format!("bin {}: count = {} but the free list has {} blocks", cls, count, n)); }
    }
    if listed_bytes != bump as u64 - 8 {
        f.push(format!("{} bytes were carved from the arena but the free lists hold {} bytes after every thread freed everything (blocks lost)", bump as u64 - 8, listed_bytes));
    }
    if let Some(st) = pool.stats() {
        let fa = st.fast_allocs.load(Ordering::SeqCst);
        let fd = st.fast_deallocs.load(Ordering::SeqCst);
        let x = fd.wrapping_sub(frc.load(Ordering::SeqCst));
        if x > failed_bulk_slack.load(Ordering::SeqCst) { f.push(format!("fast_deallocs {} != frees {}", fd, frc.load(Ordering::SeqCst))); }
        if x <= failed_bulk_slack.load(Ordering::SeqCst) && fa + seen.len() as u64 != okc.load(Ordering::SeqCst) + x { f.push(format!("fast_allocs {} + carved {} != successful allocations {}", fa, seen.len(), okc.load(Ordering::SeqCst))); }
        if st.memory_usage.load(Ordering::SeqCst) != bump as u64 - 8 { f.push(format!("memory_usage {} != {} bytes carved", st.memory_usage.load(Ordering::SeqCst), bump as u64 - 8)); }
        let ratio = st.contention_ratio();
        if !(0.0..=1.0).contains(&ratio) { f.push(format!("contention_ratio() = {}", ratio)); }
        if st.allocation_rate() != (fa + st.skip_allocs.load(Ordering::SeqCst)) as f64 { f.push("allocation_rate() does not match the counters".into()); }
    } else if variant != 2 {
        f.push("stats() is None although enable_stats is set".into());
    }
    f
}

/// The five-level pools through AdaptiveFiveLevelPool::with_level + get_handle (one clone of the handle per
/// thread), requests of several bins and of the huge path in one pool.  variant 0: level 3 (lock-free), small
/// arena; 1: level 2 (mutex), small arena; 2: level 3 with performance_optimized(); 3: level 2 with
/// memory_optimized(); 4: level 3 with realtime(); 5: level 3 with default().
fn stress_fl_wide(nthr: usize, iters: usize, seed: u64, hold: usize, variant: u64) -> Vec<String> {
    let cfg = match variant {
        2 => FiveLevelPoolConfig::performance_optimized(),
        3 => FiveLevelPoolConfig::memory_optimized(),
        4 => FiveLevelPoolConfig::realtime(),
        5 => FiveLevelPoolConfig::default(),
        _ => FiveLevelPoolConfig { max_fast_block_size: 1024, alignment: if seed % 2 == 0 { 8 } else { 16 }, initial_capacity: 2100 * (nthr * hold / 2 + 1), max_skip_levels: 4, arena_size: 4096, fixed_capacity: None,
            enable_cache_alignment: false, cache_config: None, enable_numa_awareness: false, enable_huge_pages: false, huge_page_threshold: 1 << 30 },
    };
    let level = if variant == 1 || variant == 3 { ConcurrencyLevel::MultiThreadMutex } else { ConcurrencyLevel::MultiThreadLockFree };
    let al = cfg.alignment;
    let maxfast = cfg.max_fast_block_size;
    let cap = cfg.initial_capacity;
    let sizes: Vec<usize> = vec![64, 24, 100, maxfast, maxfast - 1, maxfast + 1, 1000.min(maxfast)];
    let ad = match AdaptiveFiveLevelPool::with_level(cfg, level) { Ok(p) => p, Err(e) => return vec![format!("pool creation failed: {}", e)] };
    if ad.current_level() != level { return vec![format!("with_level({:?}) built a pool that reports level {:?}", level, ad.current_level())]; }
    let handle = match ad.get_handle() { Ok(h) => h, Err(e) => return vec![format!("get_handle() failed: {}", e)] };
    match (&handle, level) {
        (FiveLevelPoolHandle::Level2(_), ConcurrencyLevel::MultiThreadMutex) | (FiveLevelPoolHandle::Level3(_), ConcurrencyLevel::MultiThreadLockFree) => {}
        _ => return vec!["get_handle() returned a handle of another level".into()],
    }
    let own = Arc::new(Ownership::new(cap.min(64 << 20) / 4 + 64));
    let clash = Clash::new();
    let huge_freed = Arc::new(AtomicU64::new(0));
    let huge_freed_bytes = Arc::new(AtomicU64::new(0));
    let (o2, c2, hf2, hb2, sz2) = (own.clone(), clash.clone(), huge_freed.clone(), huge_freed_bytes.clone(), sizes.clone());
    let h2 = handle.clone();
    let r = stress_threads(nthr, move |t| {
        let h = h2.clone();
        let mut rng = Rng::new(seed * 1000 + t as u64);
        let mut held: Vec<(MemOffset, usize)> = vec![];
        let give = |o: MemOffset, s: usize| {
            o2.give(o.verif_raw() as usize / 4, t);
            let bs = (s + al - 1) & !(al - 1);
            if bs > maxfast { hf2.fetch_add(1, Ordering::Relaxed); hb2.fetch_add(bs as u64, Ordering::Relaxed); }
            if let Err(e) = h.free(o, s) { c2.set(format!("free of an owned block failed: {}", e)); }
        };
        for _ in 0..iters {
            if held.len() < hold && (held.is_empty() || rng.chance(1, 2)) {
                let s = *rng.pick(&sz2);
                if let Ok(o) = h.alloc(s) {
                    let bs = (s + al - 1) & !(al - 1);
                    if o.verif_raw() as usize % al != 0 || o.verif_raw() as usize + bs > cap { c2.set(format!("alloc({}) returned offset {} outside the arena / unaligned", s, o.verif_raw())); }
                    o2.take(o.verif_raw() as usize / 4, t);
                    held.push((o, s));
                }
            } else if !held.is_empty() {
                let (o, s) = held.swap_remove(rng.below(held.len() as u64) as usize);
                give(o, s);
            }
        }
        for (o, s) in held { give(o, s); }
    });
    let mut f = vec![];
    if let Err(e) = r { f.push(e); }
    if own.clash.load(Ordering::SeqCst) { f.push(own.detail.lock().unwrap().clone()); }
    if let Some(d) = clash.get() { f.push(d); }
    if !f.is_empty() { return f; }
    let st = handle.stats();
    if st.utilization() < 0.0 || st.utilization() > 1.0 || st.fragmentation_ratio() < 0.0 { f.push(format!("utilization() = {} fragmentation_ratio() = {}", st.utilization(), st.fragmentation_ratio())); }
    let used = st.used_memory as u64;
    let mut listed_bytes = 0u64;
    let mut seen = BTreeSet::new();
    let mut classes: Vec<usize> = sizes.iter().map(|&s| (s + al - 1) & !(al - 1)).filter(|&b| b <= maxfast).collect();
    classes.sort();
    classes.dedup();
    for &cls in &classes {
        let (head, count) = match &handle {
            FiveLevelPoolHandle::Level3(p) => p.verif_bin_state(cls).map(|(h, c)| ((h & 0xFFFF_FFFF) as u32, c)).unwrap_or((u32::MAX, 0)),
            FiveLevelPoolHandle::Level2(p) => p.verif_bin_state(cls).unwrap_or((u32::MAX, 0)),
            _ => (u32::MAX, 0),
        };
        let mut h = head as u64;
        let mut n = 0u64;
        while h != u32::MAX as u64 {
            if h % al as u64 != 0 || h + cls as u64 > used { f.push(format!("bin {}: free list links to {} which is not a block below used_memory {} (dangling link)", cls, h, used)); return f; }
            if !seen.insert(h) { f.push(format!("bin {}: block {} is on a free list twice (cycle or shared by two bins)", cls, h)); return f; }
            n += 1;
            listed_bytes += cls as u64;
            let l = match &handle { FiveLevelPoolHandle::Level3(p) => p.verif_read_link(h as u32), FiveLevelPoolHandle::Level2(p) => p.verif_read_link(h as u32), _ => None };
            h = match l { Some(x) => x as u64, None => { f.push(format!("bin {}: link of {} is outside the arena", cls, h)); return f; } };
        }
        if n != count as u64 { f.push(format!("bin {}: count = {} but the free list has {} blocks", cls, count, n)); }
    }
    let hb = huge_freed_bytes.load(Ordering::SeqCst);
    if listed_bytes + hb != used { f.push(format!("{} bytes were carved but the free lists hold {} bytes and {} bytes of huge blocks were freed (blocks lost)", used, listed_bytes, hb)); }
    if st.fragment_size as u64 != listed_bytes + hb { f.push(format!("fragment_size {} != {} listed bytes + {} freed huge bytes", st.fragment_size, listed_bytes, hb)); }
    if st.huge_node_count as u64 != huge_freed.load(Ordering::SeqCst) || st.huge_size_sum as u64 != hb { f.push(format!("huge_node_count {} huge_size_sum {} after {} frees of huge blocks ({} bytes)", st.huge_node_count, st.huge_size_sum, huge_freed.load(Ordering::SeqCst), hb)); }
    f
}

/// FixedCapacityMemoryPool: the presets as they are, the arena created lazily by racing first allocations, several
/// size classes per thread, the capacity accessors.  variant 0: small pool, eager; 1: small pool, lazy; 2..=6:
/// small_objects / medium_objects / realtime / secure / default.
fn stress_fc_wide(nthr: usize, iters: usize, seed: u64, hold: usize, variant: u64) -> Vec<String> {
    let cfg = match variant {
        2 => FixedCapacityPoolConfig::small_objects(),
        3 => FixedCapacityPoolConfig::medium_objects(),
        4 => FixedCapacityPoolConfig::realtime(),
        5 => FixedCapacityPoolConfig::secure(),
        6 => FixedCapacityPoolConfig::default(),
        _ => FixedCapacityPoolConfig { max_block_size: 256, total_blocks: nthr * hold / 2 + 2, alignment: if seed % 2 == 0 { 8 } else { 32 }, enable_stats: true, eager_allocation: variant == 0, secure_clear: seed % 3 == 0 },
    };
    let (maxb, total, has_stats) = (cfg.max_block_size, cfg.total_blocks, cfg.enable_stats);
    let pool = Arc::new(match FixedCapacityMemoryPool::new(cfg) { Ok(p) => p, Err(e) => return vec![format!("pool creation failed: {}", e)] });
    if pool.total_capacity() != total * maxb { return vec![format!("total_capacity() = {} for {} blocks of {}", pool.total_capacity(), total, maxb)]; }
    let own = Arc::new(Ownership::new(total + 1));
    let clash = Clash::new();
    let okc = Arc::new(AtomicU64::new(0));
    let (p2, o2, c2, ok2) = (pool.clone(), own.clone(), clash.clone(), okc.clone());
    let barrier = Arc::new(std::sync::Barrier::new(nthr));
    let sizes: Vec<usize> = vec![1, 17, 64, maxb, maxb - 1, maxb / 2 + 1, 130.min(maxb)];
    let r = stress_threads(nthr, move |t| {
        let mut rng = Rng::new(seed * 1000 + t as u64);
        let mut held: Vec<FixedCapacityAllocation> = vec![];
        barrier.wait();
        for _ in 0..iters {
            if held.len() < hold && (held.is_empty() || rng.chance(1, 2)) {
                let s = *rng.pick(&sizes);
                if let Ok(mut a) = p2.allocate(s) {
                    ok2.fetch_add(1, Ordering::Relaxed);
                    let off = a.as_ptr() as usize - p2.verif_base();
                    if off % maxb != 0 || off / maxb >= total || a.size() < s || a.size() > maxb { c2.set(format!("allocate({}) returned offset {} size {} - not a block of the pool", s, off, a.size())); }
                    o2.take(off / maxb, t);
                    let n = a.size().min(512);
                    for b in a.as_mut_slice()[..n].iter_mut() { *b = t as u8 + 1; }
                    held.push(a);
                }
            } else if !held.is_empty() {
                let a = held.swap_remove(rng.below(held.len() as u64) as usize);
                let n = a.size().min(512);
                if a.as_slice()[..n].iter().any(|&b| b != t as u8 + 1) { c2.set(format!("block contents of thread {} overwritten while it owned the block", t)); }
                o2.give((a.as_ptr() as usize - p2.verif_base()) / maxb, t);
                drop(a);
            }
            if rng.chance(1, 64) { let _ = (p2.has_capacity(1), p2.available_capacity()); }
        }
        for a in held { o2.give((a.as_ptr() as usize - p2.verif_base()) / maxb, t); drop(a); }
    });
    let mut f = vec![];
    if let Err(e) = r { f.push(e); }
    if own.clash.load(Ordering::SeqCst) { f.push(own.detail.lock().unwrap().clone()); }
    if let Some(d) = clash.get() { f.push(d); }
    if !f.is_empty() { return f; }
    let all: BTreeSet<u64> = (0..total as u64).map(|i| i * maxb as u64).collect();
    let link = |x: u64| pool.verif_read_link(x as u32).map(|v| v as u64);
    let mut nfree = 0usize;
    let mut seen = BTreeSet::new();
    for ci in 0..pool.verif_num_classes() {
        let (packed, count) = pool.verif_class_state(ci).unwrap_or((u32::MAX as u64, 0));
        match walk_free(packed & 0xFFFF_FFFF, u32::MAX as u64, &link, &all, &BTreeSet::new(), total) {
            Ok(l) => {
                if l.len() as u64 != count as u64 { f.push(format!("class {} count = {} but its free list has {} blocks", ci, count, l.len())); }
                for b in &l { if !seen.insert(*b) { f.push(format!("block {} is on two free lists", b)); } }
                nfree += l.len();
            }
            Err(e) => { f.push(format!("class {}: {}", ci, e)); return f; }
        }
    }
    if nfree != total { f.push(format!("{} of {} blocks are on the free lists after all threads freed everything (blocks lost)", nfree, total)); }
    match pool.stats() {
        Some(st) => {
            let (a, d, act) = (st.allocations.load(Ordering::SeqCst), st.deallocations.load(Ordering::SeqCst), st.active_blocks.load(Ordering::SeqCst));
            if a != okc.load(Ordering::SeqCst) || a != d || act != 0 { f.push(format!("stats allocations={} deallocations={} active={} after {} allocations all freed", a, d, act, okc.load(Ordering::SeqCst))); }
            if pool.available_capacity() != pool.total_capacity() || !pool.has_capacity(maxb) || pool.has_capacity(maxb + 1) {
                f.push(format!("available_capacity() = {} of {} / has_capacity({}) = {} with no block live", pool.available_capacity(), pool.total_capacity(), maxb, pool.has_capacity(maxb)));
            }
            if st.utilization.load(Ordering::SeqCst) != 0 || st.utilization_percent() != 0.0 { f.push(format!("utilization gauge = {} (percent x 100) with no block live", st.utilization.load(Ordering::SeqCst))); }
            if st.is_at_capacity(total) { f.push("is_at_capacity() with no block live".into()); }
            let sr = st.success_rate();
            if !(0.0..=1.0).contains(&sr) { f.push(format!("success_rate() = {}", sr)); }
        }
        None => if has_stats { f.push("stats() is None although enable_stats is set".into()); },
    }
    f
}

/// SecureMemoryPool through allocate / allocate_with_hint / allocate_bulk_with_prefetch, with validate() and the
/// guard accessors in the loop.  variant 0: SecurePoolConfig::new with a small cache; 1: small_secure() as it is;
/// 2: medium_secure(); 3: large_secure(); 4: the process-wide pools of all three classes with
/// get_global_secure_pool_stats; 5: a small pool where one thread calls clear() now and then (chunk conservation
/// cannot be counted then, everything else is judged).
fn stress_sp_wide(nthr: usize, iters: usize, seed: u64, hold: usize, variant: u64) -> Vec<String> {
    use zipora::memory::secure_pool::{get_global_pool_for_size, get_global_secure_pool_stats, size_to_class};
    let pools: Vec<Arc<SecureMemoryPool>> = match variant {
        4 => vec![get_global_pool_for_size(512).clone(), get_global_pool_for_size(1025).clone(), get_global_pool_for_size(64 * 1024 + 1).clone()],
        _ => {
            let cfg = match variant {
                1 => SecurePoolConfig::small_secure(),
                2 => SecurePoolConfig::medium_secure(),
                3 => SecurePoolConfig::large_secure(),
                _ => super::sp_config((seed % 3) as usize, 0, if seed % 2 == 0 { 0 } else { 1 | 2 | 16 | 32 | 64 }),
            };
            match SecureMemoryPool::new(cfg) { Ok(p) => vec![p], Err(e) => return vec![format!("pool creation failed: {}", e)] }
        }
    };
    if variant == 4 {
        if Arc::ptr_eq(&pools[0], &pools[1]) || Arc::ptr_eq(&pools[1], &pools[2]) { return vec!["get_global_pool_for_size: 512 / 1025 / 65537 bytes do not map to three pools".into()]; }
        if !Arc::ptr_eq(get_global_pool_for_size(1024), &pools[0]) || !Arc::ptr_eq(get_global_pool_for_size(64 * 1024), &pools[1]) { return vec!["get_global_pool_for_size: 1024 / 65536 are not the upper ends of their classes".into()]; }
        let mut last = 0;
        for s in [1usize, 8, 9, 128, 129, 512, 513, 8192, 8193, 1 << 20] { let c = size_to_class(s); if c < last { return vec![format!("size_to_class({}) = {} decreases", s, c)]; } last = c; }
    }
    let iters = if variant >= 2 && variant <= 4 { iters / 8 } else { iters };
    let before = pools.iter().map(|p| p.stats()).collect::<Vec<_>>();
    let gbefore = get_global_secure_pool_stats();
    let clash = Clash::new();
    let table: Arc<Mutex<HashMap<usize, usize>>> = Arc::new(Mutex::new(HashMap::new()));
    let calls = Arc::new(AtomicU64::new(0));
    let hot = Arc::new(AtomicU64::new(0));
    let frees = Arc::new(AtomicU64::new(0));
    let cached = Arc::new(AtomicUsize::new(0));
    let (ps, c2, t2, ca2, ho2, fr2, cc2) = (pools.clone(), clash.clone(), table.clone(), calls.clone(), hot.clone(), frees.clone(), cached.clone());
    let barrier = Arc::new(std::sync::Barrier::new(nthr));
    let r = stress_threads(nthr, move |t| {
        barrier.wait();
        let mut rng = Rng::new(seed * 1000 + t as u64);
        let mut held: Vec<SecurePooledPtr> = vec![];
        let give = |p: SecurePooledPtr| {
            let n = p.size().min(256);
            if p.as_slice()[..n].iter().any(|&b| b != t as u8 + 1) { c2.set(format!("chunk contents of thread {} overwritten while it owned the chunk", t)); }
            if let Err(e) = p.validate() { c2.set(format!("SecurePooledPtr::validate() fails on an owned chunk: {}", e)); }
            let id = p.as_ptr() as usize;
            if t2.lock().unwrap().remove(&id) != Some(t) { c2.set(format!("chunk {:#x} freed by thread {} which the table does not list as its owner", id, t)); }
            fr2.fetch_add(1, Ordering::Relaxed);
            drop(p);
        };
        let take = |mut p: SecurePooledPtr, pool: &Arc<SecureMemoryPool>, held: &mut Vec<SecurePooledPtr>| {
            let id = p.as_ptr() as usize;
            if p.size() != pool.config().chunk_size || p.generation() == 0 || p.as_non_null().is_none() { c2.set(format!("allocate returned a guard with size {} generation {}", p.size(), p.generation())); }
            if id % pool.config().alignment != 0 { c2.set(format!("chunk {:#x} is not aligned to {}", id, pool.config().alignment)); }
            if let Some(o) = t2.lock().unwrap().insert(id, t) { c2.set(format!("chunk {:#x} handed to thread {} while thread {} owns it", id, t, o)); }
            let n = p.size().min(256);
            for b in p.as_mut_slice()[..n].iter_mut() { *b = t as u8 + 1; }
            held.push(p);
        };
        for it in 0..iters {
            let pool = &ps[rng.below(ps.len() as u64) as usize];
            if held.len() < hold && (held.is_empty() || rng.chance(1, 2)) {
                match rng.below(4) {
                    0 => { ca2.fetch_add(1, Ordering::Relaxed); ho2.fetch_add(1, Ordering::Relaxed); if let Ok(p) = pool.allocate_with_hint(true) { take(p, pool, &mut held); } }
                    1 => {
                        let k = rng.range(2, 3) as usize;
                        ca2.fetch_add(k as u64, Ordering::Relaxed);
                        match pool.allocate_bulk_with_prefetch(&vec![pool.config().chunk_size; k]) {
                            Ok(v) => { if v.len() != k { c2.set(format!("allocate_bulk_with_prefetch of {} sizes returned {} chunks", k, v.len())); } for p in v { take(p, pool, &mut held); } }
                            Err(e) => c2.set(format!("allocate_bulk_with_prefetch failed: {}", e)),
                        }
                    }
                    _ => { ca2.fetch_add(1, Ordering::Relaxed); if let Ok(p) = pool.allocate() { take(p, pool, &mut held); } }
                }
            } else if !held.is_empty() {
                let p = held.swap_remove(rng.below(held.len() as u64) as usize);
                give(p);
            }
            if variant == 5 && t == 0 && it % 97 == 0 { if let Err(e) = pool.clear() { c2.set(format!("clear() failed: {}", e)); } }
            if it % 211 == 0 && variant != 5 { if let Err(e) = pool.validate() { c2.set(format!("SecureMemoryPool::validate() fails while every live chunk is intact: {}", e)); } }
        }
        for p in held { give(p); }
        for pool in &ps { cc2.fetch_add(pool.verif_local_cache_len(), Ordering::SeqCst); }
        barrier.wait();
    });
    let mut f = vec![];
    if let Err(e) = r { f.push(e); }
    if let Some(d) = clash.get() { f.push(d); }
    let mut dc = 0u64; let mut dd = 0u64; let mut dh = 0u64; let mut dm = 0u64; let mut dhot = 0u64; let mut dcold = 0u64;
    for (p, b) in pools.iter().zip(before.iter()) {
        let st = p.stats();
        dc += st.alloc_count - b.alloc_count; dd += st.dealloc_count - b.dealloc_count; dh += st.pool_hits - b.pool_hits; dm += st.pool_misses - b.pool_misses;
        dhot += st.hot_data_allocs - b.hot_data_allocs; dcold += st.cold_data_allocs - b.cold_data_allocs;
        if st.double_free_detected != b.double_free_detected || st.corruption_detected != b.corruption_detected { f.push(format!("double_free_detected {} corruption_detected {} although every chunk was freed once", st.double_free_detected, st.corruption_detected)); }
        if let Err(e) = p.validate() { f.push(format!("validate() fails at quiescence: {}", e)); }
    }
    if dc != calls.load(Ordering::SeqCst) || dd != frees.load(Ordering::SeqCst) {
        f.push(format!("alloc_count grew by {} for {} allocate calls, dealloc_count by {} for {} frees", dc, calls.load(Ordering::SeqCst), dd, frees.load(Ordering::SeqCst)));
    }
    if dh + dm != dc { f.push(format!("pool_hits {} + pool_misses {} != alloc_count {}", dh, dm, dc)); }
    if dhot != hot.load(Ordering::SeqCst) || dhot + dcold != dc { f.push(format!("hot_data_allocs {} + cold_data_allocs {} for {} hinted of {} allocations", dhot, dcold, hot.load(Ordering::SeqCst), dc)); }
    if variant == 4 {
        let g = get_global_secure_pool_stats();
        if g.alloc_count - gbefore.alloc_count != dc || g.dealloc_count - gbefore.dealloc_count != dd || g.pool_hits - gbefore.pool_hits != dh || g.pool_misses - gbefore.pool_misses != dm {
            f.push(format!("get_global_secure_pool_stats(): alloc_count +{} dealloc_count +{} but the three pools served {} / {}", g.alloc_count - gbefore.alloc_count, g.dealloc_count - gbefore.dealloc_count, dc, dd));
        }
    }
    if variant != 4 {
        let pool = &pools[0];
        if pool.verif_active_len() != 0 { f.push(format!("active-allocation table has {} entries after every chunk was freed", pool.verif_active_len())); }
        if variant != 5 && f.is_empty() {
            // every chunk ever created (one per miss) must be in a thread cache or on the shared stack
            let mut n_stack = 0u64;
            let mut h = pool.verif_stack_head();
            let mut seen = BTreeSet::new();
            while h != 0 {
                if !seen.insert(h) { f.push("shared stack has a cycle".into()); break; }
                let (nx, _) = unsafe { pool.verif_stack_node(h) };
                n_stack += 1;
                h = nx;
                if n_stack > dm + 1 { f.push("shared stack longer than the number of chunks".into()); break; }
            }
            let in_caches = cached.load(Ordering::SeqCst) as u64;
            if f.is_empty() && n_stack + in_caches != dm {
                f.push(format!("{} chunks were created, all freed, but only {} are in thread caches and {} on the shared stack: {} lost", dm, in_caches, n_stack, dm as i64 - (n_stack + in_caches) as i64));
            }
        }
        // guards that outlive the pool: their chunks stay valid and are released by the guards themselves
        if f.is_empty() {
            let mut last: Vec<SecurePooledPtr> = (0..3).filter_map(|_| pools[0].allocate_with_hint(true).ok()).collect();
            for (i, g) in last.iter_mut().enumerate() { let n = g.size().min(256); for b in g.as_mut_slice()[..n].iter_mut() { *b = 0xC0 + i as u8; } }
            drop(pools);
            for (i, g) in last.iter().enumerate() {
                let n = g.size().min(256);
                if g.as_slice()[..n].iter().any(|&b| b != 0xC0 + i as u8) || g.validate().is_err() { f.push("a chunk was damaged when its pool was dropped before the guard".into()); }
            }
            drop(last);
        }
    }
    f
}

/// MemoryPool (pool.rs): allocate / deallocate / clear() by one of the threads / stats() / config(), the presets,
/// and the process-wide pools through PooledBuffer and PooledVec of all three classes.  variant 0: a small pool
/// with clear(); 1..=3: small() / medium() / large() with clear(); 4: the global pools.
fn stress_mp_wide(nthr: usize, iters: usize, seed: u64, hold: usize, variant: u64) -> Vec<String> {
    use zipora::memory::{PooledBuffer, PooledVec};
    if variant == 4 {
        let mut f = vec![];
        if zipora::memory::pool::init_global_pools(0, 1).is_ok() || zipora::memory::pool::init_global_pools(1, 0).is_ok() || zipora::memory::pool::init_global_pools(4096, 1 << 20).is_err() {
            f.push("init_global_pools accepts a zero parameter or refuses a proper one".into());
        }
        let before = zipora::memory::pool::get_global_pool_stats();
        let clash = Clash::new();
        let calls = Arc::new(AtomicU64::new(0));
        let (c2, ca2) = (clash.clone(), calls.clone());
        let iters = iters / 8;
        let r = stress_threads(nthr, move |t| {
            let mut rng = Rng::new(seed * 1000 + t as u64);
            let mut bufs: Vec<PooledBuffer> = vec![];
            let mut vecs: Vec<PooledVec<u64>> = vec![];
            let mut bigs: Vec<PooledVec<[u8; 2000]>> = vec![];
            for _ in 0..iters {
                match rng.below(6) {
                    0 if bufs.len() < hold => { if let Ok(mut b) = PooledBuffer::new(*rng.pick(&[1usize, 1024, 1025, 65536, 65537, 1 << 20])) { ca2.fetch_add(1, Ordering::Relaxed); let n = b.len().min(128); for x in b.as_mut_slice()[..n].iter_mut() { *x = t as u8 + 1; } bufs.push(b); } }
                    1 if vecs.len() < hold => { if let Ok(mut v) = PooledVec::<u64>::new() { ca2.fetch_add(1, Ordering::Relaxed); for i in 0..rng.below(100) { let _ = v.push(t as u64 * 1000 + i); } vecs.push(v); } }
                    2 if bigs.len() < 2 => { if let Ok(mut v) = PooledVec::<[u8; 2000]>::new() { ca2.fetch_add(1, Ordering::Relaxed); let _ = v.push([t as u8 + 1; 2000]); bigs.push(v); } }
                    3 if !bufs.is_empty() => { let b = bufs.swap_remove(rng.below(bufs.len() as u64) as usize); let n = b.len().min(128); if b.as_slice()[..n].iter().any(|&x| x != t as u8 + 1) { c2.set(format!("buffer contents of thread {} overwritten while it owned the buffer", t)); } }
                    4 if !vecs.is_empty() => { let v = vecs.swap_remove(rng.below(vecs.len() as u64) as usize); if v.as_slice().iter().enumerate().any(|(i, &x)| x != t as u64 * 1000 + i as u64) || v.len() > v.capacity() { c2.set(format!("PooledVec contents of thread {} overwritten while it owned the vector", t)); } }
                    5 if !bigs.is_empty() => { let v = bigs.pop().unwrap(); if v.as_slice().iter().any(|a| a.iter().any(|&x| x != t as u8 + 1)) { c2.set(format!("PooledVec contents of thread {} overwritten while it owned the vector", t)); } }
                    _ => {}
                }
            }
        });
        if let Err(e) = r { f.push(e); }
        if let Some(d) = clash.get() { f.push(d); }
        let st = zipora::memory::pool::get_global_pool_stats();
        let n = calls.load(Ordering::SeqCst);
        if st.alloc_count - before.alloc_count != n || st.dealloc_count - before.dealloc_count != n {
            f.push(format!("alloc_count grew by {} and dealloc_count by {} after {} allocations all freed", st.alloc_count - before.alloc_count, st.dealloc_count - before.dealloc_count, n));
        }
        if st.pool_hits + st.pool_misses != st.alloc_count { f.push(format!("pool_hits {} + pool_misses {} != alloc_count {}", st.pool_hits, st.pool_misses, st.alloc_count)); }
        if st.allocated != st.available { f.push(format!("stats.allocated = {} bytes but the pooled chunks amount to {} bytes and nothing is live at quiescence", st.allocated, st.available)); }
        return f;
    }
    let pc = match variant { 1 => PoolConfig::small(), 2 => PoolConfig::medium(), 3 => PoolConfig::large(), _ => PoolConfig::new(48, 3, 16) };
    let (csize, maxc) = (pc.chunk_size, pc.max_chunks);
    let iters = if variant >= 2 { iters / 8 } else { iters };
    let pool = Arc::new(match MemoryPool::new(pc) { Ok(p) => p, Err(e) => return vec![format!("pool creation failed: {}", e)] });
    let clash = Clash::new();
    let table: Arc<Mutex<HashMap<usize, usize>>> = Arc::new(Mutex::new(HashMap::new()));
    let calls = Arc::new(AtomicU64::new(0));
    let (p2, c2, t2, ca2) = (pool.clone(), clash.clone(), table.clone(), calls.clone());
    let r = stress_threads(nthr, move |t| {
        let mut rng = Rng::new(seed * 1000 + t as u64);
        let mut held: Vec<NonNull<u8>> = vec![];
        let n = csize.min(128);
        let give = |p: NonNull<u8>| {
            let s = unsafe { std::slice::from_raw_parts(p.as_ptr(), n) };
            if s.iter().any(|&b| b != t as u8 + 1) { c2.set(format!("chunk contents of thread {} overwritten while it owned the chunk", t)); }
            t2.lock().unwrap().remove(&(p.as_ptr() as usize));
            if let Err(e) = p2.deallocate(p) { c2.set(format!("deallocate failed: {}", e)); }
        };
        for it in 0..iters {
            if held.len() < hold && (held.is_empty() || rng.chance(1, 2)) {
                if let Ok(p) = p2.allocate() {
                    ca2.fetch_add(1, Ordering::Relaxed);
                    if p.as_ptr() as usize % p2.config().alignment != 0 { c2.set("chunk not aligned to config().alignment".into()); }
                    if let Some(o) = t2.lock().unwrap().insert(p.as_ptr() as usize, t) { c2.set(format!("chunk handed to thread {} while thread {} owns it", t, o)); }
                    unsafe { std::ptr::write_bytes(p.as_ptr(), t as u8 + 1, n); }
                    held.push(p);
                }
            } else if !held.is_empty() {
                let p = held.swap_remove(rng.below(held.len() as u64) as usize);
                give(p);
            }
            if t == 1 % nthr && it % 53 == 0 { if let Err(e) = p2.clear() { c2.set(format!("clear() failed: {}", e)); } }
            if it % 101 == 0 { let st = p2.stats(); if st.chunks > maxc { c2.set(format!("{} chunks pooled, max_chunks is {}", st.chunks, maxc)); } }
        }
        for p in held { give(p); }
    });
    let mut f = vec![];
    if let Err(e) = r { f.push(e); }
    if let Some(d) = clash.get() { f.push(d); }
    let st = pool.stats();
    let n = calls.load(Ordering::SeqCst);
    if st.alloc_count != n || st.dealloc_count != n { f.push(format!("alloc_count={} dealloc_count={} after {} allocations all freed", st.alloc_count, st.dealloc_count, n)); }
    if st.pool_hits + st.pool_misses != st.alloc_count { f.push(format!("pool_hits {} + pool_misses {} != alloc_count {}", st.pool_hits, st.pool_misses, st.alloc_count)); }
    if st.chunks > maxc { f.push(format!("{} chunks pooled, max_chunks is {}", st.chunks, maxc)); }
    if st.allocated != st.chunks as u64 * csize as u64 || st.available != st.chunks as u64 * csize as u64 {
        f.push(format!("stats.allocated = {} bytes (available {}) but {} chunks of {} bytes are alive (all pooled) at quiescence", st.allocated, st.available, st.chunks, csize));
    }
    f
}
