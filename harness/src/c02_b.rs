//! C02, oracle breadth (third file of the module; `super` is c02.rs).
//! Secondary public entry points, non-default configurations / presets, internal thresholds and mixed operation
//! histories of the anchored compressors, all judged by the one dumb shadow of the property: the payload that went in.
//! Nothing here is compared with the Coq model (the model does not know these operations); every family is described by
//! small tuples (kind, n, seed) in the case JSON, so that big inputs are never spelled out.
use super::*;
use zipora::compression::dict_zip::{
    ConcurrentSuffixArrayDictionary, DfaCacheConfig, LocalMatcherConfig, QuickConfig,
};
use zipora::compression::realtime::RealtimeCompressorBuilder;
use zipora::compression::{
    compress_with_simd_lz77, decompress_with_simd_lz77, get_global_simd_lz77_compressor, Lz4Compressor, NoCompressor, SimdLz77CompressorX1, SimdLz77CompressorX2,
    SimdLz77CompressorX4, SimdLz77CompressorX8, SimdLz77Config, ZstdCompressor,
};
use zipora::algorithms::suffix_array::{SuffixArrayAlgorithm, SuffixArrayConfig as SaConfig};

type Op = Vec<u64>;
fn opf(o: &Op, i: usize) -> u64 { o.get(i).copied().unwrap_or(0) }
pub fn parse_ops(v: &Value) -> Vec<Op> {
    v.as_array().map(|a| a.iter().map(|o| o.as_array().map(|v| v.iter().map(|x| x.as_u64().unwrap_or(0)).collect()).unwrap_or_default()).collect()).unwrap_or_default()
}
fn diff_msg(y: &[u8], x: &[u8]) -> String {
    let at = y.iter().zip(x.iter()).position(|(a, b)| a != b).unwrap_or(y.len().min(x.len()));
    format!("differs from x at byte {} (|x|={}, |y|={})", at, x.len(), y.len())
}

// ---------------------------------------------------------------------------------------------
// training texts and payloads described by small tuples
// ---------------------------------------------------------------------------------------------
/// tk 0: TEXT repeated; 1: random lower-case words; 2: ACGT (alphabet of 4); 3: numbered log lines (highly repetitive);
/// 4: random bytes; 5: a mixture of all; 6: one byte repeated with a rare second one (alphabet of 2)
pub fn train_text(tk: u64, n: usize, seed: u64) -> Vec<u8> {
    let mut r = Rng::new(seed ^ 0x7EA1);
    let mut t: Vec<u8> = Vec::with_capacity(n + 64);
    let mut line = 0u64;
    while t.len() < n {
        let k = if tk == 5 { r.below(5) } else { tk };
        match k {
            0 => t.extend_from_slice(TEXT),
            1 => { let w = r.range(2, 9) as usize; for _ in 0..w { t.push(b'a' + r.below(26) as u8); } t.push(b' '); }
            2 => { for _ in 0..16 { t.push(b"ACGT"[r.below(4) as usize]); } }
            3 => { line += 1; t.extend_from_slice(x::LINE); t.extend_from_slice(format!("id={} ", line % 97).as_bytes()); }
            4 => { let b = r.bytes(32); t.extend_from_slice(&b); }
            _ => { for _ in 0..40 { t.push(if r.chance(1, 50) { b'#' } else { b'z' }); } }
        }
    }
    t.truncate(n);
    t
}
/// pk 0: cut from the training text; 1: pieces of TEXT, runs and random bytes; 2: random bytes; 3: training cut + junk +
/// training cut; 4: empty; 5: one byte repeated; 6: the training cut reversed (symbols of the training, other order);
/// 7: the last n bytes of the training (a dictionary match that ends with the dictionary); 8: the first n bytes
pub fn hist_payload(train: &[u8], pk: u64, n: usize, seed: u64) -> Vec<u8> {
    let mut r = Rng::new(seed ^ 0x9A71);
    let cut = |r: &mut Rng, n: usize| -> Vec<u8> {
        if train.is_empty() { return vec![]; }
        let n = n.min(train.len());
        let a = r.below((train.len() - n + 1) as u64) as usize;
        train[a..a + n].to_vec()
    };
    match pk {
        0 => cut(&mut r, n),
        1 => big_payload(n, seed),
        2 => r.bytes(n),
        3 => { let mut v = cut(&mut r, n / 2); v.extend(r.bytes(3)); v.extend(cut(&mut r, n - n / 2)); v }
        4 => vec![],
        5 => vec![(seed % 251) as u8; n],
        6 => { let mut v = cut(&mut r, n); v.reverse(); v }
        7 => train[train.len() - n.min(train.len())..].to_vec(),
        _ => train[..n.min(train.len())].to_vec(),
    }
}

// ---------------------------------------------------------------------------------------------
// PA-Zip: configuration variants, dictionary variants, operation histories on one compressor
// ---------------------------------------------------------------------------------------------
pub const N_CFGV: usize = 17;
pub fn pz_config(cfgv: usize) -> PaZipCompressorConfig {
    let d = PaZipCompressorConfig::default;
    match cfgv % N_CFGV {
        0..=5 => preset(cfgv % N_CFGV),
        6 => PaZipCompressorConfig { enable_multithreading: false, ..d() },
        7 => PaZipCompressorConfig { multithreading_threshold: 0, ..d() },
        8 => PaZipCompressorConfig { multithreading_threshold: usize::MAX, ..d() },
        9 => PaZipCompressorConfig { adaptive_thresholds: false, min_net_benefit: 0, learning_rate: 1.0, ..d() },
        10 => PaZipCompressorConfig { collect_detailed_stats: true, output_buffer_size: 0, enable_simd: false, ..d() },
        11 => PaZipCompressorConfig { local_config: LocalMatcherConfig::fast_compression(), ..d() },
        12 => PaZipCompressorConfig { local_config: LocalMatcherConfig::max_compression(), max_local_probe_distance: 16, ..d() },
        13 => PaZipCompressorConfig { local_config: LocalMatcherConfig::realtime(), ..PaZipCompressorConfig::realtime() },
        14 => PaZipCompressorConfig { global_access_cost: 64, literal_cost_bits: 1, min_net_benefit: 9, learning_rate: 0.0, ..d() },
        15 => PaZipCompressorConfig { multithreading_threshold: 1 << 21, max_global_probe_distance: 1, ..PaZipCompressorConfig::high_compression() },
        // reference byte format with the hash-table local matcher (same finding class as the preset: there is no decoder)
        _ => PaZipCompressorConfig { use_suffix_array_local_match: false, ..PaZipCompressorConfig::reference_compliant() },
    }
}
pub fn cfgv_name(cfgv: usize) -> String {
    match cfgv % N_CFGV { i @ 0..=5 => PRESETS[i].to_string(), 16 => "reference_compliant".to_string(), i => format!("custom{}", i) }
}

pub const N_DICTV: usize = 21;
fn tmp_path(tag: &str) -> std::path::PathBuf {
    static CTR: std::sync::atomic::AtomicU64 = std::sync::atomic::AtomicU64::new(0);
    let k = CTR.fetch_add(1, std::sync::atomic::Ordering::Relaxed);
    std::env::temp_dir().join(format!("zv_c02_{}_{}_{}.bin", std::process::id(), tag, k))
}
pub fn build_dict(dictv: usize, train: &[u8]) -> std::result::Result<SuffixArrayDictionary, String> {
    let d = SuffixArrayDictionaryConfig::default;
    let mk = |c: SuffixArrayDictionaryConfig| SuffixArrayDictionary::new(train, c).map_err(|e| e.to_string());
    let algo = |a: SuffixArrayAlgorithm| SuffixArrayDictionaryConfig { suffix_array_config: SaConfig { algorithm: a, use_parallel: false, optimize_small_alphabet: false, ..Default::default() }, ..d() };
    match dictv % N_DICTV {
        0 => DictionaryBuilder::new().build(train).map_err(|e| e.to_string()),
        1 => DictionaryBuilder::with_config(DictionaryBuilderConfig { target_dict_size: 2048, max_dict_size: 4096, validate_result: true, ..Default::default() }).build(train).map_err(|e| e.to_string()),
        2 => mk(d()),
        3 => mk(SuffixArrayDictionaryConfig { min_pattern_length: 1, max_pattern_length: 8, ..d() }),
        4 => mk(SuffixArrayDictionaryConfig { min_frequency: 2, max_bfs_depth: 8, max_cache_states: 16, ..d() }),
        5 => mk(SuffixArrayDictionaryConfig { min_frequency: 1000, max_bfs_depth: 1, ..d() }),
        6 => mk(QuickConfig::text_compression()),
        7 => mk(QuickConfig::binary_compression()),
        8 => mk(QuickConfig::log_compression()),
        9 => mk(QuickConfig::realtime_compression()),
        10 => mk(algo(SuffixArrayAlgorithm::SAIS)),
        11 => mk(algo(SuffixArrayAlgorithm::DivSufSort)),
        12 => mk(algo(SuffixArrayAlgorithm::DC3)),
        13 => mk(algo(SuffixArrayAlgorithm::LarssonSadakane)),
        14 => mk(SuffixArrayDictionaryConfig { suffix_array_config: SaConfig { parallel_threshold: 1000, use_parallel: true, adaptive_threshold: 500, ..Default::default() }, ..d() }),
        15 => mk(SuffixArrayDictionaryConfig { use_memory_pool: false, external_mode: true, enable_simd: !d().enable_simd, dfa_cache_config: DfaCacheConfig::small_dictionary(train.len()), ..d() }),
        16 => { let a = mk(d())?; let bytes = a.serialize().map_err(|e| e.to_string())?; SuffixArrayDictionary::deserialize(&bytes).map_err(|e| format!("deserialize(serialize(dict)) refused: {}", e)) }
        17 => { let mut a = mk(d())?; a.optimize_cache().map_err(|e| e.to_string())?; Ok(a) }
        18 => {
            let a = mk(d())?;
            let p = tmp_path("dict");
            let r = a.save_to_file(&p).map_err(|e| e.to_string()).and_then(|_| SuffixArrayDictionary::load_from_file(&p).map_err(|e| format!("load_from_file(save_to_file(dict)) refused: {}", e)));
            let _ = std::fs::remove_file(&p);
            r
        }
        19 => { let a = mk(d())?; let b = a.clone(); drop(a); Ok(b) }
        _ => mk(SuffixArrayDictionaryConfig { sample_ratio: 0.5, min_pattern_length: 2, ..d() }),
    }
}
fn new_pool() -> std::result::Result<std::sync::Arc<SecureMemoryPool>, String> {
    SecureMemoryPool::new(SecurePoolConfig::new(4096, 1024, 8)).map_err(|e| format!("pool: {}", e))
}

/// PaZipCompressor::compress into `z` whatever `z` held before; returns the block that stands for the payload.  The
/// sequential path appends to the caller's vector and the block-wise path clears it first: both conventions are accepted
/// (a caller that knows the convention takes the tail after its own prefix, or the whole vector).
fn pz_compress_into(c: &mut PaZipCompressor, x: &[u8], z: &mut Vec<u8>) -> std::result::Result<Vec<u8>, String> {
    let before = z.clone();
    c.compress(x, z).map_err(|e| format!("compress refused: {}", e))?;
    if z.len() >= before.len() && z[..before.len()] == before[..] { Ok(z[before.len()..].to_vec()) } else { Ok(z.clone()) }
}
fn pz_check(c: &mut PaZipCompressor, z: &[u8], x: &[u8], dirty: bool, who: &str) -> Option<String> {
    let mut y: Vec<u8> = if dirty { b"stale bytes of the previous record".to_vec() } else { Vec::new() };
    match c.decompress(z, &mut y) {
        Ok(()) if y == x => None,
        Ok(()) => Some(format!("{}decompress(compress(x)){} {} (|z|={})", who, if dirty { " into a reused output vector" } else { "" }, diff_msg(&y, x), z.len())),
        Err(e) => Some(format!("{}decompress(compress(x)) = Err({}) (|x|={}, |z|={})", who, e, x.len(), z.len())),
    }
}

/// ops: [0,pk,n,seed] compress a payload into a fresh vector and check it at once; [1,pk,n,seed] the same into a reused
/// vector that already holds bytes; [2,j] decompress block j again; [3,j] the same into a reused output vector;
/// [4] reset_stats; [5] stats / dictionary_stats / local_matcher_stats / cache_stats / validate; [6] go on with a clone of
/// the compressor; [7] go on with a compressor built on deserialize(serialize(dictionary)).  At the end every block is decoded once
/// more by the current compressor and by the one the history started with.
pub fn pazip_hist_case(cx: &mut Ctx, cfgv: usize, dictv: usize, tk: u64, tn: usize, tseed: u64, ops: &[Op]) {
    let cell = format!("pazip/compressor/{}", cfgv_name(cfgv));
    cx.sum.cell_status(&cell, "S-only");
    let cj = json!({"cell": "pazip_hist", "cfgv": cfgv, "dictv": dictv, "tk": tk, "tn": tn, "tseed": tseed, "ops": ops});
    cx.sum.eval(&cell, &format!("pzh {} {} {} {} {} {:?}", cfgv, dictv, tk, tn, tseed, ops), ops.len() >= 2);
    cx.sum.dist(&format!("pazip_hist_cfgv={}", cfgv % N_CFGV));
    cx.sum.dist(&format!("pazip_hist_dictv={}", dictv % N_DICTV));
    let train = train_text(tk, tn, tseed);
    let cfg = pz_config(cfgv);
    // the finding class is tied to the two variants that ask for the reference byte format, not to what the configuration object says:
    // a preset that turned the reference format on by accident must not hide behind the finding
    let reference = matches!(cfgv % N_CFGV, 5 | 16);
    let nonempty = std::cell::Cell::new(false);
    let globals = std::cell::Cell::new(0u64);
    let res = guarded(|| -> std::result::Result<Option<String>, String> {
        let dict = build_dict(dictv, &train).map_err(|e| format!("setup: dictionary: {}", e))?;
        let dict0 = dict.clone();
        let mut c = PaZipCompressor::new(dict, cfg.clone(), new_pool().map_err(|e| format!("setup: {}", e))?).map_err(|e| format!("setup: compressor: {}", e))?;
        let first = c.clone();
        let mut blocks: Vec<(Vec<u8>, Vec<u8>)> = vec![];
        let mut reused: Vec<u8> = vec![0xEE, 0xEE, 0xEE];
        for (i, o) in ops.iter().enumerate() {
            match opf(o, 0) {
                0 | 1 => {
                    let x = hist_payload(&train, opf(o, 1), opf(o, 2) as usize, opf(o, 3));
                    if !x.is_empty() { nonempty.set(true); }
                    // (the reused vector always begins with three bytes no record begins with, so a cleared vector is told from an appended one)
                    if !reused.starts_with(&[0xEE, 0xEE, 0xEE]) { reused = vec![0xEE, 0xEE, 0xEE]; }
                    let z = if opf(o, 0) == 0 { let mut z = Vec::new(); pz_compress_into(&mut c, &x, &mut z) } else { pz_compress_into(&mut c, &x, &mut reused) };
                    let z = match z { Ok(z) => z, Err(e) => return Ok(Some(format!("op {}: {}", i, e))) };
                    globals.set(globals.get() + c.stats().global_matches);
                    if let Some(m) = pz_check(&mut c, &z, &x, i % 2 == 1, "") { return Ok(Some(format!("op {}: {}", i, m))); }
                    blocks.push((z, x));
                }
                2 | 3 => if !blocks.is_empty() {
                    let j = opf(o, 1) as usize % blocks.len();
                    let (z, x) = blocks[j].clone();
                    if let Some(m) = pz_check(&mut c, &z, &x, opf(o, 0) == 3, "later ") { return Ok(Some(format!("op {}: block {}: {}", i, j, m))); }
                }
                4 => { let _ = guarded(|| c.reset_stats()); }
                5 => { let _ = guarded(|| { let _ = c.stats().clone(); let _ = c.dictionary_stats().clone(); let _ = c.local_matcher_stats().clone(); let _ = c.cache_stats(); let _ = c.validate(); }); }
                6 => { let c2 = c.clone(); c = c2; }
                _ => {
                    let bytes = dict0.serialize().map_err(|e| format!("setup: serialize: {}", e))?;
                    let d2 = match SuffixArrayDictionary::deserialize(&bytes) { Ok(d) => d, Err(e) => return Ok(Some(format!("op {}: deserialize(serialize(dictionary)) refused: {}", i, e))) };
                    c = PaZipCompressor::new(d2, cfg.clone(), new_pool()?).map_err(|e| format!("setup: compressor: {}", e))?;
                }
            }
        }
        let mut first = first;
        for (j, (z, x)) in blocks.iter().enumerate() {
            if let Some(m) = pz_check(&mut c, z, x, j % 2 == 0, "final ") { return Ok(Some(format!("block {} at the end of the history: {}", j, m))); }
            if let Some(m) = pz_check(&mut first, z, x, false, "final (clone taken before the history) ") { return Ok(Some(format!("block {} at the end of the history: {}", j, m))); }
        }
        Ok(None)
    });
    if globals.get() > 0 { cx.sum.dist("pazip_hist_with_global_match"); }
    let class = if reference && nonempty.get() { Some("pazip_reference_no_decoder") } else { None };
    match res {
        Err(p) => cx.sum.fail(&cell, class, cj, &format!("panicked: {}", p)),
        Ok(Err(e)) if e.starts_with("setup") && !e.contains("refused:") => { cx.sum.dist("pazip_hist_setup_refused"); cx.sum.notes.push(format!("pazip_hist cfgv {} dictv {}: {}", cfgv, dictv, e)); }
        Ok(Err(e)) => cx.sum.fail(&cell, class, cj, &e),
        Ok(Ok(Some(m))) => cx.sum.fail(&cell, class, cj, &m),
        Ok(Ok(None)) => if class.is_some() { cx.sum.dist("known_class_but_passed") },
    }
}

/// What the dictionary answers must be true: a reported match is a substring of the dictionary text at the reported position
/// (this is the hypothesis under which the compress loop is proved to round-trip).  queries: [pk, n, seed, pos].
pub fn dict_match_case(cx: &mut Ctx, dictv: usize, tk: u64, tn: usize, tseed: u64, queries: &[Op]) {
    let cell = "pazip/dictionary_match";
    cx.sum.cell_status(cell, "S-only");
    let cj = json!({"cell": "dict_match", "dictv": dictv, "tk": tk, "tn": tn, "tseed": tseed, "queries": queries});
    cx.sum.eval(cell, &format!("dm {} {} {} {} {:?}", dictv, tk, tn, tseed, queries), queries.len() >= 2);
    let train = train_text(tk, tn, tseed);
    let found = std::cell::Cell::new(0u64);
    let res = guarded(|| -> std::result::Result<Option<String>, String> {
        let mut dict = build_dict(dictv, &train).map_err(|e| format!("setup: {}", e))?;
        let conc = if dictv % N_DICTV == 2 { ConcurrentSuffixArrayDictionary::new(&train, SuffixArrayDictionaryConfig::default()).ok() } else { None };
        let text = dict.dictionary_text().to_vec();
        // housekeeping before the searches (results are not the property's business)
        let _ = guarded(|| { let _ = dict.validate(); let _ = dict.cache_stats(); let _ = dict.memory_usage(); });
        if queries.len() % 2 == 0 { dict.reset_stats(); }
        if dict.data() != &text[..] || dict.dictionary_size() != text.len() { return Ok(Some("data() / dictionary_size() disagree with dictionary_text()".to_string())); }
        for (i, q) in queries.iter().enumerate() {
            let x = hist_payload(&train, opf(q, 0), opf(q, 1) as usize, opf(q, 2));
            if x.is_empty() { continue; }
            let pos = opf(q, 3) as usize % x.len();
            let check = |m: &zipora::compression::dict_zip::PatternMatch, who: &str| -> Option<String> {
                if m.length == 0 || pos + m.length > x.len() || m.dict_position + m.length > text.len() || text[m.dict_position..m.dict_position + m.length] != x[pos..pos + m.length] {
                    Some(format!("query {}: {} reports length {} at dictionary position {} for input position {}, which is not what the dictionary holds there", i, who, m.length, m.dict_position, pos))
                } else { None }
            };
            match dict.find_longest_match(&x, pos, 256) {
                Err(_) => {}
                Ok(None) => {}
                Ok(Some(m)) => { found.set(found.get() + 1); if let Some(e) = check(&m, "find_longest_match") { return Ok(Some(e)); } }
            }
            if let Some(cd) = &conc {
                if let Ok(Some(m)) = cd.find_longest_match(&x, pos, 256) { if let Some(e) = check(&m, "ConcurrentSuffixArrayDictionary::find_longest_match") { return Ok(Some(e)); } }
            }
            let pat = &x[pos..(pos + 12).min(x.len())];
            if let Ok(ms) = dict.find_all_matches(pat, 8) {
                for m in ms {
                    if m.dict_position + pat.len() > text.len() || &text[m.dict_position..m.dict_position + pat.len()] != pat {
                        return Ok(Some(format!("query {}: find_all_matches reports the {}-byte pattern at dictionary position {}, where the dictionary holds other bytes", i, pat.len(), m.dict_position)));
                    }
                }
            }
        }
        Ok(None)
    });
    if found.get() > 0 { cx.sum.dist("dict_match_case_with_match"); }
    match res {
        Err(p) => cx.sum.fail(cell, None, cj, &format!("panicked: {}", p)),
        Ok(Err(_)) => cx.sum.dist("dict_match_setup_refused"),
        Ok(Ok(Some(m))) => cx.sum.fail(cell, None, cj, &m),
        Ok(Ok(None)) => {}
    }
}

// ---------------------------------------------------------------------------------------------
// compressor layer: every constructor, the provided trait methods, histories on one instance
// ---------------------------------------------------------------------------------------------
pub const N_CTOR: usize = 36;
const ZSTD_LEVELS: [i32; 8] = [6, 0, 22, 23, -1, -100, i32::MAX, i32::MIN];
pub fn requirements(k: u64) -> PerformanceRequirements {
    let d = PerformanceRequirements::default;
    match k % 6 {
        0 => d(),
        1 => PerformanceRequirements { speed_vs_quality: 0.0, ..d() },
        2 => PerformanceRequirements { speed_vs_quality: 1.0, ..d() },
        3 => PerformanceRequirements { max_memory: 16, ..d() },
        4 => PerformanceRequirements { max_latency: Duration::from_nanos(0), ..d() },
        _ => PerformanceRequirements { max_latency: Duration::from_secs(3600), max_memory: usize::MAX / 2, target_ratio: 1.0, speed_vs_quality: 0.9, min_throughput: 0 },
    }
}
fn simd_config(k: usize) -> SimdLz77Config {
    match k % 4 { 0 => SimdLz77Config::default(), 1 => SimdLz77Config::high_performance(), 2 => SimdLz77Config::low_latency(), _ => SimdLz77Config::maximum_parallelism() }
}
/// (compressor, name of the oracle cell, algorithm it stands for)
fn construct(ctor: usize, train: &[u8], req: &PerformanceRequirements, probe: &[u8]) -> std::result::Result<(Box<dyn Compressor>, String), String> {
    let es = |e: zipora::error::ZiporaError| e.to_string();
    let tr = Some(train);
    Ok(match ctor % N_CTOR {
        i @ 0..=11 => { let (a, n) = ALGS[i]; (CompressorFactory::create(a, if needs_training(a) { tr } else { None }).map_err(es)?, format!("factory/{}", n)) }
        i @ 12..=19 => { let l = ZSTD_LEVELS[i - 12]; (CompressorFactory::create(Algorithm::Zstd(l), None).map_err(es)?, "factory/ZstdLevels".to_string()) }
        20 => (Box::new(ZstdCompressor::new(5)), "factory/ZstdLevels".to_string()),
        21 => (Box::new(NoCompressor), "factory/None".to_string()),
        22 => (Box::new(Lz4Compressor), "factory/Lz4".to_string()),
        23 => (Box::new(HuffmanCompressor::new(train).map_err(es)?), "factory/Huffman".to_string()),
        24 => (Box::new(RansCompressor::new(train).map_err(es)?), "factory/Rans".to_string()),
        25 => (Box::new(DictCompressor::new(train).map_err(es)?), "factory/Dictionary".to_string()),
        26 => (Box::new(HybridCompressor::new(train).map_err(es)?), "factory/Hybrid".to_string()),
        i @ 27..=29 => (Box::new(SimdLz77Compressor::with_config(simd_config(i - 26)).map_err(es)?), "factory/SimdLz77".to_string()),
        30 => (Box::new(SimdLz77Compressor::default()), "factory/SimdLz77".to_string()),
        31 => { let mut a = AdaptiveCompressor::default_with_requirements(req.clone()).map_err(es)?; a.set_algorithm(Algorithm::Zstd(3)).map_err(es)?; (Box::new(a), "adaptive".to_string()) }
        32 => { let a = CompressorFactory::select_best(req, probe); (CompressorFactory::create(a, tr).map_err(|e| format!("select_best chose {:?}, which the factory refuses to build: {}", a, e))?, "factory/select_best".to_string()) }
        i => {
            let av = CompressorFactory::available_algorithms();
            let a = av[(i - 33 + probe.len()) % av.len()];
            (CompressorFactory::create(a, tr).map_err(|e| format!("available_algorithms lists {:?}, which the factory refuses to build: {}", a, e))?, "factory/available".to_string())
        }
    })
}

/// ops: [0,pk,n,seed] compress, decompress, keep the block; [1,j] decompress block j again; [2,pk,n,seed] estimate_ratio;
/// [3,n] is_suitable; [4] a compressor built by the factory for `algorithm()` (same training) decodes every block so far
pub fn factory_hist_case(cx: &mut Ctx, ctor: usize, tk: u64, tn: usize, tseed: u64, reqk: u64, ops: &[Op]) {
    let cj = json!({"cell": "factory_hist", "ctor": ctor, "tk": tk, "tn": tn, "tseed": tseed, "req": reqk, "ops": ops});
    // the training holds every byte value, so that an entropy coder cannot refuse a payload for a missing symbol
    let mut train = train_text(tk, tn, tseed);
    train.extend((0..=255u8).collect::<Vec<u8>>());
    let req = requirements(reqk);
    let probe = ops.iter().find(|o| opf(o, 0) == 0).map(|o| hist_payload(&train, opf(o, 1), opf(o, 2) as usize, opf(o, 3))).unwrap_or_default();
    let built = guarded(|| construct(ctor, &train, &req, &probe));
    let (c, cell) = match built {
        Err(p) => { cx.sum.eval("factory/constructors", &format!("fh {} {}", ctor, tn), true); cx.sum.fail("factory/constructors", None, cj, &format!("constructor panicked: {}", p)); return; }
        Ok(Err(e)) => {
            cx.sum.eval("factory/constructors", &format!("fh {} {}", ctor, tn), true);
            // select_best / available_algorithms naming an algorithm that cannot be built is a failure; a plain constructor may refuse
            if e.contains("which the factory refuses") { cx.sum.fail("factory/constructors", None, cj, &e); } else { cx.sum.dist("create_refused"); }
            return;
        }
        Ok(Ok(v)) => v,
    };
    cx.sum.cell_status(&cell, if cell == "adaptive" || matches!(cell.as_str(), "factory/Huffman" | "factory/Rans" | "factory/Dictionary" | "factory/Hybrid") { "M+S" } else { "S-only" });
    cx.sum.eval(&cell, &format!("fh {} {} {} {} {} {:?}", ctor, tk, tn, tseed, reqk, ops), ops.len() >= 2);
    cx.sum.dist(&format!("factory_hist_ctor={}", ctor % N_CTOR));
    let res = guarded(|| -> Option<String> {
        let mut blocks: Vec<(Vec<u8>, Vec<u8>)> = vec![];
        for (i, o) in ops.iter().enumerate() {
            match opf(o, 0) {
                0 => {
                    let x = hist_payload(&train, opf(o, 1), opf(o, 2) as usize, opf(o, 3));
                    let z = match c.compress(&x) {
                        Ok(z) => z,
                        Err(zipora::error::ZiporaError::NotSupported { .. }) => continue,
                        Err(e) => return Some(format!("op {}: compress refused: {}", i, e)),
                    };
                    match c.decompress(&z) {
                        Ok(y) if y == x => {}
                        Ok(y) => return Some(format!("op {}: decompress(compress(x)) {}", i, diff_msg(&y, &x))),
                        Err(e) => return Some(format!("op {}: decompress(compress(x)) = Err({}) for |x|={}", i, e, x.len())),
                    }
                    blocks.push((z, x));
                }
                1 => if !blocks.is_empty() {
                    let j = opf(o, 1) as usize % blocks.len();
                    match c.decompress(&blocks[j].0) {
                        Ok(y) if y == blocks[j].1 => {}
                        Ok(y) => return Some(format!("op {}: block {} decoded later {}", i, j, diff_msg(&y, &blocks[j].1))),
                        Err(e) => return Some(format!("op {}: block {} decoded later = Err({})", i, j, e)),
                    }
                }
                // (estimates are not the property's business, nor is a panic inside them; what they leave behind in the compressor is)
                2 => { let x = hist_payload(&train, opf(o, 1), opf(o, 2) as usize, opf(o, 3)); let _ = guarded(|| c.estimate_ratio(&x)); }
                3 => { let _ = guarded(|| c.is_suitable(&req, opf(o, 1) as usize)); }
                _ => {
                    let a = c.algorithm();
                    let c2 = match CompressorFactory::create(a, Some(&train)) { Ok(c2) => c2, Err(e) => return Some(format!("op {}: algorithm() = {:?}, which the factory refuses to build: {}", i, a, e)) };
                    for (j, (z, x)) in blocks.iter().enumerate() {
                        match c2.decompress(z) {
                            Ok(y) if &y == x => {}
                            Ok(y) => return Some(format!("op {}: block {} through the factory's compressor for algorithm() = {:?} {}", i, j, a, diff_msg(&y, x))),
                            Err(e) => return Some(format!("op {}: block {} through the factory's compressor for algorithm() = {:?}: Err({})", i, j, a, e)),
                        }
                    }
                }
            }
        }
        None
    });
    match res {
        Err(p) => cx.sum.fail(&cell, None, cj, &format!("panicked: {}", p)),
        Ok(Some(m)) => cx.sum.fail(&cell, None, cj, &m),
        Ok(None) => {}
    }
}

// ---------------------------------------------------------------------------------------------
// adaptive front end: both constructors, the Compressor impl, housekeeping calls, deferred decoding
// ---------------------------------------------------------------------------------------------
const SET_ALGS_B: [Algorithm; 10] = [Algorithm::None, Algorithm::Zstd(1), Algorithm::Zstd(3), Algorithm::Zstd(19), Algorithm::SimdLz77, Algorithm::Lz4,
    Algorithm::Huffman, Algorithm::Rans, Algorithm::Dictionary, Algorithm::Hybrid];
/// cfg = [learning_window, min_operations, evaluation_interval, aggressive, switch_threshold (0: 0.1, 1: -1000, 2: 0), test_sample_size]
/// ops: [0,pk,n,seed] compress + decompress, keep the block; [1,sel] set_algorithm (trained algorithms are refused: nothing may change);
/// [2,pk,n,seed] train; [3,pk,n,seed] Compressor::estimate_ratio (compresses a 1 KiB sample: an operation of its own);
/// [4] stats / profiles / current_algorithm / algorithm; [5,pk,n,seed] compress and decompress through `&dyn Compressor`;
/// [6,j] decompress an earlier block, if the algorithm has not been changed since it was written; [7,count,n] `count` round trips in a row
pub fn adaptive_hist_case(cx: &mut Ctx, ctor: u64, reqk: u64, cfg: &[u64], ops: &[Op]) {
    let cell = "adaptive";
    let cj = json!({"cell": "adaptive_hist", "ctor": ctor, "req": reqk, "cfg": {"v": cfg}, "ops": ops});
    cx.sum.eval(cell, &format!("adh {} {} {:?} {:?}", ctor, reqk, cfg, ops), ops.len() >= 2);
    let g = |i: usize| cfg.get(i).copied().unwrap_or(0);
    let res = guarded(|| -> Option<String> {
        let acfg = AdaptiveConfig { learning_window: g(0) as usize, min_operations: g(1) as usize, evaluation_interval: g(2) as usize, aggressive_learning: g(3) == 1,
            switch_threshold: match g(4) { 0 => 0.1, 1 => -1000.0, _ => 0.0 }, test_sample_size: g(5) as usize };
        let req = requirements(reqk);
        let mut a = match if ctor == 0 { AdaptiveCompressor::new(acfg, req) } else { AdaptiveCompressor::default_with_requirements(req) } { Ok(a) => a, Err(e) => return Some(format!("constructor refused: {}", e)) };
        let mut epoch = 0u64;
        let mut blocks: Vec<(Vec<u8>, Vec<u8>, u64)> = vec![];
        for (i, o) in ops.iter().enumerate() {
            let pay = || hist_payload(TEXT, opf(o, 1), opf(o, 2) as usize, opf(o, 3));
            match opf(o, 0) {
                0 | 5 => {
                    let x = pay();
                    let dynamic = opf(o, 0) == 5;
                    let z = if dynamic { let d: &dyn Compressor = &a; d.compress(&x) } else { a.compress(&x) };
                    let z = match z { Ok(z) => z, Err(zipora::error::ZiporaError::NotSupported { .. }) => continue, Err(e) => return Some(format!("op {}: compress refused: {}", i, e)) };
                    let y = if dynamic { let d: &dyn Compressor = &a; d.decompress(&z) } else { a.decompress(&z) };
                    match y {
                        Ok(y) if y == x => {}
                        Ok(y) => return Some(format!("op {}: decompress(compress(x)) {}", i, diff_msg(&y, &x))),
                        Err(e) => return Some(format!("op {}: decompress(compress(x)) = Err({})", i, e)),
                    }
                    blocks.push((z, x, epoch));
                }
                1 => {
                    let alg = SET_ALGS_B[opf(o, 1) as usize % SET_ALGS_B.len()];
                    let before = a.current_algorithm();
                    // (a refused switch - trained algorithms cannot be built without training data - must leave a compressor that still round-trips)
                    if a.set_algorithm(alg).is_ok() && alg != before { epoch += 1; }
                }
                2 => { let x = pay(); if let Err(e) = a.train(&[(x.as_slice(), "kind-a"), (TEXT, "kind-b"), (&[], "empty")]) { return Some(format!("op {}: train failed: {}", i, e)); } }
                // (what these return - or a panic inside them - is not the property's business; what they leave behind is)
                3 => { let x = pay(); let d: &dyn Compressor = &a; let _ = guarded(|| { let _ = d.estimate_ratio(&x); let _ = d.is_suitable(&requirements(reqk), x.len()); }); }
                4 => { let _ = guarded(|| { let _ = a.stats(); let _ = a.profiles(); let d: &dyn Compressor = &a; let _ = d.algorithm(); }); }
                7 => {
                    for k in 0..opf(o, 1).min(3000) {
                        let x = hist_payload(TEXT, 1, (opf(o, 2) + k % 4) as usize, k);
                        let z = match a.compress(&x) { Ok(z) => z, Err(zipora::error::ZiporaError::NotSupported { .. }) => break, Err(e) => return Some(format!("op {} (call {}): compress refused: {}", i, k, e)) };
                        match a.decompress(&z) {
                            Ok(y) if y == x => {}
                            Ok(y) => return Some(format!("op {} (call {}): decompress(compress(x)) {}", i, k, diff_msg(&y, &x))),
                            Err(e) => return Some(format!("op {} (call {}): decompress(compress(x)) = Err({})", i, k, e)),
                        }
                    }
                }
                _ => if !blocks.is_empty() {
                    let j = opf(o, 1) as usize % blocks.len();
                    if blocks[j].2 != epoch { continue; }
                    match a.decompress(&blocks[j].0) {
                        Ok(y) if y == blocks[j].1 => {}
                        Ok(y) => return Some(format!("op {}: block {} decoded later {}", i, j, diff_msg(&y, &blocks[j].1))),
                        Err(e) => return Some(format!("op {}: block {} decoded later = Err({})", i, j, e)),
                    }
                }
            }
        }
        None
    });
    match res {
        Err(p) => cx.sum.fail(cell, None, cj, &format!("panicked: {}", p)),
        Ok(Some(m)) => cx.sum.fail(cell, None, cj, &m),
        Ok(None) => {}
    }
}

// ---------------------------------------------------------------------------------------------
// real-time front end: three constructors, every configuration field, housekeeping, concurrency, long runs
// ---------------------------------------------------------------------------------------------
/// conf = [ctor (0 new, 1 with_mode, 2 builder), mode, fallback, max_concurrent (0 = default), enable_deadlines, batch_size]
/// ops: [0,dl,pk,n,seed] compress (dl 0: mode's deadline, 1: deadline already passed, 2: an hour); [1,mode] set_mode;
/// [2,k,pk,n,seed] compress_batch of k items; [3] stats / can_meet_deadline; [4,j] decompress an earlier block if the
/// algorithm has not changed since; [5,pk,n,seed] two compress calls in flight at once; [6,count,n] `count` small calls in a row
pub fn realtime_hist_case(cx: &mut Ctx, conf: &[u64], ops: &[Op]) {
    let g = |i: usize| conf.get(i).copied().unwrap_or(0);
    let mode = g(1) as usize % 4;
    let fallback = g(2) == 1;
    let cell = format!("realtime/{}", MODES[mode].1);
    let cj = json!({"cell": "realtime_hist", "conf": {"v": conf}, "ops": ops});
    cx.sum.eval(&cell, &format!("rth {:?} {:?}", conf, ops), ops.len() >= 2);
    cx.sum.dist(&format!("realtime_hist_ctor={}", g(0) % 3));
    let most = std::cell::Cell::new(0u64);
    let res = guarded(|| {
        let rt = tokio::runtime::Builder::new_current_thread().enable_all().build().unwrap();
        rt.block_on(async {
            let conc = if g(3) == 0 { RealtimeConfig::default().max_concurrent } else { g(3) as usize };
            // with_mode has no parameter for the fallback flag: it is the default's
            let fallback = if g(0) % 3 == 1 { RealtimeConfig::default().fallback_on_timeout } else { fallback };
            let c = match g(0) % 3 {
                0 => RealtimeCompressor::new(RealtimeConfig { mode: MODES[mode].0, fallback_on_timeout: fallback, max_concurrent: conc, enable_deadlines: g(4) == 1, batch_size: g(5) as usize, batch_timeout: Duration::from_micros(g(5)) }),
                1 => RealtimeCompressor::with_mode(MODES[mode].0),
                _ => RealtimeCompressorBuilder::new().mode(MODES[mode].0).max_concurrent(conc).enable_deadlines(g(4) == 1).fallback_on_timeout(fallback).batch_size(g(5) as usize).build(),
            };
            let c = match c { Ok(c) => c, Err(e) => return Some(format!("constructor refused: {}", e)) };
            let mut cur_alg = MODES[mode].0.preferred_algorithm();
            let mut epoch = 0u64;
            let mut blocks: Vec<(Vec<u8>, Vec<u8>, u64)> = vec![];
            let mut n_ops = 0u64;
            for (i, o) in ops.iter().enumerate() {
                match opf(o, 0) {
                    0 | 6 => {
                        let (count, dl) = if opf(o, 0) == 6 { (opf(o, 1).min(2500), 0) } else { (1, opf(o, 1)) };
                        for k in 0..count {
                            let x = if opf(o, 0) == 6 { hist_payload(TEXT, 1, (opf(o, 2) + k % 3) as usize, k) } else { hist_payload(TEXT, opf(o, 2), opf(o, 3) as usize, opf(o, 4)) };
                            let z = match dl {
                                0 => c.compress(&x).await,
                                1 => c.compress_with_deadline(&x, Instant::now()).await,
                                _ => c.compress_with_deadline(&x, Instant::now() + Duration::from_secs(3600)).await,
                            };
                            n_ops += 1;
                            let z = match z {
                                Ok(z) => z,
                                Err(_) if !fallback && dl != 2 => continue,
                                Err(zipora::error::ZiporaError::NotSupported { .. }) => continue,
                                Err(e) => return Some(format!("op {} (call {}): compress refused: {}", i, k, e)),
                            };
                            match c.decompress(&z).await {
                                Ok(y) if y == x => {}
                                Ok(y) => return Some(format!("op {} (call {}, {} calls so far): decompress(compress(x)) {}", i, k, n_ops, diff_msg(&y, &x))),
                                Err(e) => return Some(format!("op {} (call {}, {} calls so far): decompress(compress(x)) = Err({})", i, k, n_ops, e)),
                            }
                            if k == 0 { blocks.push((z, x, epoch)); }
                        }
                    }
                    1 => {
                        let m = MODES[opf(o, 1) as usize % 4].0;
                        if c.set_mode(m).is_ok() && m.preferred_algorithm() != cur_alg { cur_alg = m.preferred_algorithm(); epoch += 1; }
                    }
                    2 => {
                        let k = opf(o, 1).min(64) as usize;
                        let items: Vec<Vec<u8>> = (0..k).map(|j| hist_payload(TEXT, opf(o, 2), opf(o, 3) as usize + j % 5, opf(o, 4) + j as u64)).collect();
                        let refs: Vec<&[u8]> = items.iter().map(|v| v.as_slice()).collect();
                        n_ops += k as u64;
                        match c.compress_batch(refs).await {
                            Err(zipora::error::ZiporaError::NotSupported { .. }) => {}
                            Err(_) if !fallback => {}
                            Err(e) => return Some(format!("op {}: compress_batch of {} items refused: {}", i, k, e)),
                            Ok(zs) => {
                                if zs.len() > k { return Some(format!("op {}: compress_batch returned {} blocks for {} items", i, zs.len(), k)); }
                                for (j, z) in zs.iter().enumerate() {
                                    match c.decompress(z).await {
                                        Ok(y) if y == items[j] => {}
                                        Ok(y) => return Some(format!("op {}: batch block {} of {} {}", i, j, zs.len(), diff_msg(&y, &items[j]))),
                                        Err(e) => return Some(format!("op {}: batch block {} of {}: decompress = Err({})", i, j, zs.len(), e)),
                                    }
                                }
                            }
                        }
                    }
                    3 => { let _ = guarded(|| { let s = c.stats(); let _ = s.deadline_success_rate(); let _ = c.can_meet_deadline(1 << 20, Duration::from_millis(1)); }); }
                    4 => if !blocks.is_empty() {
                        let j = opf(o, 1) as usize % blocks.len();
                        if blocks[j].2 != epoch { continue; }
                        match c.decompress(&blocks[j].0).await {
                            Ok(y) if y == blocks[j].1 => {}
                            Ok(y) => return Some(format!("op {}: block {} decoded later {}", i, j, diff_msg(&y, &blocks[j].1))),
                            Err(e) => return Some(format!("op {}: block {} decoded later = Err({})", i, j, e)),
                        }
                    }
                    _ => {
                        let xa = hist_payload(TEXT, opf(o, 1), opf(o, 2) as usize, opf(o, 3));
                        let xb = hist_payload(TEXT, 2, opf(o, 2) as usize + 7, opf(o, 3) + 1);
                        let far = Instant::now() + Duration::from_secs(3600);
                        let (za, zb, zc) = tokio::join!(c.compress_with_deadline(&xa, far), c.compress_with_deadline(&xb, far), c.compress(&xa));
                        n_ops += 3;
                        for (k, (z, x)) in [(za, &xa), (zb, &xb), (zc, &xa)].into_iter().enumerate() {
                            let z = match z {
                                Ok(z) => z,
                                Err(zipora::error::ZiporaError::NotSupported { .. }) => continue,
                                Err(_) if !fallback && k == 2 => continue,
                                Err(e) => return Some(format!("op {}: concurrent compress {} refused: {}", i, k, e)),
                            };
                            match c.decompress(&z).await {
                                Ok(y) if &y == x => {}
                                Ok(y) => return Some(format!("op {}: concurrent compress {}: decompress(compress(x)) {}", i, k, diff_msg(&y, x))),
                                Err(e) => return Some(format!("op {}: concurrent compress {}: decompress(compress(x)) = Err({})", i, k, e)),
                            }
                        }
                    }
                }
            }
            most.set(n_ops);
            None
        })
    });
    cx.sum.dist_max("realtime_hist_most_calls_on_one_instance", most.get());
    match res {
        Err(p) => cx.sum.fail(&cell, None, cj, &format!("panicked: {}", p)),
        Ok(Some(m)) => cx.sum.fail(&cell, None, cj, &m),
        Ok(None) => {}
    }
}

// ---------------------------------------------------------------------------------------------
// PA-Zip bit codec: raw bit fields, flushes and matches in one stream; the validating constructors
// ---------------------------------------------------------------------------------------------
fn via_constructor(m: &M3) -> Option<std::result::Result<Match, String>> {
    let (k, a, b) = *m;
    let es = |e: zipora::error::ZiporaError| e.to_string();
    Some(match k {
        0 => Match::literal(u8::try_from(b).ok()?).map_err(es),
        1 => Match::global(u32::try_from(a).ok()?, u16::try_from(b).ok()?).map_err(es),
        2 => Match::rle(u8::try_from(a).ok()?, u8::try_from(b).ok()?).map_err(es),
        3 => Match::near_short(u8::try_from(a).ok()?, u8::try_from(b).ok()?).map_err(es),
        4 => Match::far1_short(u16::try_from(a).ok()?, u8::try_from(b).ok()?).map_err(es),
        5 => Match::far2_short(u32::try_from(a).ok()?, u8::try_from(b).ok()?).map_err(es),
        6 => Match::far2_long(u16::try_from(a).ok()?, u16::try_from(b).ok()?).map_err(es),
        _ => Match::far3_long(u32::try_from(a).ok()?, u32::try_from(b).ok()?).map_err(es),
    })
}
/// ops: [0, value, bits] write_bits; [1] flush (pads to a byte boundary); [2, kind, a, b] encode_match of a match built by
/// its validating constructor.  The stream is read back field by field; the shadow is the list of bits.
pub fn bitstream_case(cx: &mut Ctx, ops: &[Op]) {
    let cell = "pazip/bitcodec/bitstream";
    cx.sum.cell_status(cell, "S-only");
    let cj = json!({"cell": cell, "ops": ops});
    cx.sum.eval(cell, &format!("bs {:?}", ops), ops.len() >= 2);
    let res = guarded(|| -> Option<String> {
        let mut w = BitWriter::new();
        let mut shadow: Vec<bool> = vec![];
        // what the reader has to find: (0, value, bits) | (1, pad bits) | (2, match)
        let mut want: Vec<(u8, u64, u8, Option<Match>)> = vec![];
        for (i, o) in ops.iter().enumerate() {
            match opf(o, 0) {
                0 => {
                    let (v, bits) = (opf(o, 1) as u32, opf(o, 2) as u8);
                    let r = w.write_bits(v, bits);
                    if bits > 32 {
                        if r.is_ok() { return Some(format!("op {}: write_bits accepted {} bits", i, bits)); }
                    } else {
                        if let Err(e) = r { return Some(format!("op {}: write_bits({}, {}) refused: {}", i, v, bits, e)); }
                        for k in 0..bits { shadow.push((v >> k) & 1 == 1); }
                        want.push((0, if bits == 32 { v as u64 } else { (v as u64) & ((1u64 << bits) - 1) }, bits, None));
                    }
                }
                1 => { w.flush(); let pad = (8 - shadow.len() % 8) % 8; for _ in 0..pad { shadow.push(false); } want.push((1, 0, pad as u8, None)); }
                _ => {
                    let m3: M3 = (opf(o, 1) as u8 % 8, opf(o, 2), opf(o, 3));
                    let built = match via_constructor(&m3) { Some(b) => b, None => continue };
                    match built {
                        Err(_) => if is_valid(&m3) { return Some(format!("op {}: the constructor refuses the valid match {:?}", i, m3)); },
                        Ok(m) => {
                            if !is_valid(&m3) { return Some(format!("op {}: the constructor accepts the invalid match {:?}", i, m3)); }
                            if from_match(&m) != m3 || Some(&m) != to_match(&m3).as_ref() { return Some(format!("op {}: the constructor built {:?} for {:?}", i, m, m3)); }
                            // (compression_type / length / distance are what validate and encode_match read)
                            let want_d = match m3.0 { 0 | 1 => 0, 2 => 1, _ => m3.1 };
                            if m.length() as u64 != m3.2 || m.distance() as u64 != want_d || m.compression_type() as u8 != m3.0 || CompressionType::from_u8(m3.0).ok() != Some(m.compression_type()) { return Some(format!("op {}: accessors of {:?} disagree with its fields", i, m)); }
                            if m.validate().is_err() || m.clone() != m { return Some(format!("op {}: validate / clone of the constructed {:?}", i, m)); }
                            if m3.0 == 7 && m3.2 > VL_MAX_LEN { continue; }
                            let before = w.bits_written();
                            match encode_match(&m, &mut w) {
                                Err(e) => return Some(format!("op {}: encode_match refused the valid match {:?}: {}", i, m3, e)),
                                Ok(n) => {
                                    if w.bits_written() - before != n { return Some(format!("op {}: encode_match returned {} bits, bits_written moved by {}", i, n, w.bits_written() - before)); }
                                    for _ in 0..n { shadow.push(false); }
                                    want.push((2, n as u64, 0, Some(m)));
                                }
                            }
                        }
                    }
                }
            }
            if w.bits_written() != shadow.len() { return Some(format!("op {}: bits_written = {}, {} bits were written", i, w.bits_written(), shadow.len())); }
            if w.buffer().len() != shadow.len() / 8 { return Some(format!("op {}: buffer() holds {} bytes for {} bits", i, w.buffer().len(), shadow.len())); }
        }
        let partial = w.buffer().to_vec();
        let buf = w.finish();
        if buf.len() != (shadow.len() + 7) / 8 || buf[..partial.len()] != partial[..] { return Some(format!("finish() returns {} bytes for {} bits (buffer() held {})", buf.len(), shadow.len(), partial.len())); }
        let mut rd = BitReader::new(&buf);
        let mut pos = 0usize;
        for (i, (kind, v, bits, m)) in want.iter().enumerate() {
            if rd.bit_position() != pos { return Some(format!("field {}: bit_position = {}, {} bits were read", i, rd.bit_position(), pos)); }
            match kind {
                0 | 1 => {
                    if !rd.has_bits(*bits) { return Some(format!("field {}: has_bits({}) is false with the field still unread", i, bits)); }
                    match rd.read_bits(*bits) {
                        Ok(got) if got as u64 == *v => {}
                        Ok(got) => return Some(format!("field {}: read_bits({}) = {}, written {}", i, bits, got, v)),
                        Err(e) => return Some(format!("field {}: read_bits({}) = Err({})", i, bits, e)),
                    }
                    pos += *bits as usize;
                }
                _ => match decode_match(&mut rd) {
                    Ok((got, n)) if Some(&got) == m.as_ref() && n as u64 == *v => pos += n,
                    Ok((got, n)) => return Some(format!("field {}: decode_match = ({:?}, {} bits), written ({:?}, {} bits)", i, got, n, m, v)),
                    Err(e) => return Some(format!("field {}: decode_match = Err({}) for {:?}", i, e, m)),
                },
            }
        }
        if rd.read_bits(33).is_ok() { return Some("read_bits accepted 33 bits".to_string()); }
        let left = buf.len() * 8 - pos;
        if left < 255 && rd.has_bits(left as u8 + 1) { return Some(format!("has_bits({}) with {} bits left", left + 1, left)); }
        None
    });
    match res {
        Err(p) => cx.sum.fail(cell, None, cj, &format!("panicked: {}", p)),
        Ok(Some(m)) => cx.sum.fail(cell, None, cj, &m),
        Ok(None) => {}
    }
}

// ---------------------------------------------------------------------------------------------
// SIMD LZ77: every way to reach the inherent compress / decompress (all inside the recorded finding for non-empty payloads)
// ---------------------------------------------------------------------------------------------
pub const N_SIMDV: usize = 12;
pub enum SimdAny { Base(SimdLz77Compressor), X1(SimdLz77CompressorX1), X2(SimdLz77CompressorX2), X4(SimdLz77CompressorX4), X8(SimdLz77CompressorX8), Global, GlobalDirect, Dict(SimdLz77Compressor), Reset(SimdLz77Compressor) }
pub fn simd_variant(v: usize) -> Option<SimdAny> {
    Some(match v % N_SIMDV {
        0 => SimdAny::Base(SimdLz77Compressor::new().ok()?),
        k @ 1..=3 => SimdAny::Base(SimdLz77Compressor::with_config(simd_config(k)).ok()?),
        4 => {
            let text = std::sync::Arc::new(TEXT.to_vec());
            let sa = std::sync::Arc::new(SuffixArrayDictionary::new(TEXT, SuffixArrayDictionaryConfig::default()).ok()?);
            SimdAny::Dict(SimdLz77Compressor::with_config(SimdLz77Config::with_dictionary(sa, text)).ok()?)
        }
        5 => SimdAny::X1(SimdLz77CompressorX1::new().ok()?),
        6 => SimdAny::X2(SimdLz77CompressorX2::new().ok()?),
        7 => SimdAny::X4(SimdLz77CompressorX4::new().ok()?),
        8 => SimdAny::X8(SimdLz77CompressorX8::new().ok()?),
        9 => SimdAny::Global,
        10 => SimdAny::GlobalDirect,
        _ => SimdAny::Reset(SimdLz77Compressor::default()),
    })
}
impl SimdAny {
    pub fn compress(&mut self, x: &[u8]) -> zipora::error::Result<Vec<u8>> {
        match self {
            SimdAny::Base(c) => SimdLz77Compressor::compress(c, x),
            SimdAny::Dict(c) => { if !c.has_dictionary() { return Err(zipora::error::ZiporaError::invalid_data("with_dictionary lost the dictionary")); } c.compress_with_dictionary(x) }
            SimdAny::Reset(c) => { c.reset_stats(); SimdLz77Compressor::compress(c, x) }
            SimdAny::X1(c) => c.compress(x), SimdAny::X2(c) => c.compress(x), SimdAny::X4(c) => c.compress(x), SimdAny::X8(c) => c.compress(x),
            SimdAny::Global => compress_with_simd_lz77(x),
            SimdAny::GlobalDirect => { let mut g = get_global_simd_lz77_compressor().lock().map_err(|_| zipora::error::ZiporaError::invalid_data("global instance poisoned"))?; SimdLz77Compressor::compress(&mut g, x) }
        }
    }
    pub fn decompress(&mut self, z: &[u8]) -> zipora::error::Result<Vec<u8>> {
        match self {
            SimdAny::Base(c) | SimdAny::Dict(c) => SimdLz77Compressor::decompress(c, z),
            SimdAny::Reset(c) => { let r = SimdLz77Compressor::decompress(c, z); c.reset_stats(); r }
            SimdAny::X1(c) => c.decompress(z), SimdAny::X2(c) => c.decompress(z), SimdAny::X4(c) => c.decompress(z), SimdAny::X8(c) => c.decompress(z),
            SimdAny::Global => decompress_with_simd_lz77(z),
            SimdAny::GlobalDirect => { let mut g = get_global_simd_lz77_compressor().lock().map_err(|_| zipora::error::ZiporaError::invalid_data("global instance poisoned"))?; SimdLz77Compressor::decompress(&mut g, z) }
        }
    }
}
/// payloads [pk, n, seed] one after the other through one instance of the variant
pub fn simd_variant_case(cx: &mut Ctx, v: usize, payloads: &[Op]) {
    let cell = "simd_lz77/inherent";
    let cj = json!({"cell": "simd_variant", "variant": v, "payloads": payloads});
    cx.sum.eval(cell, &format!("sv {} {:?}", v, payloads), payloads.len() >= 1);
    cx.sum.dist(&format!("simd_variant={}", v % N_SIMDV));
    let xs: Vec<Vec<u8>> = payloads.iter().map(|p| hist_payload(TEXT, opf(p, 0), opf(p, 1) as usize, opf(p, 2))).collect();
    let class = if xs.iter().any(|x| !x.is_empty()) { Some("simd_lz77_literals_not_stored") } else { None };
    let r = guarded(|| -> std::result::Result<(), String> {
        let mut c = simd_variant(v).ok_or("setup")?;
        for (i, x) in xs.iter().enumerate() {
            let z = c.compress(x).map_err(|e| format!("payload {}: compress refused: {}", i, e))?;
            let y = c.decompress(&z).map_err(|e| format!("payload {}: decompress(compress(x)) = Err({})", i, e))?;
            if &y != x { return Err(format!("payload {}: decompress(compress(x)) {}", i, diff_msg(&y, x))); }
        }
        Ok(())
    });
    match r {
        Err(p) => cx.sum.fail(cell, class, cj, &format!("panicked: {}", p)),
        Ok(Err(m)) if m == "setup" => cx.sum.dist("simd_variant_setup_refused"),
        Ok(Err(m)) => cx.sum.fail(cell, class, cj, &m),
        Ok(Ok(())) => if class.is_some() { cx.sum.dist("known_class_but_passed") },
    }
}

// ---------------------------------------------------------------------------------------------
// generators
// ---------------------------------------------------------------------------------------------
fn rand_pz_ops(r: &mut Rng, n: usize, max_len: u64) -> Vec<Op> {
    (0..n).map(|_| match r.below(14) {
        0..=4 => vec![0, *r.pick(&[0u64, 0, 1, 2, 3, 3, 4, 5, 6, 7, 8]), r.range(0, max_len), r.below(1000)],
        5 | 6 => vec![1, *r.pick(&[0u64, 1, 3, 4, 7]), r.range(0, max_len), r.below(1000)],
        7 => vec![2, r.below(8)],
        8 => vec![3, r.below(8)],
        9 => vec![4],
        10 => vec![5],
        11 | 12 => vec![6],
        _ => vec![7],
    }).collect()
}

pub fn run_breadth(cx: &mut Ctx, th: bool) {
    let t0 = Instant::now();
    let lap = |what: &str| { if std::env::var("ZV_C02_TIMING").is_ok() { eprintln!("[c02 breadth] {:>8.2}s  {}", t0.elapsed().as_secs_f64(), what); } };
    // ---- PA-Zip ----
    // every configuration variant and every dictionary variant at least once, in a fixed history that mixes all operation kinds
    let fixed: Vec<Op> = vec![vec![0, 0, 120, 1], vec![1, 3, 90, 2], vec![0, 4, 0, 0], vec![3, 0], vec![4], vec![1, 1, 200, 3], vec![6], vec![5], vec![0, 0, 300, 4], vec![3, 2], vec![7], vec![0, 3, 64, 5], vec![2, 1],
        vec![1, 7, 40, 0], vec![0, 8, 33, 0], vec![0, 7, 1, 0], vec![3, 5]];
    for cfgv in 0..N_CFGV { pazip_hist_case(cx, cfgv, 2, cfgv as u64 % 6, 1500, cfgv as u64, &fixed); }
    lap("cfg variants");
    for dictv in 0..N_DICTV {
        // (the sampling variants only sample above 10000 bytes of training)
        let tn = if matches!(dictv, 6..=9 | 20) { 12_000 } else { 1500 };
        pazip_hist_case(cx, [0usize, 2, 4, 9][dictv % 4], dictv, dictv as u64 % 6, tn, 40 + dictv as u64, &fixed);
        let q: Vec<Op> = (0..12u64).map(|k| vec![[0u64, 3, 1, 6][k as usize % 4], 20 + 37 * k, k, 5 * k]).collect();
        dict_match_case(cx, dictv, dictv as u64 % 6, tn, 40 + dictv as u64, &q);
    }
    lap("dict variants");
    for _ in 0..(if th { 900 } else { 150 }) {
        let mut r = cx.rng.clone();
        let n = r.range(2, 10) as usize;
        let ops = rand_pz_ops(&mut r, n, 400);
        let (cfgv, dictv) = (r.below(N_CFGV as u64) as usize, r.below(N_DICTV as u64) as usize);
        let (tk, tn, ts) = (r.below(7), *r.pick(&[0usize, 1, 4, 8, 130, 130, 600, 600, 2500, 2500]), r.below(1000));
        cx.rng = r;
        pazip_hist_case(cx, cfgv, dictv, tk, tn, ts, &ops);
    }
    lap("random pazip histories");
    for _ in 0..(if th { 300 } else { 40 }) {
        let mut r = cx.rng.clone();
        let q: Vec<Op> = (0..r.range(2, 12)).map(|_| vec![*r.pick(&[0u64, 0, 3, 1, 6, 2]), r.range(1, 300), r.below(1000), r.below(300)]).collect();
        let (dictv, tk, tn, ts) = (r.below(N_DICTV as u64) as usize, r.below(7), *r.pick(&[8usize, 130, 600, 2500]), r.below(1000));
        cx.rng = r;
        dict_match_case(cx, dictv, tk, tn, ts, &q);
    }
    lap("random dict matches");
    // payload sizes around the multithreading threshold (64 KiB) of the configuration, in front of and behind small payloads
    for (k, &n) in [65535u64, 65536, 65537].iter().enumerate() {
        let ops: Vec<Op> = vec![vec![0, 0, 50, 1], vec![k as u64 % 2, 1, n, 7 + k as u64], vec![0, 3, 80, 2], vec![3, 1], vec![6], vec![2, 0]];
        pazip_hist_case(cx, [0usize, 4, 7][k], 2, 0, 900, 3, &ops);
        if th { pazip_hist_case(cx, [8usize, 15, 2][k], 0, 5, 3000, 3, &ops); }
    }
    lap("64 KiB payloads");
    // one payload beyond 1 MiB (block-wise path) between small ones, into a reused output vector; then the small blocks again
    {
        let ops: Vec<Op> = vec![vec![1, 0, 70, 1], vec![1, 1, (1 << 20) + 70_000, 11], vec![1, 3, 90, 2], vec![3, 0], vec![6], vec![0, 4, 0, 0], vec![3, 1]];
        pazip_hist_case(cx, 0, 2, 0, 700, 5, &ops);
        if th { pazip_hist_case(cx, 2, 2, 3, 5000, 6, &ops); pazip_hist_case(cx, 7, 16, 1, 5000, 7, &ops); }
    }
    lap("1 MiB history");
    // dictionary texts at the sizes where the suffix-array builder changes its algorithm (10 000: adaptive selection; 50 000: DivSufSort;
    // 100 000: parallel construction), per kind of text (alphabet of 2 / 4, repetitive, words, random bytes); payloads cut from them
    for (k, &tn) in [9_999usize, 10_000, 10_001, 50_001, 100_000, 100_001].iter().enumerate() {
        for tk in [1u64, 2, 3, 4, 6] {
            // (words and ACGT texts cost seconds to index from 50 000 bytes on: quick tier keeps them near 10 000 and one at 50 001)
            if !th && matches!(tk, 1 | 2) && !(tn <= 10_001 && (k as u64 + tk) % 2 == 0) && !(tn == 50_001 && tk == 1) { continue; }
            let ops: Vec<Op> = vec![vec![0, 0, 300, 1], vec![0, 3, 700, 2], vec![1, 6, 90, 3], vec![3, 0]];
            pazip_hist_case(cx, [0usize, 4][k % 2], 2, tk, tn, 9 + k as u64, &ops);
            let q: Vec<Op> = (0..6u64).map(|j| vec![[0u64, 3, 6][j as usize % 3], 40 + 50 * j, j, 7 * j]).collect();
            dict_match_case(cx, 2, tk, tn, 9 + k as u64, &q);
        }
    }
    lap("dictionary sizes");
    // the sampling threshold of the dictionary (sample_ratio < 1 applies above 10 000 bytes of training): the dictionary text is then not the training
    for (k, &tn) in [10_000usize, 10_001, 10_002].iter().enumerate() {
        let ops: Vec<Op> = vec![vec![0, 0, 200, 1], vec![0, 7, 60, 2], vec![1, 8, 60, 3], vec![3, 0], vec![7], vec![2, 1]];
        pazip_hist_case(cx, 0, [20usize, 6, 8][k], [0u64, 1, 3][k], tn, 5 + k as u64, &ops);
        pazip_hist_case(cx, 4, 20, [3u64, 0, 1][k], tn, 8 + k as u64, &ops);
    }
    lap("sampling threshold");
    // payloads that are one long stretch of the dictionary: global matches as long as the 16-bit length field allows
    for (k, &n) in [255u64, 256, 257, 65_535, 65_536, 65_537].iter().enumerate() {
        // (65 536 is one more than the length field holds: the match is not a candidate, a literal is written and the rest, 65 535 bytes, is)
        if !th && n > 1000 && n != 65_536 { continue; }
        let ops: Vec<Op> = vec![vec![0, 0, n, 3 + k as u64], vec![1, 0, 40, 1], vec![3, 0]];
        pazip_hist_case(cx, [0usize, 9, 2][k % 3], 2, 1, if n > 1000 { 67_000 } else { 3000 }, 21, &ops);
    }

    lap("long global matches");
    // ---- compressor layer ----
    for ctor in 0..N_CTOR {
        let ops: Vec<Op> = vec![vec![0, 0, 200, 1], vec![2, 1, 1500, 2], vec![0, 1, 1100, 3], vec![3, 4096], vec![0, 4, 0, 0], vec![1, 0], vec![0, 5, 70, 4], vec![0, 2, 33, 5], vec![4], vec![1, 2]];
        // (the dictionary coder behind Dictionary / Hybrid needs its time on long runs: small payloads for those)
        factory_hist_case(cx, ctor, ctor as u64 % 5, 700, ctor as u64, ctor as u64, &ops);
    }
    for _ in 0..(if th { 800 } else { 120 }) {
        let mut r = cx.rng.clone();
        let n = r.range(2, 9) as usize;
        let ops: Vec<Op> = (0..n).map(|_| match r.below(10) {
            0..=4 => vec![0, r.below(7), *r.pick(&[0u64, 1, 2, 63, 64, 65, 300, 1023, 1024, 1025, 1400]), r.below(1000)],
            5 => vec![1, r.below(8)],
            6 => vec![2, r.below(7), *r.pick(&[0u64, 10, 1024, 1025, 3000]), r.below(1000)],
            7 => vec![3, r.below(1 << 30)],
            _ => vec![4],
        }).collect();
        let (ctor, tk, tn, ts, rq) = (r.below(N_CTOR as u64) as usize, r.below(7), *r.pick(&[1usize, 40, 700]), r.below(1000), r.below(6));
        cx.rng = r;
        factory_hist_case(cx, ctor, tk, tn, ts, rq, &ops);
    }

    lap("factory histories");
    // ---- adaptive ----
    for k in 0..(if th { 500 } else { 80 }) {
        let mut r = cx.rng.clone();
        let n = if k % 6 == 0 { r.range(30, 70) } else { r.range(2, 12) } as usize;
        let ops: Vec<Op> = (0..n).map(|_| match r.below(12) {
            0..=3 => vec![0, r.below(7), *r.pick(&[0u64, 1, 9, 10, 11, 64, 300, 1025]), r.below(1000)],
            4 => vec![1, r.below(10)],
            5 => vec![2, r.below(7), r.range(0, 200), r.below(1000)],
            6 => vec![3, r.below(7), *r.pick(&[0u64, 1024, 1025, 2000]), r.below(1000)],
            7 => vec![4],
            8 | 9 => vec![5, r.below(7), r.range(0, 300), r.below(1000)],
            _ => vec![6, r.below(16)],
        }).collect();
        let mut ops = ops;
        // the initial algorithm is Lz4, which the default build lacks: usually begin with a switch to one that exists
        if r.chance(4, 5) { ops.insert(0, vec![1, r.below(5)]); }
        let cfg = vec![*r.pick(&[0u64, 1, 5, 16, 1000]), *r.pick(&[0u64, 1, 5, 50]), *r.pick(&[0u64, 1, 1, 3, 100]), r.below(2), r.below(3), *r.pick(&[0u64, 10])];
        let (ctor, rq) = (r.below(2), r.below(6));
        cx.rng = r;
        adaptive_hist_case(cx, ctor, rq, &cfg, &ops);
    }

    lap("adaptive histories");
    // more operations than the learning window holds (1000 by default) on one instance, evaluations at every 100th (default) / every operation
    for (k, cfg) in [vec![1000u64, 50, 100, 0, 0, 10], vec![1000, 50, 100, 1, 1, 10], vec![7, 1, 1, 1, 1, 0]].iter().enumerate() {
        if !th && k == 1 { continue; }
        let ops: Vec<Op> = vec![vec![1, 1], vec![0, 0, 80, 1], vec![7, 520, 20], vec![1, 0], vec![7, 530, 3], vec![4], vec![1, 2], vec![0, 1, 300, 2], vec![7, 60, 40], vec![6, 1], vec![3, 1, 2000, 5], vec![5, 3, 100, 6]];
        adaptive_hist_case(cx, if k == 0 { 1 } else { 0 }, k as u64, cfg, &ops);
    }
    lap("adaptive long runs");
    // ---- real time ----
    for k in 0..(if th { 600 } else { 100 }) {
        let mut r = cx.rng.clone();
        let n = r.range(2, 9) as usize;
        let ops: Vec<Op> = (0..n).map(|_| match r.below(13) {
            0..=3 => vec![0, r.below(3), r.below(7), *r.pick(&[0u64, 1, 63, 64, 65, 200, 1500]), r.below(1000)],
            4 => vec![1, r.below(4)],
            5 | 6 => vec![2, *r.pick(&[0u64, 1, 2, 9, 10, 11, 40]), r.below(7), *r.pick(&[0u64, 1, 62, 64, 300]), r.below(1000)],
            7 => vec![3],
            8 | 9 => vec![4, r.below(16)],
            10 => vec![5, r.below(7), r.range(0, 300), r.below(1000)],
            _ => vec![6, *r.pick(&[19u64, 20, 21, 30]), *r.pick(&[0u64, 10, 62, 70])],
        }).collect();
        let conf = vec![k as u64 % 3, r.below(4), (!r.chance(1, 4)) as u64, *r.pick(&[0u64, 1, 1, 2, 8]), r.below(2), *r.pick(&[0u64, 1, 10])];
        cx.rng = r;
        realtime_hist_case(cx, &conf, &ops);
    }
    lap("realtime histories");
    // more than 2000 calls on one instance: the latency window of the statistics is cut in half at 1001 samples, inside compress
    for mode in 0..4u64 {
        if !th && mode % 2 == 1 { continue; }
        // (1001, 1501 and 2001 samples: the window is cut three times; more than twice the window in all)
        let ops: Vec<Op> = vec![vec![0, 2, 0, 100, 1], vec![6, 995, 30], vec![3], vec![6, 12, 70], vec![4, 0], vec![2, 9, 0, 60, 2], vec![6, 1100, 5], vec![4, 0], vec![0, 1, 3, 64, 9], vec![6, 40, 64], vec![4, 1]];
        realtime_hist_case(cx, &[mode % 3, mode, 1, 1, 1, 10], &ops);
    }

    lap("realtime long runs");
    // ---- bit codec ----
    for k in 0..(if th { 3000 } else { 400 }) {
        let mut r = cx.rng.clone();
        let n = r.range(1, 14) as usize;
        let ops: Vec<Op> = (0..n).map(|_| match r.below(8) {
            0..=2 => { let bits = *r.pick(&[0u64, 1, 2, 3, 5, 7, 8, 9, 15, 16, 17, 24, 30, 31, 32, 32, 33, 40]); vec![0, if r.chance(1, 3) { u32::MAX as u64 } else { r.next() & 0xFFFF_FFFF }, bits] }
            3 => vec![1],
            _ => { let m = rand_match(&mut r, k % 4 != 0); vec![2, m.0 as u64, m.1, m.2] }
        }).collect();
        cx.rng = r;
        bitstream_case(cx, &ops);
    }

    lap("bitstreams");
    // ---- SIMD LZ77 entry points ----
    for v in 0..N_SIMDV {
        let mut r = cx.rng.clone();
        let ps: Vec<Op> = vec![vec![4, 0, 0], vec![r.below(7), r.range(1, 120), r.below(1000)], vec![0, r.range(30, 123), r.below(1000)]];
        cx.rng = r;
        simd_variant_case(cx, v, &ps[..1]);
        simd_variant_case(cx, v, &ps);
    }
    lap("simd variants");
}

pub fn run_one_b(cx: &mut Ctx, c: &Value) -> bool {
    let u = |k: &str| c[k].as_u64().unwrap_or(0);
    let l = |k: &str| -> Vec<u64> { c[k]["v"].as_array().map(|a| a.iter().map(|x| x.as_u64().unwrap_or(0)).collect()).unwrap_or_default() };
    match c["cell"].as_str().unwrap_or("") {
        "pazip_hist" => pazip_hist_case(cx, u("cfgv") as usize, u("dictv") as usize, u("tk"), u("tn") as usize, u("tseed"), &parse_ops(&c["ops"])),
        "dict_match" => dict_match_case(cx, u("dictv") as usize, u("tk"), u("tn") as usize, u("tseed"), &parse_ops(&c["queries"])),
        "factory_hist" => factory_hist_case(cx, u("ctor") as usize, u("tk"), u("tn") as usize, u("tseed"), u("req"), &parse_ops(&c["ops"])),
        "adaptive_hist" => adaptive_hist_case(cx, u("ctor"), u("req"), &l("cfg"), &parse_ops(&c["ops"])),
        "realtime_hist" => realtime_hist_case(cx, &l("conf"), &parse_ops(&c["ops"])),
        "pazip/bitcodec/bitstream" => bitstream_case(cx, &parse_ops(&c["ops"])),
        "simd_variant" => simd_variant_case(cx, u("variant") as usize, &parse_ops(&c["payloads"])),
        _ => return false,
    }
    true
}
