//! C20: string views, numeric comparators, iterators, join/split.
//! M+S cells (Coq mechanism model + theorems, cases evaluated in Coq): decimal_strcmp, realnum_strcmp, join (all entry
//! points), split (LineSplitter both strategies, FastStr::split), words (+ the word-boundary helpers), LineProcessor
//! (default configuration and every skip_empty / trim / preserve-endings configuration), ASCII case conversion,
//! SortedVecLexIterator, and since the extension (c20_x.rs): FastStr, unicode, StreamingLexIterator, ZoSortedStrVec,
//! SortableStrVec_core (storage, binary_search, the comparison kernel of the release-mode sort).
//! S-only cell (direct oracle against std): SortableStrVec (its sorting algorithms).
#[path = "c20_more.rs"]
mod more;
#[path = "c20_wide.rs"]
mod wide;
#[path = "c20_x.rs"]
mod x;
use crate::util::*;
use serde_json::{json, Value};
use std::cmp::Ordering;
use zipora::string::{
    decimal_strcmp, join, join_bytes_iter, join_fast_str, join_iter, join_str, realnum_strcmp,
    word_count, words, FastStr, JoinBuilder, LexicographicIterator, LineProcessor, LineSplitter,
    SortedVecLexIterator,
};

const HEADER: &str = r#"From ZV.Common Require Import Base Run.
From ZV.C20 Require Import Model ModelStr Cases CasesX.
Open Scope N_scope.
Definition case_t : Type := CasesX.xcase.
Definition ok (c : case_t) : bool := CasesX.xcase_ok c.
"#;

fn ord_code(o: Option<Ordering>) -> i64 {
    match o { None => 9, Some(Ordering::Less) => -1, Some(Ordering::Equal) => 0, Some(Ordering::Greater) => 1 }
}

/// Independent value oracle: Some((neg, scaled value)) with the value scaled by 10^scale.
fn parse_num(s: &[u8], allow_dot: bool, scale: u32) -> Option<i128> {
    if s.is_empty() { return None; }
    let (body, neg) = match s[0] { b'+' => (&s[1..], false), b'-' => (&s[1..], true), _ => (s, false) };
    if body.is_empty() { return None; }
    let mut dots = 0;
    for &c in body {
        if c == b'.' { dots += 1; } else if !c.is_ascii_digit() { return None; }
    }
    if dots > if allow_dot { 1 } else { 0 } { return None; }
    let mut v: i128 = 0;
    let mut frac_digits: u32 = 0;
    let mut seen_dot = false;
    for &c in body {
        if c == b'.' { seen_dot = true; continue; }
        v = v.checked_mul(10)?.checked_add((c - b'0') as i128)?;
        if seen_dot { frac_digits += 1; }
    }
    if frac_digits > scale { return None; }
    for _ in frac_digits..scale { v = v.checked_mul(10)?; }
    Some(if neg { -v } else { v })
}
fn oracle(a: &[u8], b: &[u8], real: bool) -> Option<Ordering> {
    const SCALE: u32 = 12;
    let x = parse_num(a, real, if real { SCALE } else { 0 })?;
    let y = parse_num(b, real, if real { SCALE } else { 0 })?;
    Some(x.cmp(&y))
}

struct Ctx { sum: Summary, shards: CoqShards, budget: usize, emit: bool }

fn cmp_case(cx: &mut Ctx, a: &[u8], b: &[u8], to_coq: bool) {
    // inputs are ASCII by construction (the API takes &str)
    let sa = std::str::from_utf8(a).unwrap();
    let sb = std::str::from_utf8(b).unwrap();
    for (op, name) in [(0u32, "decimal_strcmp"), (1u32, "realnum_strcmp")] {
        let r = guarded(|| if op == 0 { decimal_strcmp(sa, sb) } else { realnum_strcmp(sa, sb) });
        cx.sum.eval(name, &format!("{} {:?} {:?}", op, sa, sb), a.len() >= 2 || b.len() >= 2);
        let cj = json!({"op": op, "a": sa, "b": sb});
        match r {
            Err(p) => cx.sum.fail(name, None, cj, &format!("panicked: {}", p)),
            Ok(got) => {
                let want = oracle(a, b, op == 1);
                if got != want {
                    cx.sum.fail(name, None, cj.clone(), &format!("got {:?}, numeric order says {:?}", got, want));
                }
                if to_coq && cx.shards.len() < cx.budget {
                    let term = format!("(CCmp {} {} {} {})", op, coq_bytes(a), coq_bytes(b), coq_z(ord_code(got) as i128));
                    cx.shards.push(term, cj);
                }
            }
        }
    }
}

fn all_strings(alpha: &[u8], maxlen: usize) -> Vec<Vec<u8>> {
    let mut out: Vec<Vec<u8>> = vec![vec![]];
    let mut frontier: Vec<Vec<u8>> = vec![vec![]];
    for _ in 0..maxlen {
        let mut next = vec![];
        for s in &frontier {
            for &c in alpha {
                let mut t = s.clone();
                t.push(c);
                next.push(t);
            }
        }
        out.extend(next.iter().cloned());
        frontier = next;
    }
    out
}

fn rand_numeric(r: &mut Rng) -> Vec<u8> {
    let mut s = vec![];
    match r.below(4) { 0 => s.push(b'-'), 1 => s.push(b'+'), _ => {} }
    for _ in 0..r.below(3) { s.push(b'0'); }
    for _ in 0..r.below(9) { s.push(b'0' + r.below(10) as u8); }
    if r.chance(1, 2) {
        s.push(b'.');
        for _ in 0..r.below(6) { s.push(b'0' + r.below(10) as u8); }
        for _ in 0..r.below(3) { s.push(b'0'); }
    }
    if r.chance(1, 20) { s.push(*r.pick(&[b'a', b'.', b'-', b' ', b'e'])); }
    s
}

fn rand_bytes_biased(r: &mut Rng, maxlen: u64) -> Vec<u8> {
    let n = r.below(maxlen + 1) as usize;
    let alpha: &[u8] = match r.below(4) { 0 => b"ab", 1 => b"ab\x00\xff\x80", 2 => b"abc ,_-\n\r\t.A1", _ => b"" };
    (0..n).map(|_| if alpha.is_empty() { r.next() as u8 } else { *r.pick(alpha) }).collect()
}

fn faststr_case(cx: &mut Ctx, a: &[u8], b: &[u8]) {
    let cell = "FastStr";
    cx.sum.eval(cell, &format!("fs {:?} {:?}", a, b), !a.is_empty() && !b.is_empty());
    let cj = json!({"cell": "faststr", "a": a, "b": b});
    let r = guarded(|| {
        let fa = FastStr::new(a);
        let fb = FastStr::new(b);
        let mut bad: Vec<String> = vec![];
        if (fa == fb) != (a == b) { bad.push("eq".into()); }
        if fa.cmp(&fb) != a.cmp(b) { bad.push("Ord::cmp".into()); }
        if fa.compare(fb) != a.cmp(b) { bad.push("compare".into()); }
        if fa.starts_with(fb) != a.starts_with(b) { bad.push("starts_with".into()); }
        if fa.ends_with(fb) != a.ends_with(b) { bad.push("ends_with".into()); }
        let want_find = if b.is_empty() { Some(0) } else if b.len() > a.len() { None } else { a.windows(b.len()).position(|w| w == b) };
        if fa.find(fb) != want_find { bad.push(format!("find got {:?} want {:?}", fa.find(fb), want_find)); }
        if let Some(&c) = b.first() {
            if fa.find_byte(c) != a.iter().position(|&x| x == c) { bad.push("find_byte".into()); }
            if fa.find_byte_optimized(c) != a.iter().position(|&x| x == c) { bad.push("find_byte_optimized".into()); }
            let got: Vec<Vec<u8>> = fa.split(c).map(|p| p.as_bytes().to_vec()).collect();
            // FastStr::split stops once the remainder is empty: the std split minus one trailing empty field
            let mut want: Vec<Vec<u8>> = a.split(|&x| x == c).map(|p| p.to_vec()).collect();
            if want.last().map_or(false, |l| l.is_empty()) { want.pop(); }
            if got != want { bad.push(format!("split got {:?} want {:?}", got, want)); }
        }
        let cpl = a.iter().zip(b.iter()).take_while(|(x, y)| x == y).count();
        if fa.common_prefix_len(fb) != cpl { bad.push("common_prefix_len".into()); }
        // hashing: equal bytes hash equally at any alignment; Hash trait as well
        let mut buf = vec![0u8; a.len() + 9];
        for off in [1usize, 3, 8] {
            buf[off..off + a.len()].copy_from_slice(a);
            let fc = FastStr::new(&buf[off..off + a.len()]);
            if fc.hash_fast() != fa.hash_fast() { bad.push(format!("hash_fast differs at alignment {}", off)); }
            use std::hash::{Hash, Hasher};
            let mut h1 = std::collections::hash_map::DefaultHasher::new();
            let mut h2 = std::collections::hash_map::DefaultHasher::new();
            fc.hash(&mut h1); fa.hash(&mut h2);
            if h1.finish() != h2.finish() { bad.push("Hash differs for equal strings".into()); }
        }
        // slicing
        let n = a.len();
        for (st, ln) in [(0usize, 0usize), (0, n), (n / 2, n), (n, 0), (n / 3, n / 2), (0, usize::MAX)] {
            if st <= n {
                let end = st.saturating_add(ln).min(n);
                if fa.substring(st, ln).as_bytes() != &a[st..end] { bad.push("substring".into()); }
                if fa.substring_from(st).as_bytes() != &a[st..] { bad.push("substring_from".into()); }
            }
            let l = ln.min(n);
            if fa.prefix(ln).as_bytes() != &a[..l] { bad.push("prefix".into()); }
            if fa.suffix(ln).as_bytes() != &a[n - l..] { bad.push("suffix".into()); }
        }
        for i in [0usize, n / 2, n.saturating_sub(1), n, n + 1] {
            if fa.get_byte(i) != a.get(i).copied() { bad.push("get_byte".into()); }
        }
        if fa.len() != n || fa.is_empty() != a.is_empty() || fa.as_bytes() != a { bad.push("len/as_bytes".into()); }
        bad
    });
    match r {
        Err(p) => cx.sum.fail(cell, None, cj, &format!("panicked: {}", p)),
        Ok(bad) => if !bad.is_empty() { cx.sum.fail(cell, None, cj, &bad.join("; ")); }
    }
    x::fast_emit(cx, a, b, false);
}

fn join_case(cx: &mut Ctx, sep: &str, parts: &[String]) {
    let cell = "join";
    cx.sum.eval(cell, &format!("join {:?} {:?}", sep, parts), parts.len() >= 2);
    let cj = json!({"cell": "join", "sep": sep, "parts": parts});
    let r = guarded(|| {
        let refs: Vec<&str> = parts.iter().map(|s| s.as_str()).collect();
        let want = refs.join(sep);
        let mut bad: Vec<String> = vec![];
        let mut terms: Vec<String> = vec![];
        if join_str(sep, &refs) != want { bad.push("join_str".into()); }
        let brefs: Vec<&[u8]> = parts.iter().map(|s| s.as_bytes()).collect();
        let jout = join(sep.as_bytes(), &brefs);
        if jout != want.as_bytes() { bad.push("join".into()); }
        terms.push(format!("(CJoin {} {} {})%N", more::coq_bl(sep.as_bytes()), more::coq_bll(parts), more::coq_bl(&jout)));
        let mut jb2 = JoinBuilder::with_capacity(sep, parts.len());
        for p in &refs { jb2.push(p); }
        if jb2.len() != parts.len() || jb2.is_empty() != parts.is_empty() { bad.push("JoinBuilder::len/is_empty".into()); }
        terms.push(format!("(CJoin {} {} {})%N", more::coq_bl(sep.as_bytes()), more::coq_bll(parts), more::coq_bl(jb2.build().as_bytes())));
        let fs: Vec<FastStr> = parts.iter().map(|s| FastStr::from_string(s)).collect();
        if join_fast_str(sep, &fs) != want { bad.push("join_fast_str".into()); }
        if join_iter(sep, refs.iter().cloned()) != want { bad.push(format!("join_iter got {:?} want {:?}", join_iter(sep, refs.iter().cloned()), want)); }
        let leaked: Vec<&'static [u8]> = parts.iter().map(|s| &*Box::leak(s.as_bytes().to_vec().into_boxed_slice())).collect();
        let jiout = join_bytes_iter(sep.as_bytes(), leaked.iter().cloned());
        if jiout != want.as_bytes() { bad.push("join_bytes_iter".into()); }
        terms.push(format!("(CJoinIter {} {} {})%N", more::coq_bl(sep.as_bytes()), more::coq_bll(parts), more::coq_bl(&jiout)));
        // the length is exactly the precomputed capacity: sum of the parts + (n-1) separators
        if !parts.is_empty() && want.len() != parts.iter().map(|p| p.len()).sum::<usize>() + sep.len() * (parts.len() - 1) { bad.push("joined length".into()); }
        let mut jb = JoinBuilder::new(sep);
        for p in &refs { jb.push(p); }
        if jb.build() != want { bad.push("JoinBuilder::build".into()); }
        if jb.finish() != want { bad.push("JoinBuilder::finish".into()); }
        // split . join = id when no part contains the separator (single-byte separator)
        if sep.len() == 1 && !parts.is_empty() && parts.iter().all(|p| !p.contains(sep)) {
            let joined = want.clone();
            let got: Vec<String> = FastStr::from_string(&joined).split(sep.as_bytes()[0]).map(|p| p.into_string()).collect();
            let mut want_parts = parts.to_vec();
            if want_parts.last().map_or(false, |l| l.is_empty()) { want_parts.pop(); }
            if got != want_parts { bad.push(format!("split(join) got {:?}", got)); }
            let mut ls = LineSplitter::new();
            if ls.split(&joined, sep) != parts { bad.push("LineSplitter(simple) split(join)".into()); }
            let mut lo = LineSplitter::new().with_optimized_strategy();
            if lo.split(&joined, sep) != parts { bad.push(format!("LineSplitter(optimized) split(join) got {:?}", lo.split(&joined, sep))); }
        }
        (bad, terms)
    });
    match r {
        Err(p) => cx.sum.fail(cell, None, cj, &format!("panicked: {}", p)),
        Ok((bad, terms)) => {
            if !bad.is_empty() { cx.sum.fail(cell, None, cj.clone(), &bad.join("; ")); }
            for t in terms { more::push_coq(cx, t, cj.clone()); }
        }
    }
}

/// Splitting an arbitrary text at a single-byte delimiter: both LineSplitter strategies against the
/// straightforward definition (std split), FastStr::split against its convention (no trailing empty field, "" -> []).
fn split_case(cx: &mut Ctx, text: &str, d: u8) {
    let cell = "split";
    cx.sum.eval(cell, &format!("split {:?} {}", text, d), text.len() >= 2);
    let cj = json!({"cell": "split", "text": text, "d": d});
    if !d.is_ascii() { return; }
    let r = guarded(|| {
        let mut bad: Vec<String> = vec![];
        let mut terms: Vec<String> = vec![];
        let ds = (d as char).to_string();
        let want: Vec<String> = text.split(d as char).map(|s| s.to_string()).collect();
        let mut simple = LineSplitter::new();
        let got_s = simple.split(text, &ds).to_vec();
        if got_s != want { bad.push(format!("LineSplitter(simple) got {:?} want {:?}", got_s, want)); }
        let mut opt = LineSplitter::new().with_optimized_strategy();
        let got_o = opt.split(text, &ds).to_vec();
        if got_o != want { bad.push(format!("LineSplitter(optimized) got {:?} want {:?}", got_o, want)); }
        let mut custom = LineSplitter::new().with_delimiter(ds.clone());
        if custom.split(text, &ds) != want { bad.push("LineSplitter(custom)".into()); }
        // reuse of the same splitter must not leak fields of the previous call
        if opt.split("x", &ds) != ["x".to_string()] { bad.push("LineSplitter reuse".into()); }
        let got_f: Vec<Vec<u8>> = FastStr::from_string(text).split(d).map(|p| p.as_bytes().to_vec()).collect();
        let mut want_f: Vec<Vec<u8>> = want.iter().map(|s| s.as_bytes().to_vec()).collect();
        if want_f.last().map_or(false, |l| l.is_empty()) { want_f.pop(); }
        if got_f != want_f { bad.push(format!("FastStr::split got {:?} want {:?}", got_f, want_f)); }
        terms.push(format!("(CSplit 0 {} {} {})%N", d, more::coq_bl(text.as_bytes()), more::coq_bll(&got_o)));
        terms.push(format!("(CSplit 2 {} {} {})%N", d, more::coq_bl(text.as_bytes()), more::coq_bll(&got_s)));
        terms.push(format!("(CSplit 1 {} {} {})%N", d, more::coq_bl(text.as_bytes()), more::coq_bll(&got_f)));
        (bad, terms)
    });
    match r {
        Err(p) => cx.sum.fail(cell, None, cj, &format!("panicked: {}", p)),
        Ok((bad, terms)) => {
            if !bad.is_empty() { cx.sum.fail(cell, None, cj.clone(), &bad.join("; ")); }
            for t in terms { more::push_coq(cx, t, cj.clone()); }
        }
    }
}

fn is_word(c: u8) -> bool { c.is_ascii_alphanumeric() || c == b'_' }

fn words_case(cx: &mut Ctx, text: &[u8]) {
    let cell = "words";
    cx.sum.eval(cell, &format!("words {:?}", text), text.len() >= 3);
    let cj = json!({"cell": "words", "text": text});
    let r = guarded(|| {
        let want: Vec<&[u8]> = text.split(|&c| !is_word(c)).filter(|w| !w.is_empty()).collect();
        let got: Vec<&[u8]> = words(text).collect();
        let mut bad: Vec<String> = vec![];
        if got != want { bad.push(format!("words got {:?} want {:?}", got, want)); }
        let wc = word_count(text);
        if wc != want.len() { bad.push("word_count".into()); }
        // boundaries: 0 and len always; inside exactly where word-ness changes; every word is found again by word_at_position
        let wb = zipora::string::find_word_boundaries(text);
        let mut want_b: Vec<usize> = vec![0];
        for i in 1..text.len() { if is_word(text[i - 1]) != is_word(text[i]) { want_b.push(i); } }
        if !text.is_empty() { want_b.push(text.len()); }
        if wb != want_b { bad.push(format!("find_word_boundaries got {:?} want {:?}", wb, want_b)); }
        for i in 0..=text.len() + 1 {
            let wantb = i == 0 || i >= text.len() || is_word(text[i - 1]) != is_word(text[i]);
            if zipora::string::is_word_boundary(text, i) != wantb { bad.push(format!("is_word_boundary({})", i)); }
            let wantw = if i < text.len() && is_word(text[i]) {
                let mut st = i; while st > 0 && is_word(text[st - 1]) { st -= 1; }
                let mut en = i; while en < text.len() && is_word(text[en]) { en += 1; }
                Some((st, en))
            } else { None };
            if zipora::string::word_at_position(text, i) != wantw { bad.push(format!("word_at_position({})", i)); }
        }
        for c in 0..=255u8 { if zipora::string::is_word_char(c) != is_word(c) { bad.push(format!("is_word_char({})", c)); } }
        let term = format!("(CWords {} {} {})%N", more::coq_bl(text), more::coq_bll(&got), wc);
        (bad, term)
    });
    match r {
        Err(p) => cx.sum.fail(cell, None, cj, &format!("panicked: {}", p)),
        Ok((bad, term)) => {
            if !bad.is_empty() { cx.sum.fail(cell, None, cj.clone(), &bad.join("; ")); }
            more::push_coq(cx, term, cj);
        }
    }
    x::bound_emit(cx, text);
}

fn lex_iter_case(cx: &mut Ctx, strings: &[String], probes: &[String]) {
    let cell = "SortedVecLexIterator";
    cx.sum.eval(cell, &format!("lex {:?} {:?}", strings, probes), strings.len() >= 2);
    let cj = json!({"cell": "lexiter", "strings": strings, "probes": probes});
    let r = guarded(|| {
        let mut bad: Vec<String> = vec![];
        let mut it = SortedVecLexIterator::new(strings);
        // forward enumeration
        let mut seen: Vec<String> = vec![];
        if it.seek_start().unwrap() {
            loop {
                seen.push(it.current().unwrap().to_string());
                if !it.next().unwrap() { break; }
            }
        }
        if seen != strings { bad.push(format!("forward enumeration {:?}", seen)); }
        // backward enumeration
        let mut back: Vec<String> = vec![];
        if it.seek_end().unwrap() {
            loop {
                back.push(it.current().unwrap().to_string());
                if !it.prev().unwrap() { break; }
            }
        }
        back.reverse();
        if back != strings { bad.push(format!("backward enumeration {:?}", back)); }
        for p in probes {
            // lower bound: first string >= p, then everything from there onwards
            let lb = strings.partition_point(|s| s.as_str() < p.as_str());
            let exact = it.seek_lower_bound(p).unwrap();
            let mut rest: Vec<String> = vec![];
            while let Some(c) = it.current() { rest.push(c.to_string()); if !it.next().unwrap() { break; } }
            if rest != strings[lb..] { bad.push(format!("seek_lower_bound({:?}) enumerates {:?}, want {:?}", p, rest, &strings[lb..])); }
            if exact != (lb < strings.len() && &strings[lb] == p) { bad.push(format!("seek_lower_bound({:?}) exact flag", p)); }
            let ub = strings.partition_point(|s| s.as_str() <= p.as_str());
            it.seek_upper_bound(p).unwrap();
            let mut rest2: Vec<String> = vec![];
            while let Some(c) = it.current() { rest2.push(c.to_string()); if !it.next().unwrap() { break; } }
            if rest2 != strings[ub..] { bad.push(format!("seek_upper_bound({:?}) enumerates {:?}, want {:?}", p, rest2, &strings[ub..])); }
            // the strings with a given prefix form one block of the sorted list: counting them must find all
            match zipora::string::utils::lex_utils::count_with_prefix(SortedVecLexIterator::new(strings), p) {
                Ok(c) => { let want = strings.iter().filter(|s| s.starts_with(p.as_str())).count(); if c != want { bad.push(format!("count_with_prefix({:?}) = {}, want {}", p, c, want)); } }
                Err(e) => bad.push(format!("count_with_prefix: {}", e)),
            }
        }
        match zipora::string::utils::lex_utils::collect_all(SortedVecLexIterator::new(strings)) {
            Ok(v) => if v != strings { bad.push(format!("collect_all {:?}", v)); },
            Err(e) => bad.push(format!("collect_all: {}", e)),
        }
        let want_lcp: String = if strings.is_empty() { String::new() } else {
            let first: Vec<char> = strings[0].chars().collect();
            let mut k = first.len();
            for s in strings { k = k.min(first.iter().zip(s.chars()).take_while(|(a, b)| **a == *b).count()); }
            first[..k].iter().collect()
        };
        match zipora::string::utils::lex_utils::find_common_prefix(SortedVecLexIterator::new(strings)) {
            Ok(v) => if v != want_lcp { bad.push(format!("find_common_prefix {:?}, want {:?}", v, want_lcp)); },
            Err(e) => bad.push(format!("find_common_prefix: {}", e)),
        }
        bad
    });
    let has_dup = strings.windows(2).any(|w| w[0] == w[1]);
    match r {
        Err(p) => cx.sum.fail(cell, None, cj, &format!("panicked: {}", p)),
        Ok(bad) => if !bad.is_empty() {
            let _ = has_dup;
            cx.sum.fail(cell, None, cj, &bad.join("; "));
        }
    }
}

fn lines_case(cx: &mut Ctx, text: &str) {
    let cell = "LineProcessor";
    cx.sum.eval(cell, &format!("lines {:?}", text), text.len() >= 3);
    let cj = json!({"cell": "lines", "text": text});
    let r = guarded(|| {
        // definition: split after each '\n'; strip one trailing "\n" and then one trailing '\r'
        let mut want: Vec<String> = vec![];
        let mut cur = String::new();
        for ch in text.chars() {
            if ch == '\n' {
                if cur.ends_with('\r') { cur.pop(); }
                want.push(std::mem::take(&mut cur));
            } else { cur.push(ch); }
        }
        if !cur.is_empty() { want.push(cur); }
        let mut cfg = zipora::string::LineProcessorConfig::default();
        cfg.trim_whitespace = false;
        cfg.skip_empty_lines = false;
        cfg.preserve_line_endings = false;
        let mut lp = LineProcessor::with_config(text.as_bytes(), cfg.clone());
        let mut got: Vec<String> = vec![];
        let n = lp.process_lines(|l| { got.push(l.to_string()); Ok(true) }).unwrap();
        let mut bad: Vec<String> = vec![];
        if got != want { bad.push(format!("process_lines got {:?} want {:?}", got, want)); }
        if n != want.len() { bad.push("process_lines count".into()); }
        let mut lp2 = LineProcessor::with_config(text.as_bytes(), cfg);
        if lp2.count_lines().unwrap() != want.len() { bad.push("count_lines".into()); }
        // the same definition, from std
        if want != text.lines().map(|l| l.to_string()).collect::<Vec<_>>() { bad.push("harness self-check: reference differs from str::lines".into()); }
        let mut lp3 = LineProcessor::new(text.as_bytes());
        let mut got3: Vec<String> = vec![];
        lp3.process_lines(|l| { got3.push(l.to_string()); Ok(true) }).unwrap();
        if got3 != want { bad.push("LineProcessor::new (default configuration)".into()); }
        let term = format!("(CLines {} {})%N", more::coq_bl(text.as_bytes()), more::coq_bll(&got));
        (bad, term)
    });
    match r {
        Err(p) => cx.sum.fail(cell, None, cj, &format!("panicked: {}", p)),
        Ok((bad, term)) => {
            if !bad.is_empty() { cx.sum.fail(cell, None, cj.clone(), &bad.join("; ")); }
            more::push_coq(cx, term, cj);
        }
    }
}

fn case_conv(cx: &mut Ctx, text: &[u8]) {
    let cell = "ascii_case";
    cx.sum.eval(cell, &format!("case {:?}", text), text.len() >= 2);
    let cj = json!({"cell": "case", "text": text});
    let r = guarded(|| {
        let mut bad: Vec<String> = vec![];
        let t: String = String::from_utf8_lossy(text).into_owned();
        let lo = zipora::string::to_lowercase_ascii_bmi2(&t);
        let up = zipora::string::to_uppercase_ascii_bmi2(&t);
        if lo != t.to_ascii_lowercase() { bad.push(format!("to_lowercase_ascii_bmi2 got {:?}", lo)); }
        if up != t.to_ascii_uppercase() { bad.push(format!("to_uppercase_ascii_bmi2 got {:?}", up)); }
        // byte-length preserving; identity outside letters; involutive on letters
        if lo.len() != t.len() || up.len() != t.len() { bad.push("case conversion changed the byte length".into()); }
        for (i, &b) in t.as_bytes().iter().enumerate() {
            if lo.len() != t.len() || up.len() != t.len() { break; }
            let (l, u) = (lo.as_bytes()[i], up.as_bytes()[i]);
            if !b.is_ascii_alphabetic() && (l != b || u != b) { bad.push(format!("byte {} at {} changed by case conversion", b, i)); }
            if b.is_ascii_uppercase() && (u != b || l != b + 32) { bad.push(format!("upper-case letter at {}", i)); }
            if b.is_ascii_lowercase() && (l != b || u != b - 32) { bad.push(format!("lower-case letter at {}", i)); }
        }
        if zipora::string::to_uppercase_ascii_bmi2(&lo) != up || zipora::string::to_lowercase_ascii_bmi2(&up) != lo { bad.push("upper(lower(s)) != upper(s) or lower(upper(s)) != lower(s)".into()); }
        let bp = zipora::string::Bmi2StringProcessor::new();
        if bp.to_lowercase_ascii_bmi2(&t) != lo || bp.to_uppercase_ascii_bmi2(&t) != up { bad.push("Bmi2StringProcessor methods differ from the free functions".into()); }
        bad.truncate(4);
        let terms = vec![
            format!("(CCase 0 {} {})%N", more::coq_bl(t.as_bytes()), more::coq_bl(lo.as_bytes())),
            format!("(CCase 1 {} {})%N", more::coq_bl(t.as_bytes()), more::coq_bl(up.as_bytes())),
        ];
        (bad, terms)
    });
    match r {
        Err(p) => cx.sum.fail(cell, None, cj, &format!("panicked: {}", p)),
        Ok((bad, terms)) => {
            if !bad.is_empty() { cx.sum.fail(cell, None, cj.clone(), &bad.join("; ")); }
            for t in terms { more::push_coq(cx, t, cj.clone()); }
        }
    }
}

fn bytes_of(v: &Value) -> Vec<u8> {
    if let Some(s) = v.as_str() { return s.as_bytes().to_vec(); }
    v.as_array().map(|a| a.iter().map(|x| x.as_u64().unwrap_or(0) as u8).collect()).unwrap_or_default()
}
fn strs_of(v: &Value) -> Vec<String> {
    v.as_array().map(|a| a.iter().map(|x| x.as_str().unwrap_or("").to_string()).collect()).unwrap_or_default()
}

fn run_one(cx: &mut Ctx, c: &Value) {
    if wide::run_one_wide(cx, c) { return; }
    match c["cell"].as_str() {
        Some("faststr") => faststr_case(cx, &bytes_of(&c["a"]), &bytes_of(&c["b"])),
        Some("join") => join_case(cx, c["sep"].as_str().unwrap_or(","), &strs_of(&c["parts"])),
        Some("words") => words_case(cx, &bytes_of(&c["text"])),
        Some("lexiter") => lex_iter_case(cx, &strs_of(&c["strings"]), &strs_of(&c["probes"])),
        Some("lines") => lines_case(cx, c["text"].as_str().unwrap_or("")),
        Some("case") => case_conv(cx, &bytes_of(&c["text"])),
        Some("split") => split_case(cx, c["text"].as_str().unwrap_or(""), c["d"].as_u64().unwrap_or(44) as u8),
        Some("radixdeep") => x::radix_deep_case(cx, c["n"].as_u64().unwrap_or(40) as usize, c["len"].as_u64().unwrap_or(100) as usize, c["shape"].as_u64().unwrap_or(0)),
        Some("cmpk") => x::cmpk_emit(cx, &bytes_of(&c["a"]), &bytes_of(&c["b"])),
        Some("faststr_deep") => more::faststr_deep(cx, &bytes_of(&c["a"])),
        Some("streaming") => more::streaming_case(cx, &strs_of(&c["strings"]), &bytes_of(&c["terms"]), c["cut_last"].as_bool().unwrap_or(false)),
        Some("sortable") => more::sortable_case(cx, &strs_of(&c["strings"]), &strs_of(&c["probes"])),
        Some("sortable_long") => more::sortable_long_case(cx, c["len"].as_u64().unwrap_or(0) as usize),
        Some("zo") => more::zo_case(cx, &strs_of(&c["strings"]), &strs_of(&c["probes"])),
        Some("unicode") => more::unicode_case(cx, &bytes_of(&c["text"])),
        Some("lines_cfg") => more::lines_cfg_case(cx, c["text"].as_str().unwrap_or(""), c["cfg"].as_u64().unwrap_or(0), c["batch"].as_u64().unwrap_or(0) as usize, c["delim"].as_str().unwrap_or("")),
        Some("lexops") => {
            let ops: Vec<(u8, String)> = c["ops"].as_array().map(|a| a.iter().map(|o| (o[0].as_u64().unwrap_or(0) as u8, o[1].as_str().unwrap_or("").to_string())).collect()).unwrap_or_default();
            more::lex_ops_case(cx, &strs_of(&c["strings"]), &ops, c["via"].as_u64().unwrap_or(0))
        }
        _ => cmp_case(cx, &bytes_of(&c["a"]), &bytes_of(&c["b"]), true),
    }
}

pub fn run(args: &Args) {
    let mut cx = Ctx {
        sum: Summary::new("C20", "numeric comparators: all pairs of strings over {+,-,0,1,9,.,a} up to length 3 (quick) / 4 (thorough) against an exact integer-arithmetic value oracle, antisymmetry on all pairs, transitivity on all triples up to length 2, plus generated long numerals (equal values written differently); FastStr: generated pairs plus the deep oracle on every length 0..=130 (24 alignments, every constructor, one byte changed at every position, every cut point, find of every substring start); join/split/words/lines/case/lex-iterator histories: generated lists and texts (empties, duplicates, bytes >= 0x80, all line-ending mixes) against std, a sample evaluated in Coq against the models; StreamingLexIterator/SortableStrVec (up to 1300 strings, 2^20-byte strings)/ZoSortedStrVec/unicode/LineProcessor configurations against std; breadth families (c20_wide.rs, oracle only): pre-parsed comparators on every pair of valid bodies up to length 3 x sign flags, numerals of 17..2^20 digits against the padded digit-row order, FastStr conversions / collections / strings of 131..2^20+1 bytes (one and two bytes changed around the powers of two, planted bytes, views), join over arbitrary bytes and item types with one JoinBuilder used repeatedly and lists of 2^16 / 2^20 parts, one LineSplitter over many lines, LineProcessor presets x buffer sizes 0..256 KiB x maximum line length x chunked readers with operation histories on one processor (early stop, failing handler, batches, fields, counting) and line_utils, non-UTF-8 input, StreamingLexIterator histories with refused operations and lines around the reader buffer, sorted lists of 2^16 strings, SortableStrVec histories (14 operations, clone, reserve / shrink_to_fit, SORTABLE_CACHE_BLOCK 0..4, SORTABLE_PREFETCH) and vectors around 512 / 10000 / 2^16 strings, ZoSortedStrVec layouts above 2^16 and 2^20 bits, unicode cursor histories and long texts; extension families (c20_x.rs): model ties for FastStr at every length 0..130 and on the generated pairs (find / order / prefix tests / common prefix / hash value / 28 slicing calls incl. out-of-range and usize::MAX arguments), word-boundary helpers at every position, LineProcessor configurations x batch sizes 0..3, Utf8ToUtf32Iterator histories (all the way forward, all the way back, reset, a mix), StreamingLexIterator histories with refused operations, SortableStrVec push/get, binary_search with cache_block_size 1..4 and 256, ZoSortedStrVec on sorted / unsorted / NUL-containing lists, and the comparison kernel of the release-mode sort against slice order on every generated pair plus two opposite byte changes inside one chunk at every length; corpus of past witnesses first; non-trivial = at least one operand of length >= 2 (or list of >= 2)"),
        shards: CoqShards::new(HEADER, 500),
        budget: if args.thorough { 12000 } else { 1800 },
        emit: true,
    };
    let mut rng = Rng::new(args.seed);
    x::set_thorough(args.thorough);
    if let Some(f) = &args.replay {
        let v: Value = serde_json::from_str(&std::fs::read_to_string(f).expect("replay file")).expect("json");
        let c = if v.get("case").is_some() { v["case"].clone() } else { v };
        if c["cell"].as_str() == Some("radixdeep_child") {
            x::radix_deep_child(&args.out, c["n"].as_u64().unwrap_or(40) as usize, c["len"].as_u64().unwrap_or(100) as usize, c["shape"].as_u64().unwrap_or(0));
        } else {
            run_one(&mut cx, &c);
        }
        let sh = cx.shards.write(&args.out);
        cx.sum.write(&args.out, sh);
        return;
    }
    let corpus_dir = if std::path::Path::new("corpus/C20").is_dir() { "corpus/C20" } else { "/verif/corpus/C20" };
    if let Ok(rd) = std::fs::read_dir(corpus_dir) {
        let mut files: Vec<_> = rd.filter_map(|e| e.ok()).map(|e| e.path()).collect();
        files.sort();
        for p in files {
            if let Ok(v) = serde_json::from_str::<Value>(&std::fs::read_to_string(&p).unwrap_or_default()) {
                let c = if v.get("case").is_some() { v["case"].clone() } else { v };
                run_one(&mut cx, &c);
                cx.sum.dist("corpus_cases");
            }
        }
    }
    // --- numeric comparators: exhaustive small universe
    let alpha = b"+-019.a";
    let strs = all_strings(alpha, if args.thorough { 4 } else { 3 });
    let n = strs.len();
    let stride = (n * n / cx.budget.max(1) * 2).max(1);
    let mut k = 0usize;
    for a in &strs {
        for b in &strs {
            k += 1;
            let to_coq = k % stride == 0 || (a.len() + b.len() <= 3);
            cmp_case(&mut cx, a, b, to_coq);
        }
    }
    cx.sum.sample(json!({"family": "all pairs over +-019.a", "strings": n, "pairs": n * n}));
    // antisymmetry and transitivity on the implementation
    let small = all_strings(b"+-019.", 2);
    for (op, name) in [(0, "decimal_strcmp"), (1, "realnum_strcmp")] {
        let f = |a: &[u8], b: &[u8]| {
            let (sa, sb) = (std::str::from_utf8(a).unwrap(), std::str::from_utf8(b).unwrap());
            if op == 0 { decimal_strcmp(sa, sb) } else { realnum_strcmp(sa, sb) }
        };
        for a in &small { for b in &small {
            let ab = f(a, b);
            let ba = f(b, a);
            cx.sum.evaluations += 1;
            if ab.map(|o| o.reverse()) != ba {
                cx.sum.fail(name, None, json!({"op": op, "a": String::from_utf8_lossy(a), "b": String::from_utf8_lossy(b)}), "antisymmetry");
            }
            if let Some(o1) = ab {
                for c in &small {
                    if let (Some(o2), Some(o3)) = (f(b, c), f(a, c)) {
                        cx.sum.evaluations += 1;
                        let bad = (o1 != Ordering::Greater && o2 != Ordering::Greater && o3 == Ordering::Greater)
                            || (o1 == Ordering::Less && o2 != Ordering::Greater && o3 != Ordering::Less)
                            || (o1 == Ordering::Equal && o2 == Ordering::Equal && o3 != Ordering::Equal);
                        if bad {
                            cx.sum.fail(name, None, json!({"op": op, "a": String::from_utf8_lossy(a), "b": String::from_utf8_lossy(b), "c": String::from_utf8_lossy(c)}), "transitivity");
                        }
                    }
                }
            }
        } }
    }
    // generated long numerals (equal values written differently)
    let ngen = if args.thorough { 200000 } else { 8000 };
    for i in 0..ngen {
        let a = rand_numeric(&mut rng);
        let b = if rng.chance(1, 3) {
            // same value, different spelling
            let mut b = a.clone();
            if b.contains(&b'.') && !b.ends_with(b"a") { for _ in 0..rng.below(3) { b.push(b'0'); } }
            let at = if b.first().map_or(false, |c| *c == b'-' || *c == b'+') { 1 } else { 0 };
            if b.len() > at && b[at].is_ascii_digit() { for _ in 0..rng.below(3) { b.insert(at, b'0'); } }
            b
        } else { rand_numeric(&mut rng) };
        cmp_case(&mut cx, &a, &b, i % 8 == 0);
        if i % 4 == 0 {
            // the same operands through the pre-parsed entry points (sign split off by the harness)
            let sp = |s: &[u8]| -> (Vec<u8>, bool) { match s.first() { Some(b'-') => (s[1..].to_vec(), true), Some(b'+') => (s[1..].to_vec(), false), _ => (s.to_vec(), false) } };
            let ((ba, na), (bb, nb)) = (sp(&a), sp(&b));
            wide::numws_case(&mut cx, &ba, na, &bb, nb);
            wide::numws_case(&mut cx, &ba, !na, &bb, nb);
        }
        if i < 3 { cx.sum.sample(json!({"a": String::from_utf8_lossy(&a), "b": String::from_utf8_lossy(&b)})); }
    }
    // --- FastStr
    // + the allowances of the extension families (c20_x.rs), which do not go through push_coq
    cx.budget = if args.thorough { 30000 + 6 * 2161 + 60 } else { 4000 + 2161 + 60 };
    // deep oracle: every length 0..=130, differently built contents (high-bit bytes, tiny alphabet, boundary bytes)
    for rep in 0..(if args.thorough { 8 } else { 1 }) {
        for n in 0..=130usize {
            let a: Vec<u8> = (0..n).map(|_| match rng.below(4) { 0 => (rng.next() as u8) | 0x80, 1 => *rng.pick(b"ab"), _ => rng.next() as u8 }).collect();
            more::faststr_deep(&mut cx, &a);
            let b: Vec<u8> = (0..n).map(|_| *rng.pick(&[b'a', b'b', 0x80, 0xff, 0x7f, 0])).collect();
            more::faststr_deep(&mut cx, &b);
            if rep == 0 && n % 13 == 0 { more::faststr_deep(&mut cx, &vec![b'a'; n]); }
            if rep == 0 {
                // model tie at every length (all chunk counts and remainders of the hash paths, needles inside / flipped at the end)
                x::fast_emit(&mut cx, &a, &a[n / 3..(n / 3 + n / 4 + 1).min(n)], true);
                if n >= 2 {
                    let mut c = a.clone();
                    let (i, j) = (n / 2, (n / 2 + 1 + n % 7).min(n - 1));
                    c[i] = c[i].wrapping_add(1);
                    c[j] = c[j].wrapping_sub(1);
                    x::cmpk_emit(&mut cx, &a, &c);
                    x::cmpk_emit(&mut cx, &a[..n - n / 5], &a);
                }
                if n % 3 == 0 {
                    let mut nd = b[n / 2..].to_vec();
                    if let Some(l) = nd.last_mut() { *l ^= 0x80; }
                    x::fast_emit(&mut cx, &b, &nd, true);
                }
            }
        }
    }
    let nfs = if args.thorough { 60000 } else { 4000 };
    for i in 0..nfs {
        let a = rand_bytes_biased(&mut rng, if i % 10 == 0 { 130 } else { 12 });
        let b = match rng.below(5) {
            0 => a.clone(),
            1 => { let k = rng.below(a.len() as u64 + 1) as usize; a[..k].to_vec() }
            2 => { let k = rng.below(a.len() as u64 + 1) as usize; let l = rng.below((a.len() - k) as u64 + 1) as usize; a[k..k + l].to_vec() }
            3 => { let mut b = a.clone(); if !b.is_empty() { let k = rng.below(b.len() as u64) as usize; b[k] = b[k].wrapping_add(0x80); } b }
            _ => rand_bytes_biased(&mut rng, 6),
        };
        faststr_case(&mut cx, &a, &b);
        x::cmpk_emit(&mut cx, &a, &b);
        if i % 2 == 0 { wide::faststr_extra(&mut cx, &a, &b); }
    }
    // exhaustive small find/compare universe
    let tiny = all_strings(b"ab", if args.thorough { 7 } else { 6 });
    let needles = all_strings(b"ab", 4);
    for h in &tiny { for nd in &needles {
        cx.sum.evaluations += 1;
        let want = if nd.is_empty() { Some(0) } else if nd.len() > h.len() { None } else { h.windows(nd.len()).position(|w| w == &nd[..]) };
        let got = guarded(|| FastStr::new(h).find(FastStr::new(nd)));
        if got != Ok(want) {
            cx.sum.fail("FastStr", None, json!({"cell": "faststr", "a": h, "b": nd}), &format!("find got {:?} want {:?}", got, want));
        }
    } }
    // --- join / split / words / lines / case / lex iterator
    let nl = if args.thorough { 40000 } else { 3000 };
    let pool = ["", "a", "b", "ab", "a,b", " ", "x y", "é", "abc", "A_1", "-", ","];
    for i in 0..nl {
        // string-model cases for Coq: a sample spread over the whole run
        cx.emit = i % (if args.thorough { 2 } else { 14 }) == 0;
        let np = rng.below(5) as usize;
        let parts: Vec<String> = (0..np).map(|_| rng.pick(&pool).to_string()).collect();
        let sep = *rng.pick(&[",", "", " ", "\t", "::", "|"]);
        join_case(&mut cx, sep, &parts);
        let t = rand_bytes_biased(&mut rng, 24);
        words_case(&mut cx, &t);
        case_conv(&mut cx, &t);
        // letters at the edges of the alphabet ranges and their neighbours, long enough for the 8-byte chunk path
        let ct: Vec<u8> = (0..rng.below(41)).map(|_| *rng.pick(b"AZaz@[`{MmNn09_ \xc3\x89\xff")).collect();
        case_conv(&mut cx, &ct);
        words_case(&mut cx, &ct);
        let line_alpha = ["a", "b", "\n", "\r\n", "\r", " ", ""];
        let text: String = (0..rng.below(8)).map(|_| *rng.pick(&line_alpha)).collect();
        lines_case(&mut cx, &text);
        let mut strings: Vec<String> = (0..rng.below(7)).map(|_| rng.pick(&["", "a", "aa", "ab", "b", "ba", "c"]).to_string()).collect();
        strings.sort();
        if i % 2 == 0 { strings.dedup(); }
        let probes: Vec<String> = ["", "a", "aa", "ab", "b", "bb", "z"].iter().map(|s| s.to_string()).collect();
        lex_iter_case(&mut cx, &strings, &probes);
        if i < 2 { cx.sum.sample(json!({"join_sep": sep, "parts": parts, "lines": text, "sorted": strings})); }
        // --- split at a single-byte delimiter (arbitrary text)
        let stext: String = (0..rng.below(9)).map(|_| *rng.pick(&["a", "b", ",", ",", " ", "\t", "é", ""])).collect();
        split_case(&mut cx, &stext, *rng.pick(&[b',', b'\t', b' ', b'a']));
        // --- lexicographic iterator: operation histories (model tie) on lists with duplicates and empty strings
        let lpool = ["", "", "a", "a", "aa", "ab", "b", "b", "ba", "c", "é"];
        let mut ls: Vec<String> = (0..rng.below(8)).map(|_| rng.pick(&lpool).to_string()).collect();
        ls.sort();
        let ops: Vec<(u8, String)> = (0..rng.range(1, 8)).map(|_| {
            let code = *rng.pick(&[0u8, 0, 0, 1, 1, 2, 3, 4, 4, 4, 5, 5]);
            let t = if code >= 4 { rng.pick(&["", "a", "aa", "ab", "b", "bb", "c", "z", "é"]).to_string() } else { String::new() };
            (code, t)
        }).collect();
        more::lex_ops_case(&mut cx, &ls, &ops, if i % 4 == 0 { 0 } else { rng.below(6) });
        // --- streaming iterator over the same kind of list
        let terms: Vec<u8> = (0..ls.len()).map(|_| rng.below(2) as u8).collect();
        more::streaming_case(&mut cx, &ls, &terms, rng.chance(1, 2));
        // --- unicode.rs
        let utext: Vec<u8> = if rng.chance(1, 4) { rand_bytes_biased(&mut rng, 40) } else {
            let k = if rng.chance(1, 8) { rng.range(30, 70) } else { rng.below(8) };
            (0..k).map(|_| *rng.pick(&["a", "Z", "é", "É", "ß", "€", "😀", " ", "\u{7f}", "ǅ", "İ"])).collect::<String>().into_bytes()
        };
        more::unicode_case(&mut cx, &utext);
        wide::per_iteration(&mut cx, &mut rng, i, &ct, &utext, &ls);
        // --- LineProcessor configurations
        let ltext: String = (0..rng.below(9)).map(|_| *rng.pick(&["a", "b,", " ", "\t", "\n", "\n", "\r\n", "\r", ""])).collect();
        more::lines_cfg_case(&mut cx, &ltext, rng.below(8), rng.below(4) as usize, *rng.pick(&[",", "", " ", "b,"]));
        // --- sorted string vectors
        if i % 3 == 0 {
            let spool = ["", "", "a", "a", "aa", "ab", "abc", "b", "ba", "c", "é", "éa", "\u{7f}", "€", "Z", "a b"];
            let mut v: Vec<String> = (0..rng.below(10)).map(|_| rng.pick(&spool).to_string()).collect();
            if rng.chance(1, 12) && !v.is_empty() { let k = rng.below(v.len() as u64) as usize; v[k] = rng.pick(&["\0", "a\0b", "a\0"]).to_string(); }
            let probes: Vec<String> = ["", "a", "aa", "ab", "b", "bb", "z", "é", "\u{80}"].iter().map(|s| s.to_string()).collect();
            more::sortable_case(&mut cx, &v, &probes);
            if rng.chance(5, 6) { v.sort(); }
            more::zo_case(&mut cx, &v, &probes);
        }
    }
    // larger sorted vectors: radix path (>= 32 strings per bucket), block binary search (> 512 strings), long shared prefixes
    for (k, &n) in [33usize, 64, 100, 300, 600, 1300].iter().enumerate() {
        if !args.thorough && k >= 5 && args.seed % 2 == 1 { continue; }
        let prefix: String = if k % 2 == 0 { "common/prefix/".into() } else { String::new() };
        let mut v: Vec<String> = (0..n).map(|_| {
            let l = rng.below(7);
            let body: String = (0..l).map(|_| *rng.pick(&["a", "b", "é", "\u{7f}", "0"])).collect();
            if rng.chance(1, 10) { String::new() } else { format!("{}{}", prefix, body) }
        }).collect();
        let mut probes: Vec<String> = (0..12).map(|_| v[rng.below(n as u64) as usize].clone()).collect();
        probes.extend(["", "a", "common/prefix/", "common/prefix/ab", "zzz", "common/prefix/é"].iter().map(|s| s.to_string()));
        more::sortable_case(&mut cx, &v, &probes);
        v.sort();
        probes.truncate(8);
        more::zo_case(&mut cx, &v, &probes);
    }
    more::sortable_long_case(&mut cx, (1 << 20) - 1);
    more::sortable_long_case(&mut cx, 1 << 20);
    more::sortable_long_case(&mut cx, (1 << 20) + 5);
    // LineProcessor trimming with every Unicode White_Space character (and neighbours that are not white space) at both ends:
    // ties the model's utf8_trim to str::trim
    {
        let ws = ["\u{9}", "\u{b}", "\u{c}", "\u{20}", "\u{85}", "\u{a0}", "\u{1680}", "\u{2000}", "\u{2005}", "\u{200a}", "\u{2028}", "\u{2029}", "\u{202f}", "\u{205f}", "\u{3000}"];
        let not_ws = ["\u{200b}", "\u{180e}", "\u{84}", "\u{a1}", "\u{2060}", "\u{feff}", "\u{1f}", "\u{2027}", "\u{3001}", "\u{167f}"];
        x::reserve_lines_cfg(60);
        for (k, w) in ws.iter().enumerate() {
            let n = not_ws[k % not_ws.len()];
            let text = format!("{w}a{w}{w}\n{w}\n{n}{w}b{w}{n}\r\n{w}{n}{w}\n{w}c", w = w, n = n);
            for cfg in [2u64, 3, 7] { more::lines_cfg_case(&mut cx, &text, cfg, (k % 3) as usize, ","); }
        }
        for (k, n) in not_ws.iter().enumerate() {
            let text = format!("{n}\n {n} \n{n}x{n}\n", n = n);
            more::lines_cfg_case(&mut cx, &text, 3 + 4 * (k as u64 % 2), 1, "");
        }
    }
    // radix_sort on strings with long common runs (recursion depth of the MSD sort), each in a child process
    for (n, len, shape) in [(40usize, 6000usize, 0u64), (33, 63, 0), (33, 64, 0), (33, 65, 0), (64, 100_000, 0), (4500, 0, 1)] {
        if !args.thorough && n * len.max(n / 2) > 3_000_000 && args.seed % 2 == 1 && shape == 0 { continue; }
        x::radix_deep_case(&mut cx, n, len, shape);
    }
    wide::fixed_families(&mut cx, args);
    cx.sum.cell_status("FastStr", "M+S");
    cx.sum.cell_status("StreamingLexIterator", "M+S");
    cx.sum.cell_status("SortableStrVec", "S-only");
    cx.sum.cell_status("ZoSortedStrVec", "M+S");
    cx.sum.cell_status("SortableStrVec_core", "M+S");
    cx.sum.cell_status("unicode", "M+S");
    cx.sum.cell_status("LineProcessor_configs", "M+S");
    cx.sum.dist_max("coq_cases", cx.shards.len() as u64);
    let sh = cx.shards.write(&args.out);
    cx.sum.write(&args.out, sh);
}
