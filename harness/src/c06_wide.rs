//! C06, the uniform view of the map implementations: one trait (`Mut`) over every map type, generic over the
//! key / value types (`Ty`), with every public entry point that reads or changes the logical content:
//! the primary operations, housekeeping (`maintain`), Clone / PartialEq (`clone_swap`), bulk insertion (`bulk`),
//! alternative lookups (`alt_get`), get_or_insert(_with), retain and alternative iteration (`alt_iter`).
use std::hash::{BuildHasher, Hash, Hasher};
use zipora::containers::specialized::{EasyHashMap, GoldHashIdx, HashStrMap, SmallMap};
use zipora::hash_map::{
    advanced_hash_combine, bmi2_hash_combine_u32, bmi2_hash_combine_u64, extract_bucket_with_bmi2, extract_hash_bucket_bmi2,
    fabo_hash_combine_u32, fabo_hash_combine_u64, fast_string_hash_bmi2, get_global_bmi2_dispatcher, hash_combine_with_bmi2,
    hash_with_bmi2, specialized, Bmi2HashDispatcher, CombineStrategy, GoldHashMap,
    GoldHashMapConfig, HashCombinable, HashFunctionBuilder, IterationStrategy, LinkType, ZiporaHashMap, ZiporaHashMapConfig,
};
use zipora::string::FastStr;

// ---------------------------------------------------------------------------------------------
// caller-supplied hashers (modes 0..9 mirrored by `hasher` in coq/C06/Model.v)
// ---------------------------------------------------------------------------------------------
pub const N_HASHERS: u64 = 10;
/// modes 10..27: the hash functions of src/hash_map/hash_functions.rs used as the caller-supplied hash function
/// (the property holds for any function of the key; no Coq mirror, oracle only)
pub const N_LIB_HASHERS: u64 = 18;
pub fn hash_mode(mode: u64, k: u64) -> u64 {
    match mode {
        0 => { let x = k.wrapping_mul(11400714819323198485); x ^ (x >> 32) }
        1 => k,
        2 => 0,
        3 => u64::MAX,
        4 => k % 4,
        5 => if k == 0 { 0 } else if k == 1 { u64::MAX } else { k },
        6 => k << 60,
        7 => u64::MAX - (k % 3),
        8 => (k % 3) * 16,
        9 => k % 2,
        10 => fabo_hash_combine_u64(0x9e3779b97f4a7c15, k),
        11 => bmi2_hash_combine_u64(0, k),
        12 => advanced_hash_combine(&[k, k.rotate_left(13)]),
        13 => specialized::hash_complex_key_bmi2(&[k, 1, k >> 7]),
        14 => hash_with_bmi2(k.to_le_bytes()),
        15 => hash_combine_with_bmi2(7, k),
        16 => specialized::hash_integer_bmi2(k),
        17 => fast_string_hash_bmi2(&format!("a-longer-key-{}", k), 0),
        18 => specialized::hash_string_bmi2(&k.to_string()),
        19 => (HashFunctionBuilder::new().with_rotation(11).with_strategy(CombineStrategy::Advanced).build_u64())(1, k),
        20 => (HashFunctionBuilder::new().with_strategy(CombineStrategy::Xor).build_u64())(k, k >> 3),
        21 => k.fabo_combine(3),
        22 => extract_bucket_with_bmi2(k.wrapping_mul(0x9e3779b97f4a7c15), 3) as u64, // eight hash values only
        23 => (fabo_hash_combine_u32(k as u32, (k >> 32) as u32) as u64) ^ specialized::hash_tuple_bmi2(k as u32, (k >> 32) as u32) ^ specialized::hash_float_bmi2(k as f64),
        // 32-bit hash values (the upper half of the hash is always zero)
        24 => ((HashFunctionBuilder::new().with_strategy(CombineStrategy::Bmi2).build_u32())(k as u32, (k >> 32) as u32) as u64) ^ (bmi2_hash_combine_u32(5, k as u32) as u64),
        25 => { let d = get_global_bmi2_dispatcher(); d.hash_with_acceleration(k.to_be_bytes()) ^ d.hash_combine_optimal(1, k) }
        // 64 resp. 32 hash values
        26 => extract_hash_bucket_bmi2(k.wrapping_mul(0x9e3779b97f4a7c15), 6) as u64,
        _ => { let d = Bmi2HashDispatcher::new(); (d.extract_bucket_optimal(k.wrapping_mul(0x9e3779b97f4a7c15) >> 7, 5) as u64) << (d.tier() as u64 % 3) }
    }
}
#[derive(Clone, Default)]
pub struct ModeBuild(pub u64);
pub struct ModeHasher { mode: u64, acc: u64 }
impl Hasher for ModeHasher {
    fn finish(&self) -> u64 { hash_mode(self.mode, self.acc) }
    fn write(&mut self, bytes: &[u8]) { for &b in bytes { self.acc = (self.acc << 8) | b as u64; } }
    fn write_u64(&mut self, i: u64) { self.acc = i; }
}
impl BuildHasher for ModeBuild {
    type Hasher = ModeHasher;
    fn build_hasher(&self) -> ModeHasher { ModeHasher { mode: self.0, acc: 0 } }
}

/// Key for the maps whose hasher is fixed: equality on `id`, hashing on `bucket` only, so that
/// collisions are chosen by the generator whatever hash function the map uses.
#[derive(Clone, Debug, PartialEq, Eq)]
pub struct CKey { pub id: u64, pub bucket: u64 }
impl Hash for CKey { fn hash<H: Hasher>(&self, s: &mut H) { s.write_u64(self.bucket); } }
pub fn ckey(collide: u64, id: u64) -> CKey {
    CKey { id, bucket: match collide { 0 => id, 1 => id % 4, 2 => 0, _ => id % 2 } }
}

// ---------------------------------------------------------------------------------------------
// element types: how the numbers of a history become keys and values of the map's types
// ---------------------------------------------------------------------------------------------
pub trait Ty: 'static {
    type K: Hash + Eq + Clone + std::fmt::Debug + 'static;
    type V: Clone + PartialEq + std::fmt::Debug + 'static;
    fn k(aux: u64, k: u64) -> Self::K;
    fn v(v: u64) -> Self::V;
    fn kb(k: &Self::K) -> u64;
    fn vb(v: &Self::V) -> u64;
}
/// u64 -> u64 (the caller's hasher decides about collisions)
pub struct U64;
impl Ty for U64 {
    type K = u64; type V = u64;
    fn k(_: u64, k: u64) -> u64 { k }
    fn v(v: u64) -> u64 { v }
    fn kb(k: &u64) -> u64 { *k }
    fn vb(v: &u64) -> u64 { *v }
}
/// CKey -> u64 (`aux` = collision mode)
pub struct CK;
impl Ty for CK {
    type K = CKey; type V = u64;
    fn k(aux: u64, k: u64) -> CKey { ckey(aux, k) }
    fn v(v: u64) -> u64 { v }
    fn kb(k: &CKey) -> u64 { k.id }
    fn vb(v: &u64) -> u64 { *v }
}
/// u8 keys (wrap at 256)
pub struct U8K;
impl Ty for U8K {
    type K = u8; type V = u64;
    fn k(_: u64, k: u64) -> u8 { k as u8 }
    fn v(v: u64) -> u64 { v }
    fn kb(k: &u8) -> u64 { *k as u64 }
    fn vb(v: &u64) -> u64 { *v }
}
/// signed keys and values: small key numbers are negative keys
pub struct I64K;
impl Ty for I64K {
    type K = i64; type V = i32;
    fn k(_: u64, k: u64) -> i64 { (k as i64).wrapping_sub(64) }
    fn v(v: u64) -> i32 { ((v % 1_000_000_007) as i32).wrapping_neg() }
    fn kb(k: &i64) -> u64 { k.wrapping_add(64) as u64 }
    fn vb(v: &i32) -> u64 { v.wrapping_neg() as u32 as u64 }
}
pub fn skey(k: u64) -> String {
    if k == 0 { String::new() } else if k % 11 == 5 { format!("{}-{}", "дли́нный ключ ".repeat(6), k) } else { format!("key-{}", k) }
}
pub fn unskey(s: &str) -> u64 { if s.is_empty() { 0 } else { s.rsplit('-').next().and_then(|t| t.parse::<u64>().ok()).unwrap_or(u64::MAX - 5) } }
/// owned strings on both sides (the empty string and long non-ASCII strings are keys)
pub struct StrK;
impl Ty for StrK {
    type K = String; type V = String;
    fn k(_: u64, k: u64) -> String { skey(k) }
    fn v(v: u64) -> String { if v % 7 == 0 { String::new() } else { format!("v{}", v) } }
    fn kb(k: &String) -> u64 { unskey(k) }
    fn vb(v: &String) -> u64 { if v.is_empty() { 0 } else { v[1..].parse::<u64>().unwrap_or(u64::MAX - 6) } }
}
impl StrK { }
/// zero-sized key: the map holds at most one entry
pub struct UnitK;
impl Ty for UnitK {
    type K = (); type V = u64;
    fn k(_: u64, _: u64) {}
    fn v(v: u64) -> u64 { v }
    fn kb(_: &()) -> u64 { 0 }
    fn vb(v: &u64) -> u64 { *v }
}
/// zero-sized value: the map is a set
pub struct UnitV;
impl Ty for UnitV {
    type K = u64; type V = ();
    fn k(_: u64, k: u64) -> u64 { k }
    fn v(_: u64) {}
    fn kb(k: &u64) -> u64 { *k }
    fn vb(_: &()) -> u64 { 0 }
}
/// composite key, 16-byte aligned value
pub struct TupK;
impl Ty for TupK {
    type K = (u32, u32); type V = u128;
    fn k(_: u64, k: u64) -> (u32, u32) { ((k >> 32) as u32, k as u32) }
    fn v(v: u64) -> u128 { ((v as u128) << 64) | (!v) as u128 }
    fn kb(k: &(u32, u32)) -> u64 { ((k.0 as u64) << 32) | k.1 as u64 }
    fn vb(v: &u128) -> u64 { let hi = (*v >> 64) as u64; if (*v as u64) == !hi { hi } else { u64::MAX - 7 } }
}
/// values of 1040 bytes (above the 1 KiB size class of the secure pools GoldHashIdx stores its values in)
pub struct BigV;
impl Ty for BigV {
    type K = u64; type V = [u64; 130];
    fn k(_: u64, k: u64) -> u64 { k }
    fn v(v: u64) -> [u64; 130] { let mut a = [v; 130]; a[129] = !v; a }
    fn kb(k: &u64) -> u64 { *k }
    fn vb(v: &[u64; 130]) -> u64 { if v[129] == !v[0] && v[64] == v[0] { v[0] } else { u64::MAX - 8 } }
}
// the StrK value encoding needs v = 0 (mod 7) to be told apart: canon_v maps those to 0
// (canonical form = vb(v(x)), applied by the history before the shadow sees the value)

// ---------------------------------------------------------------------------------------------
// uniform view of the implementations
// ---------------------------------------------------------------------------------------------
pub type R<T> = Result<T, String>; // Err = the API returned an error (or, for the cross-checks, an inconsistency)

pub trait Mut {
    fn insert(&mut self, k: u64, v: u64) -> Option<R<Option<u64>>>;   // None = op not offered
    fn remove(&mut self, k: u64) -> Option<R<Option<u64>>>;
    fn get(&mut self, k: u64) -> Option<Option<u64>>;
    fn get_mut_set(&mut self, k: u64, v: u64) -> Option<Option<u64>>;
    fn contains(&mut self, k: u64) -> Option<bool>;
    fn len(&mut self) -> Option<usize>;
    fn iter(&mut self) -> Option<Vec<(u64, u64)>>;
    fn clear(&mut self) -> Option<()>;
    fn clear_k(&mut self, _k: u64) -> Option<()> { self.clear() }
    /// internal observables for the model comparison only: iteration in the order yielded, scalars
    fn raw(&mut self) -> Option<(Vec<(u64, u64)>, Vec<u64>)> { None }
    /// housekeeping that must not change what the map holds (shrink_to_fit / reserve / revoke_deleted / set_hash_caching /
    /// set_auto_grow / set_max_load_factor / statistics / Debug ...); None = the type has none
    fn maintain(&mut self, _which: u64) -> Option<()> { None }
    /// canonical form of a key / value number under the cell's element types
    fn canon_k(&self, k: u64) -> u64 { k }
    fn canon_v(&self, v: u64) -> u64 { v }
    /// what the cell's caller-supplied BuildHasher returns for the key numbered `k` (computed outside the map, on the real
    /// key type); None = the cell's hasher is not known to the harness
    fn key_hash(&self, _k: u64) -> Option<u64> { None }
    /// a bookkeeping counter that the cell's Coq model tracks (selected by `w`); None = none
    fn counter(&mut self, _w: u64) -> Option<u64> { None }
    /// Clone: the map is replaced by its clone (even `w`) or the clone is compared with the map and dropped (odd `w`);
    /// where the type has PartialEq: clone == map, and a clone that differs in one value / one key / one entry is != map
    fn clone_swap(&mut self, _w: u64, _present: Option<(u64, u64)>, _absent: Option<u64>) -> Option<R<()>> { None }
    /// bulk insertion of (canonical) items, later items win
    fn bulk(&mut self, _items: &[(u64, u64)], _w: u64) -> Option<R<()>> { None }
    /// alternative lookups: (canonical key, answer, the map's default value if the lookup substitutes one)
    fn alt_get(&mut self, _keys: &[u64], _w: u64) -> Option<Vec<(u64, Option<u64>, Option<u64>)>> { None }
    /// get_or_insert / get_or_insert_with: the value found or inserted
    fn get_or_insert(&mut self, _k: u64, _v: u64, _w: u64) -> Option<R<u64>> { None }
    /// retain the keys with key % m != r; with `add` the closure also increments every value it sees
    fn retain(&mut self, _m: u64, _r: u64, _add: bool) -> Option<()> { None }
    /// the other ways to iterate (default / fast strategy, keys() + values(), partial iteration, ExactSizeIterator)
    fn alt_iter(&mut self, _w: u64) -> Option<R<Vec<(u64, u64)>>> { None }
}

fn estr<E: std::fmt::Debug>(e: E) -> String { format!("{:?}", e) }

// ---------------------------------------------------------------------------------------------
pub struct Zip<T: Ty, S: BuildHasher + Clone + 'static>(pub ZiporaHashMap<T::K, T::V, S>, pub u64);
impl<T: Ty, S: BuildHasher + Clone + 'static> Zip<T, S> {
    fn pairs(m: &ZiporaHashMap<T::K, T::V, S>) -> Vec<(u64, u64)> { m.iter().map(|(k, v)| (T::kb(k), T::vb(v))).collect() }
}
impl<T: Ty, S: BuildHasher + Clone + 'static> Mut for Zip<T, S> {
    fn canon_k(&self, k: u64) -> u64 { T::kb(&T::k(self.1, k)) }
    fn canon_v(&self, v: u64) -> u64 { T::vb(&T::v(v)) }
    // meaningful only for S = ModeBuild(self.1) (the cells that carry a table-driven model)
    fn key_hash(&self, k: u64) -> Option<u64> { Some(ModeBuild(self.1).hash_one(T::k(self.1, k))) }
    fn insert(&mut self, k: u64, v: u64) -> Option<R<Option<u64>>> { Some(self.0.insert(T::k(self.1, k), T::v(v)).map(|o| o.map(|x| T::vb(&x))).map_err(estr)) }
    fn remove(&mut self, k: u64) -> Option<R<Option<u64>>> { Some(Ok(self.0.remove(&T::k(self.1, k)).map(|x| T::vb(&x)))) }
    fn get(&mut self, k: u64) -> Option<Option<u64>> { Some(self.0.get(&T::k(self.1, k)).map(T::vb)) }
    fn get_mut_set(&mut self, k: u64, v: u64) -> Option<Option<u64>> { Some(self.0.get_mut(&T::k(self.1, k)).map(|r| T::vb(&std::mem::replace(r, T::v(v))))) }
    fn contains(&mut self, k: u64) -> Option<bool> { Some(self.0.contains_key(&T::k(self.1, k))) }
    fn len(&mut self) -> Option<usize> {
        let n = self.0.len();
        if self.0.is_empty() != (n == 0) { return Some(usize::MAX); }
        Some(n)
    }
    fn iter(&mut self) -> Option<Vec<(u64, u64)>> { Some(Self::pairs(&self.0)) }
    fn clear(&mut self) -> Option<()> { self.0.clear(); Some(()) }
    fn raw(&mut self) -> Option<(Vec<(u64, u64)>, Vec<u64>)> { Some((Self::pairs(&self.0), vec![self.0.capacity() as u64])) }
    fn maintain(&mut self, w: u64) -> Option<()> {
        match w % 4 {
            0 => { let _ = self.0.stats().insertions; }
            1 => { let _ = self.0.cache_metrics().hit_ratio(); }
            2 => { let _ = self.0.capacity(); }
            _ => { let _ = format!("{:?}", self.0); }
        }
        Some(())
    }
    fn clone_swap(&mut self, w: u64, _present: Option<(u64, u64)>, _absent: Option<u64>) -> Option<R<()>> {
        let c = self.0.clone();
        if w % 2 == 0 { self.0 = c; return Some(Ok(())); }
        let (mut a, mut b) = (Self::pairs(&c), Self::pairs(&self.0));
        a.sort(); b.sort();
        Some(if a == b { Ok(()) } else { Err(format!("the clone holds {:?}, the map {:?}", &a[..a.len().min(8)], &b[..b.len().min(8)])) })
    }
    fn alt_iter(&mut self, w: u64) -> Option<R<Vec<(u64, u64)>>> {
        // count() against len(), and an iteration interrupted and resumed
        let n = self.0.iter().count();
        if n != self.0.len() { return Some(Err(format!("iter().count() = {}, len() = {}", n, self.0.len()))); }
        let mut it = self.0.iter();
        let mut out: Vec<(u64, u64)> = it.by_ref().take((w % 4) as usize).map(|(k, v)| (T::kb(k), T::vb(v))).collect();
        out.extend(it.map(|(k, v)| (T::kb(k), T::vb(v))));
        Some(Ok(out))
    }
}

/// String keys, looked up through &str (the Borrow<Q> path: hash_key_borrowed vs hash_key)
pub struct ZipStr(pub ZiporaHashMap<String, u64, ModeBuild>, pub u64);
impl Mut for ZipStr {
    fn key_hash(&self, k: u64) -> Option<u64> { Some(ModeBuild(self.1).hash_one(skey(k))) }
    fn insert(&mut self, k: u64, v: u64) -> Option<R<Option<u64>>> { Some(self.0.insert(skey(k), v).map_err(estr)) }
    fn remove(&mut self, k: u64) -> Option<R<Option<u64>>> { Some(Ok(self.0.remove(skey(k).as_str()))) }
    fn get(&mut self, k: u64) -> Option<Option<u64>> { Some(self.0.get(skey(k).as_str()).copied()) }
    fn get_mut_set(&mut self, k: u64, v: u64) -> Option<Option<u64>> { Some(self.0.get_mut(skey(k).as_str()).map(|r| std::mem::replace(r, v))) }
    fn contains(&mut self, k: u64) -> Option<bool> { Some(self.0.contains_key(skey(k).as_str())) }
    fn len(&mut self) -> Option<usize> { Some(self.0.len()) }
    fn iter(&mut self) -> Option<Vec<(u64, u64)>> { Some(self.0.iter().map(|(k, v)| (unskey(k), *v)).collect()) }
    fn clear(&mut self) -> Option<()> { self.0.clear(); Some(()) }
    fn clone_swap(&mut self, _w: u64, _p: Option<(u64, u64)>, _a: Option<u64>) -> Option<R<()>> { self.0 = self.0.clone(); Some(Ok(())) }
}

// ---------------------------------------------------------------------------------------------
/// .2 = the configuration's default iteration strategy is Fast (documented to yield deleted entries)
pub struct Gold<T: Ty, L: LinkType>(pub GoldHashMap<T::K, T::V, L>, pub u64, pub bool);
impl<T: Ty, L: LinkType> Gold<T, L> {
    fn safe(&self) -> Vec<(u64, u64)> { self.0.iter_with_strategy(IterationStrategy::Safe).map(|(k, v)| (T::kb(k), T::vb(v))).collect() }
}
impl<T: Ty, L: LinkType> Mut for Gold<T, L> {
    // GoldHashMap hashes with std's DefaultHasher (fixed keys)
    fn key_hash(&self, k: u64) -> Option<u64> {
        let mut h = std::collections::hash_map::DefaultHasher::new();
        T::k(self.1, k).hash(&mut h);
        Some(h.finish())
    }
    fn canon_k(&self, k: u64) -> u64 { T::kb(&T::k(self.1, k)) }
    fn canon_v(&self, v: u64) -> u64 { T::vb(&T::v(v)) }
    fn insert(&mut self, k: u64, v: u64) -> Option<R<Option<u64>>> { Some(self.0.insert(T::k(self.1, k), T::v(v)).map(|o| o.map(|x| T::vb(&x))).map_err(estr)) }
    fn remove(&mut self, k: u64) -> Option<R<Option<u64>>> { Some(self.0.remove(&T::k(self.1, k)).map(|o| o.map(|x| T::vb(&x))).map_err(estr)) }
    fn get(&mut self, k: u64) -> Option<Option<u64>> { Some(self.0.get(&T::k(self.1, k)).map(T::vb)) }
    fn get_mut_set(&mut self, k: u64, v: u64) -> Option<Option<u64>> { Some(self.0.get_mut(&T::k(self.1, k)).map(|r| T::vb(&std::mem::replace(r, T::v(v))))) }
    fn contains(&mut self, k: u64) -> Option<bool> { Some(self.0.contains_key(&T::k(self.1, k))) }
    fn len(&mut self) -> Option<usize> {
        let n = self.0.len();
        if self.0.is_empty() != (n == 0) { return Some(usize::MAX); }
        Some(n)
    }
    fn iter(&mut self) -> Option<Vec<(u64, u64)>> { Some(self.safe()) }
    fn clear(&mut self) -> Option<()> { self.0.clear(); Some(()) }
    fn raw(&mut self) -> Option<(Vec<(u64, u64)>, Vec<u64>)> { Some((self.safe(), vec![self.0.capacity() as u64, self.0.deleted_count() as u64])) }
    fn maintain(&mut self, w: u64) -> Option<()> {
        match w % 8 {
            0 => { let _ = self.0.reserve((w % 40) as usize); }
            1 | 2 => { let _ = self.0.revoke_deleted(); }
            3 => self.0.set_hash_caching(true),
            4 => self.0.set_hash_caching(false),
            5 => { let _ = self.0.reserve((w % 3000) as usize); }
            6 => self.0.set_hash_caching(!self.0.is_hash_cached()),
            _ => { let _ = (self.0.load_factor(), self.0.capacity(), self.0.deleted_count()); }
        }
        Some(())
    }
    fn alt_iter(&mut self, w: u64) -> Option<R<Vec<(u64, u64)>>> {
        // without deleted entries the fast strategy must yield exactly the live entries; with deleted entries only the
        // safe strategy promises that (iter() follows the configured default)
        let clean = self.0.deleted_count() == 0;
        let it = if clean && w % 2 == 0 { self.0.iter_fast() } else if clean || !self.2 { self.0.iter() } else { self.0.iter_with_strategy(IterationStrategy::Safe) };
        Some(Ok(it.map(|(k, v)| (T::kb(k), T::vb(v))).collect()))
    }
}

// ---------------------------------------------------------------------------------------------
/// .2 = a twin map fed by the same memory pool (the same Arc for with_pool, the same global pool otherwise) that receives
/// every change with the value + 1: two maps that share a pool must not see each other's values.  A lookup whose twin
/// answer is not "the same + 1" is reported as the value TWIN_DISAGREES.
pub struct Idx<T: Ty>(pub GoldHashIdx<T::K, T::V>, pub u64, pub Option<GoldHashIdx<T::K, T::V>>);
pub const TWIN_DISAGREES: u64 = u64::MAX - 10;
impl<T: Ty> Idx<T> {
    fn twin_ok(&self, k: u64, a: Option<u64>) -> bool {
        match &self.2 { None => true, Some(t) => t.get(&T::k(self.1, k)).map(T::vb) == a.map(|x| x.wrapping_add(1)) }
    }
}
impl<T: Ty> Mut for Idx<T> {
    fn canon_k(&self, k: u64) -> u64 { T::kb(&T::k(self.1, k)) }
    fn canon_v(&self, v: u64) -> u64 { T::vb(&T::v(v)) }
    fn insert(&mut self, k: u64, v: u64) -> Option<R<Option<u64>>> {
        if let Some(t) = &mut self.2 { let _ = t.insert(T::k(self.1, k), T::v(v.wrapping_add(1))); }
        Some(self.0.insert(T::k(self.1, k), T::v(v)).map(|o| o.map(|x| T::vb(&x))).map_err(estr))
    }
    fn remove(&mut self, k: u64) -> Option<R<Option<u64>>> {
        if let Some(t) = &mut self.2 { let _ = t.remove(&T::k(self.1, k)); }
        Some(Ok(self.0.remove(&T::k(self.1, k)).map(|x| T::vb(&x))))
    }
    fn get(&mut self, k: u64) -> Option<Option<u64>> {
        let a = self.0.get(&T::k(self.1, k)).map(T::vb);
        Some(if self.twin_ok(k, a) { a } else { Some(TWIN_DISAGREES) })
    }
    fn get_mut_set(&mut self, k: u64, v: u64) -> Option<Option<u64>> {
        if let Some(t) = &mut self.2 { if let Some(r) = t.get_mut(&T::k(self.1, k)) { *r = T::v(v.wrapping_add(1)); } }
        Some(self.0.get_mut(&T::k(self.1, k)).map(|r| T::vb(&std::mem::replace(r, T::v(v)))))
    }
    fn contains(&mut self, k: u64) -> Option<bool> { Some(self.0.contains_key(&T::k(self.1, k))) }
    fn len(&mut self) -> Option<usize> {
        let n = self.0.len();
        if self.0.is_empty() != (n == 0) { return Some(usize::MAX); }
        if let Some(t) = &self.2 { if t.len() != n { return Some(usize::MAX - 1); } }
        Some(n)
    }
    fn iter(&mut self) -> Option<Vec<(u64, u64)>> { None }
    fn clear(&mut self) -> Option<()> { None }
    fn maintain(&mut self, w: u64) -> Option<()> {
        match w % 4 { 0 | 1 => self.0.shrink_to_fit(), 2 => { let _ = self.0.memory_usage(); } _ => { let _ = format!("{:?}", self.0); } }
        if let Some(t) = &mut self.2 { if w % 4 == 1 { t.shrink_to_fit(); } }
        Some(())
    }
    fn bulk(&mut self, items: &[(u64, u64)], _w: u64) -> Option<R<()>> {
        if let Some(t) = &mut self.2 { let _ = t.insert_batch(items.iter().map(|(k, v)| (T::k(self.1, *k), T::v(v.wrapping_add(1)))).collect()); }
        Some(self.0.insert_batch(items.iter().map(|(k, v)| (T::k(self.1, *k), T::v(*v))).collect()).map_err(estr))
    }
    fn alt_get(&mut self, keys: &[u64], _w: u64) -> Option<Vec<(u64, Option<u64>, Option<u64>)>> {
        let ks: Vec<T::K> = keys.iter().map(|k| T::k(self.1, *k)).collect();
        let got = self.0.get_batch(&ks);
        if got.len() != ks.len() { return Some(vec![(T::kb(&ks[0]), Some(u64::MAX - 9), None)]); }
        Some(ks.iter().zip(got).map(|(k, a)| (T::kb(k), a.map(T::vb), None)).collect())
    }
}

// ---------------------------------------------------------------------------------------------
pub struct Sm<T: Ty>(pub SmallMap<T::K, T::V>, pub u64);
impl<T: Ty> Mut for Sm<T> {
    fn canon_k(&self, k: u64) -> u64 { T::kb(&T::k(self.1, k)) }
    fn canon_v(&self, v: u64) -> u64 { T::vb(&T::v(v)) }
    fn insert(&mut self, k: u64, v: u64) -> Option<R<Option<u64>>> { Some(self.0.insert(T::k(self.1, k), T::v(v)).map(|o| o.map(|x| T::vb(&x))).map_err(estr)) }
    fn remove(&mut self, k: u64) -> Option<R<Option<u64>>> { Some(Ok(self.0.remove(&T::k(self.1, k)).map(|x| T::vb(&x)))) }
    fn get(&mut self, k: u64) -> Option<Option<u64>> { Some(self.0.get(&T::k(self.1, k)).map(T::vb)) }
    fn get_mut_set(&mut self, k: u64, v: u64) -> Option<Option<u64>> { Some(self.0.get_mut(&T::k(self.1, k)).map(|r| T::vb(&std::mem::replace(r, T::v(v))))) }
    fn contains(&mut self, k: u64) -> Option<bool> { Some(self.0.contains_key(&T::k(self.1, k))) }
    fn len(&mut self) -> Option<usize> {
        let n = self.0.len();
        if self.0.is_empty() != (n == 0) { return Some(usize::MAX); }
        Some(n)
    }
    fn iter(&mut self) -> Option<Vec<(u64, u64)>> { Some(self.0.iter().map(|(k, v)| (T::kb(k), T::vb(v))).collect()) }
    fn clear(&mut self) -> Option<()> { self.0.clear(); Some(()) }
    fn maintain(&mut self, w: u64) -> Option<()> {
        if w % 2 == 0 { let _ = self.0.capacity(); } else { let _ = format!("{:?}", self.0); }
        Some(())
    }
    fn clone_swap(&mut self, w: u64, present: Option<(u64, u64)>, absent: Option<u64>) -> Option<R<()>> {
        let c = self.0.clone();
        if !(c == self.0) || !(self.0 == c) { return Some(Err("the clone is != the map".into())); }
        if let Some((pk, pv)) = present {
            // one value changed
            if self.canon_v(pv.wrapping_add(1)) != pv {
                let mut d = c.clone();
                let _ = d.insert(T::k(self.1, pk), T::v(pv.wrapping_add(1)));
                if d == self.0 || self.0 == d { return Some(Err(format!("a map that differs in the value of key {} is == the map", pk))); }
            }
            // one entry less
            let mut d = c.clone();
            d.remove(&T::k(self.1, pk));
            if d == self.0 || self.0 == d { return Some(Err(format!("a map without key {} is == the map", pk))); }
            // same size, one key exchanged
            if let Some(ak) = absent {
                let _ = d.insert(T::k(self.1, ak), T::v(pv));
                if d == self.0 || self.0 == d { return Some(Err(format!("a map with key {} instead of {} is == the map", ak, pk))); }
            }
        }
        if w % 2 == 0 { self.0 = c; }
        Some(Ok(()))
    }
    fn alt_iter(&mut self, w: u64) -> Option<R<Vec<(u64, u64)>>> {
        // ExactSizeIterator: len() of the iterator, and its size_hint after some steps
        let mut it = self.0.iter();
        if it.len() != self.0.len() { return Some(Err(format!("iter().len() = {}, len() = {}", it.len(), self.0.len()))); }
        let mut out: Vec<(u64, u64)> = it.by_ref().take((w % 11) as usize).map(|(k, v)| (T::kb(k), T::vb(v))).collect();
        let (lo, hi) = it.size_hint();
        let rest: Vec<(u64, u64)> = it.map(|(k, v)| (T::kb(k), T::vb(v))).collect();
        if lo != rest.len() || hi != Some(rest.len()) { return Some(Err(format!("size_hint() = ({}, {:?}) with {} entries left", lo, hi, rest.len()))); }
        out.extend(rest);
        Some(Ok(out))
    }
}

/// SmallMap<u8, V>: the specialised lookup `get_fast` (vectorised key search) stands in for get
pub struct SmU8(pub SmallMap<u8, u64>);
impl Mut for SmU8 {
    fn canon_k(&self, k: u64) -> u64 { k as u8 as u64 }
    fn insert(&mut self, k: u64, v: u64) -> Option<R<Option<u64>>> { Some(self.0.insert(k as u8, v).map_err(estr)) }
    fn remove(&mut self, k: u64) -> Option<R<Option<u64>>> { Some(Ok(self.0.remove(&(k as u8)))) }
    fn get(&mut self, k: u64) -> Option<Option<u64>> { Some(self.0.get_fast(&(k as u8)).copied()) }
    fn get_mut_set(&mut self, k: u64, v: u64) -> Option<Option<u64>> { Some(self.0.get_mut(&(k as u8)).map(|r| std::mem::replace(r, v))) }
    fn contains(&mut self, k: u64) -> Option<bool> { Some(self.0.contains_key(&(k as u8))) }
    fn len(&mut self) -> Option<usize> { Some(self.0.len()) }
    fn iter(&mut self) -> Option<Vec<(u64, u64)>> { Some(self.0.iter().map(|(k, v)| (*k as u64, *v)).collect()) }
    fn clear(&mut self) -> Option<()> { self.0.clear(); Some(()) }
    fn clone_swap(&mut self, _w: u64, _p: Option<(u64, u64)>, _a: Option<u64>) -> Option<R<()>> {
        let c = self.0.clone();
        if c != self.0 { return Some(Err("the clone is != the map".into())); }
        self.0 = c;
        Some(Ok(()))
    }
    fn alt_get(&mut self, keys: &[u64], _w: u64) -> Option<Vec<(u64, Option<u64>, Option<u64>)>> {
        // the generic lookup next to the vectorised one
        Some(keys.iter().map(|k| (*k as u8 as u64, self.0.get(&(*k as u8)).copied(), None)).collect())
    }
}

// ---------------------------------------------------------------------------------------------
/// EasyHashMap: put has no return value; get_mut is offered as get_or_insert on a present key.
/// .2 = the default value the map was built with, .3 = built by new()/default() (FromIterator builds the same)
pub struct Easy<T: Ty>(pub EasyHashMap<T::K, T::V>, pub u64, pub Option<u64>, pub bool);
impl<T: Ty> Mut for Easy<T> {
    fn canon_k(&self, k: u64) -> u64 { T::kb(&T::k(self.1, k)) }
    fn canon_v(&self, v: u64) -> u64 { T::vb(&T::v(v)) }
    fn insert(&mut self, k: u64, v: u64) -> Option<R<Option<u64>>> {
        let old = self.0.get(&T::k(self.1, k)).map(T::vb);
        self.0.put(T::k(self.1, k), T::v(v));
        Some(Ok(old))
    }
    fn remove(&mut self, k: u64) -> Option<R<Option<u64>>> { Some(Ok(self.0.remove(&T::k(self.1, k)).map(|x| T::vb(&x)))) }
    fn get(&mut self, k: u64) -> Option<Option<u64>> { Some(self.0.get(&T::k(self.1, k)).map(T::vb)) }
    fn get_mut_set(&mut self, k: u64, v: u64) -> Option<Option<u64>> {
        if !self.0.contains_key(&T::k(self.1, k)) { return Some(None); }
        match self.0.get_or_insert(T::k(self.1, k), T::v(v)) {
            Ok(r) => Some(Some(T::vb(&std::mem::replace(r, T::v(v))))),
            Err(_) => Some(None),
        }
    }
    fn contains(&mut self, k: u64) -> Option<bool> { Some(self.0.contains_key(&T::k(self.1, k))) }
    fn len(&mut self) -> Option<usize> {
        let n = self.0.len();
        if self.0.is_empty() != (n == 0) { return Some(usize::MAX); }
        Some(n)
    }
    fn iter(&mut self) -> Option<Vec<(u64, u64)>> { None }
    fn clear(&mut self) -> Option<()> { self.0.clear(); Some(()) }
    fn maintain(&mut self, w: u64) -> Option<()> {
        match w % 8 {
            0 => self.0.reserve((w % 40) as usize),
            1 | 2 => self.0.shrink_to_fit(),
            3 => { let _ = self.0.try_reserve(1000); }
            4 => self.0.set_auto_grow(w / 8 % 2 == 0),
            5 => self.0.set_max_load_factor([0.1, 0.5, 0.75, 0.95, 7.0, -1.0, 0.3][(w / 8 % 7) as usize]),
            6 => { let _ = self.0.statistics().load_factor; }
            _ => { let _ = (self.0.capacity(), format!("{:?}", self.0).len()); }
        }
        Some(())
    }
    fn bulk(&mut self, items: &[(u64, u64)], w: u64) -> Option<R<()>> {
        let it = items.iter().map(|(k, v)| (T::k(self.1, *k), T::v(*v))).collect::<Vec<_>>();
        match w % 3 {
            0 => self.0.extend(it),
            1 => std::iter::Extend::extend(&mut self.0, it.into_iter()),
            _ => if self.3 && self.0.is_empty() { self.0 = it.into_iter().collect(); } else { self.0.extend(it.into_iter().map(|x| x)); }
        }
        Some(Ok(()))
    }
    fn alt_get(&mut self, keys: &[u64], _w: u64) -> Option<Vec<(u64, Option<u64>, Option<u64>)>> {
        // get_or_default needs a default value (it panics by contract without one)
        let d = self.2?;
        Some(keys.iter().map(|k| { let key = T::k(self.1, *k); (T::kb(&key), Some(T::vb(self.0.get_or_default(&key))), Some(self.canon_v(d))) }).collect())
    }
    fn get_or_insert(&mut self, k: u64, v: u64, w: u64) -> Option<R<u64>> {
        let key = T::k(self.1, k);
        let r = if w % 2 == 0 { self.0.get_or_insert(key, T::v(v)) } else { self.0.get_or_insert_with(key, || T::v(v)) };
        Some(r.map(|x| T::vb(x)).map_err(estr))
    }
    fn retain(&mut self, m: u64, r: u64, add: bool) -> Option<()> {
        self.0.retain(|k, v| { if add { *v = T::v(T::vb(v).wrapping_add(1)); } T::kb(k) % m != r });
        Some(())
    }
}

// ---------------------------------------------------------------------------------------------
pub struct StrM(pub HashStrMap<u64>);
impl Mut for StrM {
    fn counter(&mut self, w: u64) -> Option<u64> {
        let st = self.0.statistics();
        Some(match w % 3 { 0 => st.entries, 1 => st.total_strings, _ => st.unique_strings } as u64)
    }
    fn insert(&mut self, k: u64, v: u64) -> Option<R<Option<u64>>> {
        let s = skey(k);
        Some(match k % 3 { 0 => self.0.insert(&s, v), 1 => self.0.insert_string(s, v), _ => self.0.insert_fast_str(FastStr::from_string(&s), v) }.map_err(estr))
    }
    fn remove(&mut self, k: u64) -> Option<R<Option<u64>>> { Some(Ok(self.0.remove(&skey(k)))) }
    fn get(&mut self, k: u64) -> Option<Option<u64>> { Some(self.0.get(&skey(k)).copied()) }
    fn get_mut_set(&mut self, k: u64, v: u64) -> Option<Option<u64>> { Some(self.0.get_mut(&skey(k)).map(|r| std::mem::replace(r, v))) }
    fn contains(&mut self, k: u64) -> Option<bool> { Some(self.0.contains_key(&skey(k))) }
    fn len(&mut self) -> Option<usize> {
        let n = self.0.len();
        if self.0.is_empty() != (n == 0) { return Some(usize::MAX); }
        Some(n)
    }
    fn iter(&mut self) -> Option<Vec<(u64, u64)>> { Some(self.0.iter().map(|(k, v)| (unskey(k), *v)).collect()) }
    fn clear(&mut self) -> Option<()> { self.0.clear(); Some(()) }
    fn clear_k(&mut self, k: u64) -> Option<()> { if k % 2 == 0 { self.0.clear() } else { self.0.clear_all() } Some(()) }
    fn maintain(&mut self, w: u64) -> Option<()> {
        match w % 4 { 0 | 1 => self.0.shrink_to_fit(), 2 => { let _ = self.0.statistics().entries; } _ => { let _ = (self.0.interning_ratio(), self.0.string_memory_usage(), format!("{:?}", self.0).len()); } }
        Some(())
    }
    fn alt_get(&mut self, keys: &[u64], w: u64) -> Option<Vec<(u64, Option<u64>, Option<u64>)>> {
        Some(keys.iter().map(|k| {
            let s = skey(*k);
            let a = if w % 2 == 0 { self.0.get_by_fast_str(&FastStr::from_string(&s)).copied() }
                    else if self.0.is_interned(&s) { Some(self.0.get(&s).copied().unwrap_or(u64::MAX - 3)) } else { None };
            (*k, a, None)
        }).collect())
    }
    fn alt_iter(&mut self, _w: u64) -> Option<R<Vec<(u64, u64)>>> {
        // keys() and values() separately
        let ks: Vec<u64> = self.0.keys().map(|k| unskey(k)).collect();
        let mut vs: Vec<u64> = self.0.values().copied().collect();
        let out: Vec<(u64, u64)> = ks.iter().map(|k| (*k, self.0.get(&skey(*k)).copied().unwrap_or(u64::MAX - 4))).collect();
        let mut vs2: Vec<u64> = out.iter().map(|p| p.1).collect();
        vs.sort(); vs2.sort();
        if vs != vs2 { return Some(Err(format!("values() yields {:?}, the values of keys() are {:?}", &vs[..vs.len().min(8)], &vs2[..vs2.len().min(8)]))); }
        Some(Ok(out))
    }
}

// ---------------------------------------------------------------------------------------------
// typed cells: every map family over a rarely used key / value type pair
// ---------------------------------------------------------------------------------------------
fn typed<T: Ty>(family: &str, tname: &str, aux: u64) -> (String, Box<dyn Mut>) {
    match family {
        "zip_t" => (format!("ZiporaHashMap<{}>", tname),
                    Box::new(Zip::<T, ModeBuild>(ZiporaHashMap::with_config_and_hasher(ZiporaHashMapConfig::default(), ModeBuild(aux)).expect("with_config_and_hasher"), aux))),
        "gold_t" => {
            let mut c = GoldHashMapConfig::high_churn();
            c.enable_hash_cache = aux % 2 == 0;
            c.initial_capacity = 5;
            (format!("GoldHashMap<{}>", tname), Box::new(Gold::<T, u32>(GoldHashMap::with_config(c), aux, false)))
        }
        "idx_t" => (format!("GoldHashIdx<{}>", tname), Box::new(Idx::<T>(GoldHashIdx::new(), aux, None))),
        "small_t" => (format!("SmallMap<{}>", tname), Box::new(Sm::<T>(SmallMap::new(), aux))),
        _ => (format!("EasyHashMap<{}>", tname), Box::new(Easy::<T>(EasyHashMap::with_default(T::v(7)), aux, Some(7), false))),
    }
}
/// GoldHashIdx<u64, [u64; 130]> (1040-byte values) on a pool of 1024-byte chunks: allocate_pooled_value refuses every value
/// ("Value does not fit into a chunk of the memory pool"), so every insert / insert_batch returns Err and must leave the map
/// as it was.  variant: 0 = with_pool(16), 1 = with_pool(0) (the first insert goes through resize first), 2 = with_pool(16)
/// plus a twin on the same pool
pub fn refusing_idx(variant: u64, aux: u64) -> (String, Box<dyn Mut>) {
    let pool = zipora::memory::SecureMemoryPool::new(zipora::memory::SecurePoolConfig::small_secure()).expect("pool");
    let cap = if variant == 1 { 0 } else { 16 };
    let m = GoldHashIdx::with_pool(cap, pool.clone());
    let twin = if variant == 2 { Some(GoldHashIdx::with_pool(cap, pool.clone())) } else { None };
    (format!("GoldHashIdx<u64,[u64;130]>/refusing_pool{}", variant), Box::new(Idx::<BigV>(m, aux, twin)))
}

pub fn typed_cell(family: &str, ty: u64, aux: u64) -> (String, Box<dyn Mut>) {
    match ty {
        0 => typed::<U8K>(family, "u8,u64", aux),
        1 => typed::<I64K>(family, "i64,i32", aux),
        2 => typed::<StrK>(family, "String,String", aux),
        3 => typed::<UnitK>(family, "(),u64", aux),
        4 => typed::<UnitV>(family, "u64,()", aux),
        5 => typed::<TupK>(family, "(u32,u32),u128", aux),
        _ => typed::<BigV>(family, "u64,[u64;130]", aux),
    }
}
