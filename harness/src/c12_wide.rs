//! C12 oracle breadth: secondary entry points, presets / non-default options, sizes that cross internal
//! thresholds, object reuse and operation histories.  Everything here is judged by the same dumb
//! oracle as c12.rs (permutation in strict suffix order, memcmp-style LCP, naive occurrences).
//!   * big texts are *described* ({"big": {"kind", "n", "seed"}}) and expanded at run time; patterns of
//!     such cases may be {"sub": [start, len], "push": byte} = a slice of the text (+ one byte)
//!   * core_big        algorithms::suffix_array at the Adaptive switch points (10 000 / 50 000 / 100 000),
//!                     the parallel threshold, > 65 536 LMS names, texts ending in NUL bytes, EnhancedSuffixArray on them
//!   * compress_big    the compressor around IntVec's strategy switch (10 000 entries), 1024 (block size),
//!                     4352 (16 KiB), with array shapes that select delta / uniform-delta / block / min-max storage
//!   * compress_pair   two arrays built by one compressor, the first one queried after the second was built
//!   * reuse           one SuffixArrayBuilder building text A, text B and A again
//!   * dict_hist       histories on one SuffixArrayDictionary: queries, find_longest_match, find_all_matches,
//!                     optimize_cache, clone, serialize/deserialize, save/load, housekeeping, the concurrent wrapper
use super::*;
use zipora::compression::dict_zip::dictionary::MatchStatus;
use zipora::compression::dict_zip::ConcurrentSuffixArrayDictionary;

// ---------- described texts and patterns ----------
pub fn big_text(kind: &str, n: usize, seed: u64) -> Vec<u8> {
    let mut r = Rng::new(seed ^ 0xC12B_16);
    let mut t: Vec<u8> = match kind {
        "rand256" | "rand256_zt" => (0..n).map(|_| r.below(256) as u8).collect(),
        "rand4" => (0..n).map(|_| 10 + r.below(4) as u8).collect(),
        // five symbols, one of them 70 %: entropy < 2, repetition ratio about 0.5
        "rand5skew" | "rand5skew_zt" => (0..n).map(|_| match r.below(20) { 0..=13 => 5u8, 14 | 15 => 0, 16 | 17 => 9, 18 => 200, _ => 255 }).collect(),
        // runs of 4..30 over 8 symbols: repetition ratio > 0.7
        "runs" => { let mut t = vec![]; while t.len() < n { let c = (r.below(8) * 31) as u8; for _ in 0..r.range(4, 30) { t.push(c); } } t.truncate(n); t }
        "single" => vec![(seed % 256) as u8; n],
        // non-decreasing, last symbol once: the suffix array is the identity
        "ident" => (0..n).map(|i| if n <= 1 { 0 } else { (i * 255 / (n - 1)) as u8 }).collect(),
        // non-increasing: the suffix array is n-1 .. 0
        "desc" => (0..n).map(|i| if n <= 1 { 0 } else { 255 - (i * 255 / (n - 1)) as u8 }).collect(),
        // a non-increasing ramp over the low bytes, then random high bytes: the first ranks are consecutive positions,
        // the later ones are scattered (packed-integer blocks with very different local ranges)
        "ramp_rand" => { let h = n / 2; (0..n).map(|i| if i < h { 127 - (i * 128 / h.max(1)) as u8 } else { 128 + r.below(128) as u8 }).collect() }
        "period" => { let p = 3 + (seed % 3) as usize; (0..n).map(|i| (i % p) as u8 + 1).collect() }
        "fib" => fibonacci_word(n, 7, 9),
        "square" => { let h: Vec<u8> = (0..n / 2).map(|_| r.below(200) as u8).collect(); let mut t = h.clone(); if n % 2 == 1 { t.push(255); } t.extend_from_slice(&h); t }
        _ => (0..n).map(|_| r.below(3) as u8).collect(),
    };
    if kind.ends_with("_zt") { let k = 2 + (seed % 4) as usize; for i in n.saturating_sub(k)..n { t[i] = 0; } }
    t
}

pub fn text_of(c: &Value) -> Vec<u8> {
    if let Some(b) = c.get("big") { big_text(b["kind"].as_str().unwrap_or(""), b["n"].as_u64().unwrap_or(0) as usize, b["seed"].as_u64().unwrap_or(0)) }
    else { u8s(&c["text"]) }
}

/// A pattern is a byte list, or {"sub": [start, len], "push": b}: indices are clamped to the text, so a
/// shrunk or edited case is still a valid case.
pub fn pats_from(v: &Value, t: &[u8]) -> Vec<Vec<u8>> {
    v.as_array().map(|a| a.iter().map(|x| {
        if let Some(s) = x.get("sub") {
            let st = (s[0].as_u64().unwrap_or(0) as usize).min(t.len());
            let ln = (s[1].as_u64().unwrap_or(0) as usize).min(t.len() - st);
            let mut p = t[st..st + ln].to_vec();
            if let Some(b) = x.get("push").and_then(|b| b.as_u64()) { p.push(b as u8); }
            p
        } else { u8s(x) }
    }).collect()).unwrap_or_default()
}

fn big_patterns(t: &[u8]) -> Value {
    let n = t.len();
    let first = t.first().copied().unwrap_or(0);
    json!([
        {"sub": [n / 3, 5]}, {"sub": [n.saturating_sub(70_000), 70_000]}, {"sub": [0, n], "push": first}, {"sub": [n.saturating_sub(1), 1]},
        {"sub": [n.saturating_sub(3), 3]}, {"sub": [n.saturating_sub(2), 2]}, [0, 0], [0], [first, first.wrapping_add(9)], [],
        {"sub": [n / 2, 40]}, {"sub": [n / 3, 5]}
    ])
}

fn big_json(kind: &str, n: usize, seed: u64) -> Value { json!({"kind": kind, "n": n, "seed": seed}) }

// ---------- core_big ----------
fn core_big(cx: &mut Ctx, thorough: bool) {
    // (algorithm index, config variant, kind, n, also EnhancedSuffixArray)
    let mut list: Vec<(usize, u64, &str, usize, bool)> = vec![
        (4, 0, "rand256", 50_000, false),      // Adaptive: SA-IS up to 50 000 ...
        (4, 0, "rand256_zt", 50_001, true),    // ... the comparison sort ("DivSufSort") above, text ending in NULs
        (4, 0, "rand5skew", 99_999, false),    // low entropy below 100 000: "DC3"
        (4, 0, "rand5skew_zt", 100_000, true), // at 100 000: "DivSufSort", and the parallel switch
        (4, 0, "runs", 10_000, true),          // repetition ratio > 0.7 at the adaptive threshold: "LarssonSadakane"
        (4, 0, "ident", 10_001, false),
        (4, 0, "rand4", 20_000, false),        // alphabet <= 4: SA-IS
        (4, 0, "desc", 9_999, false),
        (4, 0, "single", 10_000, false),
        (4, 5, "rand256_zt", 10_000, false),
        (1, 0, "rand256_zt", 65_537, false),
        (3, 0, "rand256", 66_000, false),
        (3, 6, "rand5skew_zt", 30_000, false),
        (2, 0, "rand256_zt", 70_000, false),
        (0, 0, "rand256", 100_000, false),     // SA-IS through the parallel switch
        (0, 8, "rand256_zt", 262_145, false),  // > 65 536 distinct LMS names at level 0, n above 2^18
        (0, 0, "rand256", 1_048_577, false),   // above 2^20
        (0, 0, "period", 65_600, false),
        (0, 1, "fib", 70_001, false),
    ];
    if thorough {
        list.extend([(4, 0, "rand256_zt", 1_000_001, false), (0, 1, "rand256_zt", 2_097_153, false), (4, 0, "rand5skew", 100_001, true),
            (1, 5, "rand5skew_zt", 131_073, false), (4, 0, "square", 50_002, false), (4, 0, "rand256", 49_999, true), (2, 7, "ident", 20_000, false)]);
    }
    for (k, (a, v, kind, n, enh)) in list.into_iter().enumerate() {
        let seed = 1000 + k as u64;
        let t = big_text(kind, n, seed);
        let pv = big_patterns(&t);
        let pats = pats_from(&pv, &t);
        cx.sum.dist("breadth_core_big_texts");
        cx.sum.dist_max("max_text_len", n as u64);
        // only to record which branch of the Adaptive selection the text is on (a panic in here is reported by the build below)
        if let Ok(ch) = guarded(|| SuffixArray::analyze_text_characteristics(&t)) {
            cx.sum.dist(&format!("big_text_alphabet_{}_rep_{}_entropy_{}", if ch.alphabet_size <= 4 { "le4" } else { "gt4" },
                if ch.repetition_ratio > 0.7 { "high" } else { "low" }, if ch.entropy < 2.0 { "lt2" } else { "ge2" }));
        }
        let cj = json!({"cell": "core", "alg": ALGS[a].1, "variant": v, "big": big_json(kind, n, seed), "patterns": pv});
        core_case_cj(cx, a, v, &t, &pats, false, cj);
        if enh { enhanced_case_cj(cx, &t, false, json!({"cell": "enhanced", "big": big_json(kind, n, seed)})); }
    }
}

// ---------- compress_big ----------
fn compress_big(cx: &mut Ctx, thorough: bool) {
    let kinds = ["single", "ident", "desc", "runs", "rand4", "rand256_zt", "period", "square", "fib", "ramp_rand"];
    let mut sizes: Vec<usize> = vec![1023, 1024, 1025, 4351, 4352, 9_999, 10_000, 10_001, 16_385, 20_000];
    if thorough { sizes.extend([10_002, 32_769, 65_535, 65_536]); }
    let np = cx.comps.len();
    let mut k = 0usize;
    for (si, &n) in sizes.iter().enumerate() {
        for (ki, kind) in kinds.iter().enumerate() {
            // quick: every size with four of the ten shapes (rotating), the three sizes around 10 000 with all
            if !thorough && !(9_999..=10_001).contains(&n) && (ki + si) % 10 >= 4 && !(*kind == "ramp_rand" && n > 10_000) { continue; }
            k += 1;
            let seed = 2000 + k as u64;
            let t = big_text(kind, n, seed);
            let pv = big_patterns(&t);
            let pats = pats_from(&pv, &t);
            // presets with LCP for the shapes whose LCP array is the interesting one
            let preset = match k % 4 { 0 => 1, 1 => 7, 2 => 3, _ => k / 4 % np };
            let entry = (k / 3 % 2) as u64;
            cx.sum.dist("breadth_compress_big_texts");
            let cj = json!({"cell": "compress", "preset": preset, "entry": entry, "big": big_json(kind, n, seed), "patterns": pv});
            compress_case_cj(cx, preset, entry, &t, &pats[..pats.len().min(8)], false, cj);
        }
    }
}

// ---------- compress_pair ----------
pub fn compress_pair_case(cx: &mut Ctx, preset: usize, entry: u64, a: &[u8], b: &[u8], pats: &[Vec<u8>], cj: Value) {
    // both arrays are built before either is looked at; the second one is checked (and dropped) first
    let ra = compress_build(cx, preset, entry, a);
    let rb = compress_build(cx, preset, 1 - entry.min(1), b);
    let mut cjb = cj.clone();
    cjb["note"] = json!("failure on text2 (second array of the pair)");
    compress_check(cx, preset, rb, b, pats, false, cjb);
    compress_check(cx, preset, ra, a, pats, false, cj);
}

// ---------- reuse ----------
pub fn reuse_case(cx: &mut Ctx, alg_i: usize, variant: u64, a: &[u8], b: &[u8], pats: &[Vec<u8>], cj: Value) {
    let cell = "build/reused_builder";
    cx.sum.cell_status(cell, "S-only");
    cx.sum.eval(cell, &format!("{} {} {:?} {:?}", alg_i, variant, a, b), a.len() >= 2 && b.len() >= 2);
    let cfg = config_for(ALGS[alg_i].0, variant, a.len());
    let builder = SuffixArrayBuilder::new(cfg.clone());
    let built = guarded(|| {
        let s1 = builder.build(a);
        let _ = (Algorithm::stats(&builder).items_processed, builder.estimate_memory(a.len()), builder.supports_parallel(), builder.select_algorithm(b));
        let s2 = builder.build(b);
        let s3 = builder.execute(&cfg, a.to_vec());
        let s4 = builder.build(a);
        (s1, s2, s3, s4)
    });
    let (s1, s2, s3, s4) = match built { Ok(x) => x, Err(m) => { cx.sum.fail(cell, None, cj, &format!("a build panicked: {}", m)); return; } };
    let mut first: Option<SuffixArray> = None;
    for (k, (s, t)) in [(s1, a), (s2, b), (s3, a), (s4, a)].into_iter().enumerate() {
        match s {
            Err(e) => cx.sum.fail(cell, None, cj.clone(), &format!("build number {} refused: {:?}", k + 1, e)),
            Ok(s) => {
                if let Err(why) = is_suffix_array(t, s.as_slice()) { cx.sum.fail(cell, None, cj.clone(), &format!("build number {} of the same builder: {}", k + 1, why)); }
                if s.text_len() != t.len() { cx.sum.fail(cell, None, cj.clone(), &format!("build number {}: text_len {}", k + 1, s.text_len())); }
                if k == 0 { first = Some(s); }
            }
        }
    }
    // the first array, searched after the later builds
    if let Some(s) = first {
        if is_suffix_array(a, s.as_slice()).is_ok() {
            for p in pats {
                match guarded(|| (s.search_range(a, p), s.search(a, p))) {
                    Err(m) => cx.sum.fail(cell, None, cj.clone(), &format!("search({:?}) panicked: {}", p, m)),
                    Ok((range, srch)) => if let Err(why) = check_search(&occurrences(a, p), s.as_slice(), p, range, Some(srch)) { cx.sum.fail(cell, None, cj.clone(), &why); }
                }
            }
        }
    }
}

// ---------- dictionary histories ----------
/// Length of the longest prefix of `s` that occurs somewhere in `t` (byte-wise, every start position).
fn longest_prefix_in(t: &[u8], s: &[u8]) -> usize {
    let mut best = 0;
    for i in 0..t.len() {
        let l = t[i..].iter().zip(s.iter()).take_while(|(x, y)| x == y).count();
        if l > best { best = l; }
    }
    best
}

/// The matcher's answer for query q against text t with naive suffix array sa: depth = longest occurring
/// prefix; if depth > 0 the rank range lists exactly its occurrences.
fn status_why(t: &[u8], sa: &[usize], q: &[u8], ms: &MatchStatus) -> Option<String> {
    let depth = longest_prefix_in(t, q);
    if ms.depth != depth { return Some(format!("depth {} but the longest prefix of the query that occurs has length {}", ms.depth, depth)); }
    if depth == 0 { return None; }
    if ms.lo > ms.hi || ms.hi > sa.len() { return Some(format!("range ({}, {}) is not a rank range", ms.lo, ms.hi)); }
    let occ = occurrences(t, &q[..depth]);
    let mut got = sa[ms.lo..ms.hi].to_vec(); got.sort();
    if got != occ { return Some(format!("ranks [{}, {}) list {:?}, the matched prefix occurs at {:?}", ms.lo, ms.hi, &got[..got.len().min(10)], &occ[..occ.len().min(10)])); }
    if ms.match_count() != occ.len() || ms.is_empty() { return Some(format!("match_count {} / is_empty {} for {} occurrences", ms.match_count(), ms.is_empty(), occ.len())); }
    None
}

/// find_longest_match: what is reported must be an occurrence, at the queried position, of the longest
/// occurring prefix (or of that prefix cut at the length caps - the code ignores them today, honouring them would
/// be no violation of this property); nothing may be reported only if that length is below min_pattern_length.
fn flm_why(t: &[u8], input: &[u8], position: usize, max_length: usize, minl: usize, maxl: usize,
           got: &Option<zipora::compression::dict_zip::PatternMatch>) -> Option<String> {
    if position >= input.len() { return if got.is_some() { Some("a match is reported for a position past the input".into()) } else { None }; }
    let s = &input[position..];
    let best = longest_prefix_in(t, s);
    let capped = best.min(max_length).min(maxl);
    match got {
        None => if capped >= minl && best >= minl && !(best == 0) { Some(format!("no match although a prefix of length {} occurs (min_pattern_length {})", best, minl)) } else { None },
        Some(m) => {
            if m.input_position != position { return Some(format!("input_position {} for a query at {}", m.input_position, position)); }
            if m.length > s.len() || m.dict_position + m.length > t.len() || t[m.dict_position..m.dict_position + m.length] != s[..m.length] {
                return Some(format!("reported match (length {}, dictionary position {}) is not an occurrence", m.length, m.dict_position)); }
            if m.length != best && m.length != capped { return Some(format!("match of length {} but the longest occurring prefix has length {}", m.length, best)); }
            if m.length < minl { return Some(format!("match of length {} below min_pattern_length {}", m.length, minl)); }
            None
        }
    }
}

static FILE_COUNTER: std::sync::atomic::AtomicUsize = std::sync::atomic::AtomicUsize::new(0);

pub fn dict_hist_case(cx: &mut Ctx, c: &Value) {
    let train = text_of(c);
    let queries = pats_from(&c["patterns"], &train);
    let variant = c["variant"].as_u64().unwrap_or(0);
    let ops: Vec<(u64, usize, u64)> = c["ops"].as_array().map(|a| a.iter().map(|o| (o[0].as_u64().unwrap_or(0), o[1].as_u64().unwrap_or(0) as usize, o[2].as_u64().unwrap_or(0))).collect()).unwrap_or_default();
    let cj = c.clone();
    let cells = ["SuffixArrayDictionary/history", "SuffixArrayDictionary/find_longest_match", "SuffixArrayDictionary/find_all_matches", "ConcurrentSuffixArrayDictionary"];
    for cell in cells { cx.sum.cell_status(cell, "S-only"); }
    let hcell = cells[0];
    cx.sum.eval(hcell, &format!("{} {:?} {:?}", variant, train, c["ops"]), ops.len() >= 3);
    let cfg = dict_cfg(variant, train.len());
    let (minl, maxl) = (cfg.min_pattern_length, cfg.max_pattern_length);
    let mut d = match guarded(|| SuffixArrayDictionary::new(&train, cfg.clone())) {
        Err(m) => { cx.sum.fail(hcell, None, cj, &format!("SuffixArrayDictionary::new panicked: {}", m)); return; }
        Ok(Err(e)) => { cx.sum.fail(hcell, None, cj, &format!("SuffixArrayDictionary::new refused the text: {:?}", e)); return; }
        Ok(Ok(d)) => d,
    };
    // the text the dictionary says it holds (the training data, or a sample of it above 10 000 bytes)
    let t: Vec<u8> = d.dictionary_text().to_vec();
    let n = t.len();
    if t != train {
        cx.sum.dist("dict_hist_text_sampled");
        if !(cfg.sample_ratio < 1.0 && train.len() > 10_000) { cx.sum.fail(hcell, None, cj.clone(), "dictionary_text differs from the training data although no sampling was configured"); return; }
    }
    let mut queries = queries;
    if t != train && n >= 16 { // queries that do occur in the sample
        queries.push(t[n / 3..n / 3 + 9].to_vec()); queries.push(t[n - 5..].to_vec()); queries.push(t[n / 2..n / 2 + 4].to_vec());
    }
    let mut sa: Vec<usize> = (0..n).collect();
    sa.sort_by(|&a, &b| t[a..].cmp(&t[b..]));
    let empty: Vec<u8> = vec![];
    let mut spare: Option<SuffixArrayDictionary> = None;
    let mut conc: Option<ConcurrentSuffixArrayDictionary> = None;
    let mut changed = 0usize;
    for (oi, &(code, qi, x)) in ops.iter().enumerate() {
        let q: &[u8] = if queries.is_empty() { &empty } else { &queries[qi % queries.len()] };
        if matches!(code, 4..=7) { changed += 1; }
        let ch_now = changed;
        let at = |what: &str| format!("op {} ({}) after {} state changes", oi, what, ch_now);
        match code {
            0 | 1 => {
                if code == 0 && q.is_empty() { continue; }
                cx.sum.eval(hcell, &format!("{} {:?} {:?} {}", code, t, q, changed), n >= 2);
                match guarded(|| if code == 0 { d.da_match_max_length(q) } else { d.sa_match_continuation(0, n, 0, q) }) {
                    Err(m) => cx.sum.fail(hcell, None, cj.clone(), &format!("{}: query {:?} panicked: {}", at(if code == 0 { "da_match_max_length" } else { "sa_match_continuation" }), q, m)),
                    Ok(ms) => if let Some(why) = status_why(&t, &sa, q, &ms) { cx.sum.fail(hcell, None, cj.clone(), &format!("{}: query {:?}: {}", at(if code == 0 { "da_match_max_length" } else { "sa_match_continuation" }), &q[..q.len().min(16)], why)); }
                }
            }
            2 | 10 => {
                let position = (x % 4) as usize;
                let max_length = [usize::MAX, 3, q.len(), 0, 256, 10][(x / 4 % 6) as usize];
                let cell = if code == 2 { cells[1] } else { cells[3] };
                cx.sum.eval(cell, &format!("{:?} {:?} {} {}", t, q, position, max_length), n >= 2 && !q.is_empty());
                if code == 10 && conc.is_none() {
                    match guarded(|| ConcurrentSuffixArrayDictionary::new(&train, cfg.clone())) {
                        Ok(Ok(cd)) => conc = Some(cd),
                        Ok(Err(e)) => { cx.sum.fail(cell, None, cj.clone(), &format!("ConcurrentSuffixArrayDictionary::new refused: {:?}", e)); continue; }
                        Err(m) => { cx.sum.fail(cell, None, cj.clone(), &format!("ConcurrentSuffixArrayDictionary::new panicked: {}", m)); continue; }
                    }
                }
                // the deserialized dictionary carries the pattern-length window of the saved one, the wrapper has its own copy
                let r = if code == 2 { guarded(|| d.find_longest_match(q, position, max_length)) }
                    else { let cd = conc.as_ref().unwrap(); guarded(|| { let r = cd.find_longest_match(q, position, max_length); let _ = cd.match_stats().map(|s| s.total_searches); r }) };
                let name = if code == 2 { "find_longest_match" } else { "ConcurrentSuffixArrayDictionary::find_longest_match" };
                match r {
                    Err(m) => cx.sum.fail(cell, None, cj.clone(), &format!("{}: ({:?}, {}, {}) panicked: {}", at(name), q, position, max_length, m)),
                    Ok(Err(e)) => cx.sum.fail(cell, None, cj.clone(), &format!("{}: ({:?}, {}, {}) refused: {:?}", at(name), q, position, max_length, e)),
                    Ok(Ok(got)) => {
                        if got.is_some() { cx.sum.dist("find_longest_match_some"); } else { cx.sum.dist("find_longest_match_none"); }
                        if let Some(why) = flm_why(&t, q, position, max_length, minl, maxl, &got) { cx.sum.fail(cell, None, cj.clone(), &format!("{}: ({:?}, {}, {}): {}", at(name), &q[..q.len().min(16)], position, max_length, why)); }
                    }
                }
            }
            3 => {
                let max_matches = [usize::MAX, 1, 2, 0, 5][(x % 5) as usize];
                cx.sum.eval(cells[2], &format!("{:?} {:?} {}", t, q, max_matches), n >= 2 && !q.is_empty());
                match guarded(|| d.find_all_matches(q, max_matches)) {
                    Err(m) => cx.sum.fail(cells[2], None, cj.clone(), &format!("{}: ({:?}, {}) panicked: {}", at("find_all_matches"), q, max_matches, m)),
                    Ok(Err(e)) => cx.sum.fail(cells[2], None, cj.clone(), &format!("{}: ({:?}, {}) refused: {:?}", at("find_all_matches"), q, max_matches, e)),
                    Ok(Ok(ms)) => {
                        let occ = occurrences(&t, q);
                        let mut got: Vec<usize> = ms.iter().map(|m| m.dict_position).collect();
                        got.sort();
                        let inside = q.len() >= minl && q.len() <= maxl;
                        let mut why = String::new();
                        if got.windows(2).any(|w| w[0] == w[1]) { why = format!("a position is reported twice: {:?}", &got[..got.len().min(12)]); }
                        else if got.iter().any(|p| !occ.contains(p)) || ms.iter().any(|m| m.length != q.len()) { why = format!("reported {:?}, the pattern occurs exactly at {:?}", &got[..got.len().min(12)], &occ[..occ.len().min(12)]); }
                        else if got.len() > max_matches { why = format!("{} matches for max_matches {}", got.len(), max_matches); }
                        else if inside && got.len() != occ.len().min(max_matches) { why = format!("{} matches reported, the pattern occurs {} times (max_matches {})", got.len(), occ.len(), max_matches); }
                        if inside { cx.sum.dist("find_all_matches_inside_window"); } else { cx.sum.dist("find_all_matches_outside_window"); }
                        if !why.is_empty() { cx.sum.fail(cells[2], None, cj.clone(), &format!("{}: ({:?}, {}): {}", at("find_all_matches"), &q[..q.len().min(16)], max_matches, why)); }
                    }
                }
            }
            4 => { match guarded(|| d.optimize_cache()) {
                Err(m) => cx.sum.fail(hcell, None, cj.clone(), &format!("{}: panicked: {}", at("optimize_cache"), m)),
                Ok(Err(e)) => cx.sum.fail(hcell, None, cj.clone(), &format!("{}: refused: {:?}", at("optimize_cache"), e)),
                Ok(Ok(())) => cx.sum.dist("dict_hist_optimize_cache") } }
            // ZiporaTrie::clone re-inserts every key: minutes for a cache of 100 000 states (min_frequency 0 on 16 KiB) - skipped there
            5 if d.cache_states() > 50_000 => cx.sum.dist("dict_hist_clone_skipped_huge_cache"),
            5 => { match guarded(|| d.clone()) {
                Err(m) => cx.sum.fail(hcell, None, cj.clone(), &format!("{}: panicked: {}", at("clone"), m)),
                Ok(c2) => { cx.sum.dist("dict_hist_clone"); if x % 2 == 0 { d = c2; } else { spare = Some(c2); } } } }
            6 | 7 => {
                let name = if code == 6 { "serialize/deserialize" } else { "save_to_file/load_from_file" };
                let r = if code == 6 { guarded(|| d.serialize().and_then(|b| SuffixArrayDictionary::deserialize(&b))) } else {
                    let path = std::env::temp_dir().join(format!("zv_c12_{}_{}.dict", std::process::id(), FILE_COUNTER.fetch_add(1, std::sync::atomic::Ordering::Relaxed)));
                    let r = guarded(|| d.save_to_file(&path).and_then(|_| SuffixArrayDictionary::load_from_file(&path)));
                    let _ = std::fs::remove_file(&path);
                    r
                };
                match r {
                    Err(m) => cx.sum.fail(hcell, None, cj.clone(), &format!("{}: panicked: {}", at(name), m)),
                    Ok(Err(e)) => cx.sum.fail(hcell, None, cj.clone(), &format!("{}: refused: {:?}", at(name), e)),
                    Ok(Ok(d2)) => {
                        cx.sum.dist("dict_hist_round_trip");
                        if d2.dictionary_text() != &t[..] { cx.sum.fail(hcell, None, cj.clone(), &format!("{}: the text read back differs from the dictionary text", at(name))); }
                        else { d = d2; }
                    }
                }
            }
            8 => {
                let r = guarded(|| {
                    d.reset_stats();
                    let _ = (d.match_stats().total_searches, d.cache_hit_ratio(), d.cache_stats().state_count, d.validate().is_ok(), d.memory_usage(), d.size_in_bytes(),
                        d.is_external_mode(), d.config().min_frequency, d.cache_states(), d.match_stats().avg_search_time_us(), d.match_stats().cache_hit_ratio());
                    let mut st = d.match_stats().clone(); st.update_search(true, 3, 1);
                    (d.data() == &t[..], d.dictionary_text() == &t[..], d.dictionary_size())
                });
                match r {
                    Err(m) => cx.sum.fail(hcell, None, cj.clone(), &format!("{}: panicked: {}", at("housekeeping accessors"), m)),
                    Ok((a, b, sz)) => if !a || !b || sz != n { cx.sum.fail(hcell, None, cj.clone(), &format!("{}: data() / dictionary_text() / dictionary_size() = {} no longer describe the text of {} bytes", at("accessors"), sz, n)); }
                }
            }
            9 => {
                let ch = q.first().copied().unwrap_or(x as u8);
                cx.sum.eval(hcell, &format!("9 {:?} {} {}", t, ch, changed), n > 3);
                match guarded(|| d.sa_equal_range(0, n, 0, ch)) {
                    Err(m) => cx.sum.fail(hcell, None, cj.clone(), &format!("{}: panicked: {}", at("sa_equal_range"), m)),
                    Ok((l, r)) => {
                        let want: Vec<usize> = (0..n).filter(|&k| t[sa[k]] == ch).collect();
                        let good = if want.is_empty() { l >= r } else { l == want[0] && r == want[want.len() - 1] + 1 };
                        if !good { cx.sum.fail(hcell, None, cj.clone(), &format!("{}: sa_equal_range(0, {}, 0, {}) = ({}, {}), the ranks starting with that byte are {:?}", at("sa_equal_range"), n, ch, l, r, &want[..want.len().min(12)])); }
                    }
                }
            }
            _ => {}
        }
    }
    // a clone that was set aside is asked last: it must not have been affected by what happened to the original
    if let Some(sp) = spare {
        for q in queries.iter().take(4) {
            if q.is_empty() { continue; }
            match guarded(|| sp.da_match_max_length(q)) {
                Err(m) => cx.sum.fail(hcell, None, cj.clone(), &format!("clone set aside: query {:?} panicked: {}", q, m)),
                Ok(ms) => if let Some(why) = status_why(&t, &sa, q, &ms) { cx.sum.fail(hcell, None, cj.clone(), &format!("clone set aside: query {:?}: {}", &q[..q.len().min(16)], why)); }
            }
        }
    }
}

fn gen_ops(r: &mut Rng, nq: usize) -> Vec<Value> {
    let k = r.range(6, 14) as usize;
    let mut ops: Vec<Value> = vec![];
    for i in 0..k {
        let code = if i == 0 { r.below(2) } else if r.chance(2, 5) { *r.pick(&[4u64, 5, 5, 6, 7, 8]) } else { *r.pick(&[0u64, 0, 1, 2, 2, 3, 3, 9, 10]) };
        ops.push(json!([code, r.below(nq.max(1) as u64), r.below(64)]));
    }
    // every history ends with each kind of query once more
    for code in [0u64, 2, 3, 1] { ops.push(json!([code, r.below(nq.max(1) as u64), r.below(64)])); }
    ops
}

fn dict_hist_family(cx: &mut Ctx, rng: &mut Rng, universe: &[(Vec<u8>, Vec<Vec<u8>>)], thorough: bool) {
    // a fixed history that walks through every operation kind
    let fixed: Vec<Value> = [[0u64, 0, 0], [2, 1, 0], [3, 2, 0], [4, 0, 0], [0, 1, 0], [2, 2, 4], [5, 0, 0], [1, 3, 0], [6, 0, 0], [0, 2, 0], [2, 0, 9], [3, 1, 1], [8, 0, 0], [9, 0, 0],
        [5, 0, 1], [7, 0, 0], [0, 3, 0], [10, 1, 0], [2, 3, 1], [3, 3, 2], [4, 0, 0], [1, 0, 0], [10, 2, 5]].iter().map(|o| json!(o)).collect();
    // (1) the enumerated universe by stride
    let stride = if thorough { 5 } else { 29 };
    for (ui, (t, pats)) in universe.iter().enumerate() {
        if t.len() < 2 || ui % stride != 0 { continue; }
        let mut qs: Vec<Vec<u8>> = pats.iter().filter(|p| !p.is_empty()).step_by(1 + ui % 3).take(12).cloned().collect();
        qs.push(t.clone()); qs.push(t[t.len() / 2..].to_vec());
        let ops = if ui % (stride * 4) == 0 { fixed.clone() } else { gen_ops(rng, qs.len()) };
        let c = json!({"cell": "dict_hist", "variant": (ui as u64 / stride as u64) % DICT_VARIANTS, "text": t, "patterns": qs, "ops": ops});
        dict_hist_case(cx, &c);
    }
    if std::env::var("ZV_C12_TRACE").is_ok() { eprintln!("dict_hist universe part done {:?}", std::time::SystemTime::now().duration_since(std::time::UNIX_EPOCH).map(|d| d.as_secs() % 100000)); }
    // (2) generated texts
    let ng = if thorough { 1500 } else { 120 };
    for i in 0..ng {
        let (t, kind) = gen_text(rng, if i % 8 == 0 { 600 } else { 120 });
        if t.is_empty() { continue; }
        cx.sum.dist(&format!("dict_hist_text_{}", kind));
        let mut qs = gen_patterns(rng, &t, 6);
        // queries long enough for the default pattern-length window, some running past a match
        for _ in 0..3 { let i0 = rng.below(t.len() as u64) as usize; let l = rng.range(4, 20) as usize; let mut q = t[i0..(i0 + l).min(t.len())].to_vec(); if rng.chance(1, 2) { q.extend(rng.bytes(3)); } qs.push(q); }
        let ops = if i % 10 == 0 { fixed.clone() } else { gen_ops(rng, qs.len()) };
        let c = json!({"cell": "dict_hist", "variant": i as u64 % DICT_VARIANTS, "text": t, "patterns": qs, "ops": ops});
        dict_hist_case(cx, &c);
    }
    if std::env::var("ZV_C12_TRACE").is_ok() { eprintln!("dict_hist generated part done {:?}", std::time::SystemTime::now().duration_since(std::time::UNIX_EPOCH).map(|d| d.as_secs() % 100000)); }
    // (3) around the sampling switch (training data of more than 10 000 bytes and sample_ratio < 1)
    let mut big: Vec<(u64, &str, usize)> = vec![(8, "rand256", 10_000), (8, "rand256_zt", 10_001), (10, "rand5skew", 10_001), (4, "rand256", 10_001), (11, "rand4", 10_002), (10, "runs", 10_000), (2, "rand256_zt", 70_000),
        // variant 9 admits patterns of up to 300 bytes (the default maximum is 256): the 257- and 300-byte queries must be found by the
        // dictionary and by its reloaded copies alike (the history serialises / saves before the late queries)
        (9, "rand256", 2_500), (9, "rand5skew", 4_000)];
    if thorough { big.extend([(8, "rand5skew_zt", 20_001), (10, "rand256", 20_000), (9, "rand256_zt", 16_385), (5, "rand5skew", 10_001)]); }
    for (k, (variant, kind, n)) in big.into_iter().enumerate() {
        let seed = 3000 + k as u64;
        let t = big_text(kind, n, seed);
        // queries 8-10: exactly at / one past the default max_pattern_length (256), and one running to the end of the text
        let pv = json!([{"sub": [n / 3, 9]}, {"sub": [n / 2, 5], "push": 7}, {"sub": [n - 6, 6]}, [0, 0, 0], {"sub": [17, 4]}, {"sub": [n / 5, 300]}, [t[0], t[2], t[4], t[6], t[8]], [t[1]],
            {"sub": [n / 7, 256]}, {"sub": [n / 7, 257]}, {"sub": [n - 300, 300]}]);
        let mut ops = fixed.clone();
        for o in [[3u64, 8, 0], [3, 9, 0], [3, 4, 0], [2, 5, 0], [2, 8, 16], [2, 10, 0], [10, 9, 4], [0, 10, 0], [3, 10, 2]] { ops.push(json!(o)); }
        let c = json!({"cell": "dict_hist", "variant": variant, "big": big_json(kind, n, seed), "patterns": pv, "ops": ops});
        cx.sum.dist("breadth_dict_big_texts");
        dict_hist_case(cx, &c);
    }
}

pub fn families(cx: &mut Ctx, rng: &mut Rng, universe: &[(Vec<u8>, Vec<Vec<u8>>)], thorough: bool) {
    let trace = std::env::var("ZV_C12_TRACE").is_ok();
    let t0 = std::time::Instant::now();
    core_big(cx, thorough);
    if trace { eprintln!("core_big {:?}", t0.elapsed()); }
    compress_big(cx, thorough);
    if trace { eprintln!("compress_big {:?}", t0.elapsed()); }
    // pairs and reuse on generated texts
    let np = if thorough { 1200 } else { 90 };
    for i in 0..np {
        let (a, _) = gen_text(rng, if i % 6 == 0 { 1200 } else { 150 });
        let (b, _) = gen_text(rng, if i % 5 == 0 { 1200 } else { 60 });
        let pats = gen_patterns(rng, &a, 4);
        if i % 2 == 0 {
            let (preset, entry) = (i / 2 % cx.comps.len(), (i / 16 % 2) as u64);
            let cj = json!({"cell": "compress_pair", "preset": preset, "entry": entry, "text": a, "text2": b, "patterns": pats});
            compress_pair_case(cx, preset, entry, &a, &b, &pats, cj);
        } else {
            let (alg_i, variant) = (i / 2 % 5, rng.below(9));
            let cj = json!({"cell": "reuse", "alg": ALGS[alg_i].1, "variant": variant, "text": a, "text2": b, "patterns": pats});
            reuse_case(cx, alg_i, variant, &a, &b, &pats, cj);
        }
    }
    if trace { eprintln!("pairs/reuse {:?}", t0.elapsed()); }
    dict_hist_family(cx, rng, universe, thorough);
    if trace { eprintln!("dict_hist {:?}", t0.elapsed()); }
}
