// (included by c18_wide.rs)
// ---------------------------------------------------------------------------------------------
// cell: big inputs, described by (which, n, seed, param, fail): sizes that cross 2^16, the default buffer (1000), batch (100) and
// in-flight (10000) limits, the yield budget (16 / 32 / 255), the number of CPUs
// ---------------------------------------------------------------------------------------------

const BIG_NAMES: [&str; 17] = ["FiberPool::parallel_map", "concurrency::parallel_map", "FiberPool::parallel_reduce", "concurrency::parallel_reduce",
    "Pipeline::process_batch (MapStage)", "Pipeline::process_batch (batching)", "Pipeline::execute_stream", "CooperativeUtils::process_vec_yielding",
    "CooperativeUtils::run_with_yield", "YieldingIterator", "FiberIoUtils::batch_process", "CooperativeUtils::concurrent_with_yield",
    "FiberIoUtils::process_files_parallel", "FiberPool::spawn_batch", "AsyncMemoryBlobStore::put_batch/get_batch", "FiberPool::parallel_for_each", "BatchCollector"];

/// which: index into BIG_NAMES; param: max_fibers / max_workers / yield interval / batch size / concurrency limit / max batch;
/// fail: position of a failing item, or -1
fn big_case(cx: &mut Ctx, which: u64, rt: usize, n: usize, seed: u64, param: usize, fail: i64) {
    let cell = format!("big/{}", BIG_NAMES[which as usize]);
    let case = json!({"cell": "big", "kind": 25, "which": which, "rt": rt, "n": n, "seed": seed, "param": param as u64, "fail": fail, "ops": []});
    if cx.objs.hangs.get() >= 3 { cx.sum.dist("skipped_after_three_calls_that_did_not_return"); return; }
    cx.sum.eval(&cell, &format!("bg {} {} {} {} {} {}", which, rt, n, seed, param, fail), n >= 2);
    s_only(cx, &cell);
    cx.sum.dist(&format!("big_n={}", if n < 1000 { "<1000" } else if n < 65536 { "<2^16" } else { ">=2^16" }));
    let xs = gen_items(seed, 0, n, if fail >= 0 { Some(fail as usize) } else { None }, None);
    let want = seq_map(&xs, false);
    let xv = xs.clone();
    let r = guarded(|| with_rt(rt, async move {
        tokio::time::timeout(Duration::from_secs(20), async move {
            let cat = |mut a: Vec<i64>, b: Vec<i64>| -> ZResult<Vec<i64>> {
                if b.iter().any(|x| x.rem_euclid(16) == 13) { return Err(ZiporaError::invalid_data("reduce failed")); }
                a.extend(b);
                Ok(a)
            };
            let mapped = |v: Option<Vec<i64>>| v.map(|v| v.into_iter().map(|x| 3 * x + 1).collect::<Vec<i64>>());
            match which {
                0 => { let pool = FiberPool::new(pool_cfg(param.max(1), 2)).ok()?; pool.parallel_map(xv, stage).await.ok() }
                1 => zipora::concurrency::parallel_map(xv, stage).await.ok(),
                2 => { let pool = FiberPool::new(pool_cfg(8, param)).ok()?; mapped(pool.parallel_reduce(xv.into_iter().map(|x| vec![x]).collect::<Vec<_>>(), vec![], cat).await.ok()) }
                3 => mapped(zipora::concurrency::parallel_reduce(xv.into_iter().map(|x| vec![x]).collect::<Vec<_>>(), vec![], cat).await.ok()),
                4 => Pipeline::new(PipelineConfig::default()).process_batch(MapStage::new("m".to_string(), stage), xv).await.ok(),
                5 => PipelineBuilder::new().enable_batching(true).build().process_batch(BatchMapStage::with_batch_support("bb".to_string(), stage, stage_all), xv).await.ok(),
                6 => {
                    let p = Pipeline::new(PipelineConfig::default());
                    let stages: Vec<Box<dyn PipelineStage<i64, i64>>> = vec![Box::new(MapStage::new("a".to_string(), |x: i64| -> ZResult<i64> { Ok(x) })), Box::new(MapStage::new("b".to_string(), stage))];
                    let (itx, irx) = tokio::sync::mpsc::channel::<i64>(param.max(1));
                    let (otx, mut orx) = tokio::sync::mpsc::channel::<i64>(param.max(1));
                    let feeder = tokio::spawn(async move { for x in xv { if itx.send(x).await.is_err() { break; } } });
                    let consumer = tokio::spawn(async move { let mut outs = vec![]; while let Some(v) = orx.recv().await { outs.push(v); } outs });
                    let ok = p.execute_stream(stages, irx, otx).await.is_ok();
                    let _ = feeder.await;
                    let outs = consumer.await.ok()?;
                    if ok { Some(outs) } else { None }
                }
                7 => CooperativeUtils::process_vec_yielding(xv, param, stage).await.ok(),
                8 => { let v = xv.clone(); CooperativeUtils::run_with_yield(v.len(), param, move |i| stage(v[i])).await.ok() }
                9 => {
                    let it = YieldingIterator::new(xv.clone().into_iter(), param);
                    if it.processed_count() != 0 { return Some(vec![i64::MIN]); }
                    let col: Vec<i64> = it.collect().await;
                    if col != xv { return Some(vec![i64::MIN + 1]); }
                    let mut seen = vec![];
                    let res = YieldingIterator::new(xv.into_iter(), param).for_each(|x| { seen.push(stage(x)?); Ok(()) }).await;
                    match res { Ok(cnt) => { if cnt != seen.len() { return Some(vec![i64::MIN + 2]); } Some(seen) } Err(_) => None }
                }
                10 => FiberIoUtils::batch_process(xv, param, |b: Vec<i64>| -> Pin<Box<dyn Future<Output = ZResult<Vec<i64>>> + Send>> { Box::pin(async move { stage_all(b) }) }).await.ok(),
                11 => CooperativeUtils::concurrent_with_yield(xv.into_iter().map(|x| async move { stage(x) }).collect::<Vec<_>>(), param).await.ok(),
                12 => FiberIoUtils::process_files_parallel(xv.iter().map(|x| x.to_string()).collect::<Vec<String>>(), param, |p: String| -> Pin<Box<dyn Future<Output = ZResult<i64>> + Send>> {
                        Box::pin(async move { stage(p.parse::<i64>().unwrap()) }) }).await.ok(),
                13 => {
                    let pool = FiberPool::new(pool_cfg(param.max(1), 2)).ok()?;
                    let hs = pool.spawn_batch(xv.into_iter().map(|x| async move { stage(x) }));
                    let mut out = vec![];
                    let mut failed = false;
                    for h in hs { match h.await { Ok(v) => out.push(v), Err(_) => failed = true } }
                    if failed { None } else { Some(out) }
                }
                14 => {
                    let store = AsyncMemoryBlobStore::with_capacity(param);
                    let blobs: Vec<Vec<u8>> = xv.iter().map(|x| x.to_le_bytes().to_vec()).collect();
                    let ids = store.put_batch(blobs.iter().map(|b| b.as_slice()).collect()).await.ok()?;
                    if ids.len() != blobs.len() { return Some(vec![i64::MIN]); }
                    let back = store.get_batch(ids).await.ok()?;
                    let mut out = vec![];
                    for b in back { if b.len() != 8 { return Some(vec![i64::MIN + 1]); } out.push(i64::from_le_bytes(b.try_into().unwrap())); }
                    seq_map(&out, false)
                }
                15 => {
                    let pool = FiberPool::new(pool_cfg(param.max(1), 2)).ok()?;
                    let seen: Arc<Vec<AtomicU32>> = Arc::new((0..xv.len()).map(|_| AtomicU32::new(0)).collect());
                    let s2 = seen.clone();
                    let n = xv.len();
                    let ok = pool.parallel_for_each(xv.clone().into_iter().enumerate(), move |(i, x): (usize, i64)| { s2[i].fetch_add(1, Ordering::SeqCst); stage(x).map(|_| ()) }).await.is_ok();
                    let t0 = Instant::now();
                    loop { let st = pool.stats(); if st.completed + st.failed >= n as u64 || t0.elapsed() > Duration::from_secs(5) { break; } tokio::time::sleep(Duration::from_millis(1)).await; }
                    if let Some(i) = (0..n).find(|&i| seen[i].load(Ordering::SeqCst) != 1) { return Some(vec![i64::MIN, i as i64, seen[i].load(Ordering::SeqCst) as i64]); }
                    if ok { seq_map(&xv, false) } else { None }
                }
                _ => {
                    // BatchCollector: n adds with a flush / check_timeout now and then; all batches and the rest, concatenated
                    let c: BatchCollector<i64> = BatchCollector::new(param, Duration::from_secs(3600));
                    let mut out = vec![];
                    for (i, &x) in xv.iter().enumerate() {
                        if let Ok(Some(b)) = c.add(x).await { if b.is_empty() || (param > 0 && b.len() > param) { return Some(vec![i64::MIN, b.len() as i64]); } out.extend(b); }
                        if i % 7919 == 7918 { if let Ok(Some(b)) = c.flush().await { out.extend(b); } }
                        if i % 4099 == 4098 { if let Ok(Some(b)) = c.check_timeout().await { out.extend(b); } }
                    }
                    if c.len().await + out.len() != xv.len() { return Some(vec![i64::MIN + 1, c.len().await as i64]); }
                    if let Ok(Some(b)) = c.flush().await { out.extend(b); }
                    Some(out.iter().map(|x| 3 * x + 1).collect())
                }
            }
        }).await
    }));
    let want = if which == 16 { Some(xs.iter().map(|x| 3 * x + 1).collect()) } else { want };
    match r {
        Err(p) => cx.sum.fail(&cell, None, case, &format!("panicked: {}", p)),
        Ok(Err(_)) => { cx.objs.hangs.set(cx.objs.hangs.get() + 1); cx.sum.fail(&cell, None, case, "did not return (20 s)") }
        Ok(Ok(got)) => { if got != want { cx.sum.fail(&cell, None, case, &format!("{} items: {}", n, diff(&got, &want))); } }
    }
}

// ---------------------------------------------------------------------------------------------
// cell: the yield points (FiberYield, YieldPoint, GlobalYield, AdaptiveYieldScheduler handles): a task that yields through
// them must get control back - every call returns, for every budget configuration, across the budget thresholds
// ---------------------------------------------------------------------------------------------

fn yield_cfg(preset: u64) -> YieldConfig {
    let d = YieldConfig::default();
    match preset {
        0 => d,
        1 => YieldConfig { initial_budget: 0, ..d },
        2 => YieldConfig { initial_budget: 1, max_budget: 1, min_budget: 1, ..d },
        3 => YieldConfig { initial_budget: 255, max_budget: 255, min_budget: 0, ..d },
        4 => YieldConfig { initial_budget: 3, max_budget: 2, min_budget: 5, ..d },
        5 => YieldConfig { adaptive_budgeting: false, yield_threshold: Duration::ZERO, ..d },
        _ => YieldConfig { initial_budget: 2, max_budget: 255, min_budget: 0, yield_threshold: Duration::MAX, decay_rate: 0.0, adaptive_budgeting: true },
    }
}
/// obj: 0 FiberYield::with_config, 1 YieldPoint::new(param), 2 GlobalYield, 3 a handle of AdaptiveYieldScheduler::with_config, 4 FiberYield::new /
/// AdaptiveYieldScheduler::new.  ops: 1 yield_now, 2 force_yield, 3 yield_if_needed, 4 yield_for(0 / 1 ms), 5 reset, 6..8 update_budget
/// (0.0, 1.0, 0.5), 9 checkpoint, 10 the accessors, 100 + k = k times yield_now
fn yieldops_case(cx: &mut Ctx, obj: u64, preset: u64, param: usize, ops: &[i64]) {
    let cell = "yield points (FiberYield / YieldPoint / GlobalYield / scheduler handle)";
    let case = json!({"cell": "yieldops", "kind": 26, "obj": obj, "preset": preset, "param": param as u64, "ops": ops});
    if cx.objs.hangs.get() >= 3 { cx.sum.dist("skipped_after_three_calls_that_did_not_return"); return; }
    cx.sum.eval(cell, &format!("yo {} {} {} {:?}", obj, preset, param, ops), ops.len() >= 3);
    s_only(cx, cell);
    let opv = ops.to_vec();
    let at = Arc::new(AtomicUsize::new(0));
    let at2 = at.clone();
    let r = guarded(|| with_rt(0, async move {
        tokio::time::timeout(HANG, async move {
            // another task of the same runtime: each real yield hands control to it (not compared - the property does not say how often)
            let other = tokio::spawn(async { for _ in 0..1_000_000u32 { tokio::task::yield_now().await; } });
            let fy = if obj == 4 { FiberYield::new() } else { FiberYield::with_config(yield_cfg(preset)) };
            let yp = YieldPoint::new(param);
            let sched = if obj == 4 { AdaptiveYieldScheduler::new() } else { AdaptiveYieldScheduler::with_config(yield_cfg(preset)) };
            let h1 = sched.register_fiber();
            let mut extra = vec![];
            for (k, &o) in opv.iter().enumerate() {
                at2.store(k, Ordering::SeqCst);
                let reps = if o >= 100 { (o - 100) as usize } else { 1 };
                let o = if o >= 100 { 1 } else { o };
                for _ in 0..reps {
                    match (obj, o) {
                        (0 | 4, 1) => fy.yield_now().await,
                        (0 | 4, 2) => fy.force_yield().await,
                        (0 | 4, 3) => fy.yield_if_needed().await,
                        (0 | 4, 4) => fy.yield_for(Duration::from_millis((k % 2) as u64)).await,
                        (0 | 4, 5) => fy.reset(),
                        (0 | 4, 6..=8) => fy.update_budget([0.0, 1.0, 0.5][(o - 6) as usize]),
                        (0 | 4, _) => { let _ = (fy.should_yield(), fy.budget(), fy.total_yields(), fy.execution_time()); }
                        (1, 1 | 2) => yp.yield_now().await,
                        (1, 5) => yp.reset(),
                        (1, 10) => { let _ = yp.operation_count(); }
                        (1, _) => yp.checkpoint().await,
                        (2, 1) => GlobalYield::yield_now().await,
                        (2, 2) => GlobalYield::force_yield().await,
                        (2, 3) => GlobalYield::yield_if_needed().await,
                        (2, 5) => GlobalYield::reset(),
                        (2, _) => { let _ = (GlobalYield::should_yield(), GlobalYield::stats().budget); }
                        (_, 5) => { extra.push(sched.register_fiber()); }
                        (_, 6) => { extra.pop(); }
                        (_, 10) => { let _ = (sched.load_factor(), h1.stats().total_yields); }
                        (_, _) => { h1.yield_now().await; if let Some(h) = extra.last() { h.yield_now().await; } }
                    }
                }
            }
            other.abort();
        }).await
    }));
    match r {
        Err(p) => cx.sum.fail(cell, None, case, &format!("op {} panicked: {}", at.load(Ordering::SeqCst), p)),
        Ok(Err(_)) => { cx.objs.hangs.set(cx.objs.hangs.get() + 1); cx.sum.fail(cell, None, case, &format!("op {} did not return (8 s): the task that yields never gets control back", at.load(Ordering::SeqCst))) }
        Ok(Ok(())) => {}
    }
}

// ---------------------------------------------------------------------------------------------
// cell: the blob stores' batch operations inside a history (memory store presets, file store, compressed wrappers - the latter
// two use the trait's default put_batch / get_batch): one record id per blob, one blob per id, in request order; an id that
// does not exist (any more) makes the batch an error
// ---------------------------------------------------------------------------------------------

/// ops: kind * 1000 + len.  1 put_batch(len blobs), 2 put, 3 remove the (len)-th live record, 4 get_batch of every live id in a
/// shuffled order with one id twice, 5 get_batch with an id that was removed / never existed in the middle, 6 len / is_empty /
/// contains / size, 7 get, 8 put_batch of [empty, 70000 bytes, 1 byte]
async fn store_hist<S: AsyncBlobStore>(store: S, seed: u64, ops: &[i64], compressed: bool) -> Option<String> {
    let mut live: Vec<(u32, Vec<u8>)> = vec![];
    let mut dead: Vec<u32> = vec![];
    let mut r = Rng::new(seed);
    for (k, &o) in ops.iter().enumerate() {
        let (kind, len) = (o / 1000, (o % 1000) as usize);
        let bad = |what: String| Some(format!("op {} ({}): {}", k, o, what));
        match kind {
            1 | 8 => {
                let blobs: Vec<Vec<u8>> = if kind == 8 { vec![vec![], (0..70000).map(|i| (i % 251) as u8).collect(), vec![7]] } else { (0..len).map(|j| { let l = r.below(40) as usize; let mut b = r.bytes(l); b.push(j as u8); b }).collect() };
                let ids = match store.put_batch(blobs.iter().map(|b| b.as_slice()).collect()).await { Ok(i) => i, Err(e) => return bad(format!("put_batch failed: {:?}", e)) };
                if ids.len() != blobs.len() { return bad(format!("put_batch returned {} ids for {} blobs", ids.len(), blobs.len())); }
                for (id, b) in ids.into_iter().zip(blobs) {
                    if live.iter().any(|(i, _)| *i == id) { return bad(format!("put_batch returned the id {} of a live record", id)); }
                    live.push((id, b));
                }
            }
            2 => {
                let b = r.bytes(len % 50);
                match store.put(&b).await { Ok(id) => { if live.iter().any(|(i, _)| *i == id) { return bad(format!("put returned the id {} of a live record", id)); } live.push((id, b)); } Err(e) => return bad(format!("put failed: {:?}", e)) }
            }
            3 => { if !live.is_empty() { let (id, _) = live.remove(len % live.len()); if store.remove(id).await.is_err() { return bad(format!("remove({}) of a live record failed", id)); } dead.push(id); } }
            4 => {
                let mut req: Vec<usize> = (0..live.len()).collect();
                for i in (1..req.len()).rev() { let j = r.below(i as u64 + 1) as usize; req.swap(i, j); }
                if let Some(&d) = req.first() { req.push(d); }
                let got = store.get_batch(req.iter().map(|&i| live[i].0).collect()).await.ok();
                let want = Some(req.iter().map(|&i| live[i].1.clone()).collect::<Vec<_>>());
                if got != want { return bad(format!("get_batch: {}", match (&got, &want) { (Some(g), Some(w)) if g.len() == w.len() => format!("blob {} of {} is not the blob of the id at that position", (0..g.len()).find(|&i| g[i] != w[i]).unwrap(), g.len()), (Some(g), Some(w)) => format!("{} blobs for {} ids", g.len(), w.len()), _ => "an error although every id is live".to_string() })); }
            }
            5 => {
                let missing = dead.last().cloned().unwrap_or(4_000_000_000);
                let mut req: Vec<u32> = live.iter().map(|(i, _)| *i).collect();
                req.insert(req.len() / 2, missing);
                if let Ok(v) = store.get_batch(req.clone()).await { return bad(format!("get_batch of {} ids, one of which ({}) does not exist, returned Ok with {} blobs", req.len(), missing, v.len())); }
            }
            6 => {
                let (l, e) = (store.len().await, store.is_empty().await);
                if l != live.len() || e != live.is_empty() { return bad(format!("len() = {}, is_empty() = {} with {} live records", l, e, live.len())); }
                for (id, b) in live.iter().take(4) {
                    if !store.contains(*id).await { return bad(format!("contains({}) is false for a live record", id)); }
                    if !compressed { if let Ok(s) = store.size(*id).await { if s != Some(b.len()) { return bad(format!("size({}) = {:?} for a record of {} bytes", id, s, b.len())); } } }
                }
                if let Some(&d) = dead.last() { if store.contains(d).await { return bad(format!("contains({}) is true for a removed record", d)); } }
                let _ = (store.flush().await, store.stats().await);
            }
            _ => { if !live.is_empty() { let (id, b) = &live[len % live.len()]; if store.get(*id).await.ok().as_ref() != Some(b) { return bad(format!("get({}) does not return the record's blob", id)); } } }
        }
    }
    None
}
/// which: 0 AsyncMemoryBlobStore::new, 1 ::with_capacity(0), 2 ::default, 3 AsyncFileStore, 4 AsyncCompressedBlobStore(memory), 5 (file)
fn stores_case(cx: &mut Ctx, which: u64, rt: usize, seed: u64, ops: &[i64]) {
    let cell = ["AsyncMemoryBlobStore/history", "AsyncMemoryBlobStore/history", "AsyncMemoryBlobStore/history", "AsyncFileStore/history (default batch operations)",
                "AsyncCompressedBlobStore/history (default batch operations)", "AsyncCompressedBlobStore/history (default batch operations)"][which as usize];
    let case = json!({"cell": "stores", "kind": 27, "which": which, "rt": rt, "seed": seed, "ops": ops});
    cx.sum.eval(cell, &format!("sb {} {} {} {:?}", which, rt, seed, ops), ops.len() >= 3);
    s_only(cx, cell);
    let opv = ops.to_vec();
    let dir = if which == 3 || which == 5 { Some(cx.objs.tmp_dir("store")) } else { None };
    let d2 = dir.clone();
    let r = guarded(|| with_rt(rt, async move {
        tokio::time::timeout(Duration::from_secs(20), async move {
            match which {
                0 => store_hist(AsyncMemoryBlobStore::new(), seed, &opv, false).await,
                1 => store_hist(AsyncMemoryBlobStore::with_capacity(0), seed, &opv, false).await,
                2 => store_hist(AsyncMemoryBlobStore::default(), seed, &opv, false).await,
                3 => match AsyncFileStore::new(d2.unwrap()).await { Ok(s) => store_hist(s, seed, &opv, false).await, Err(e) => Some(format!("AsyncFileStore::new failed: {:?}", e)) },
                4 => store_hist(AsyncCompressedBlobStore::new(AsyncMemoryBlobStore::new(), 3), seed, &opv, true).await,
                _ => match AsyncFileStore::new(d2.unwrap()).await { Ok(s) => store_hist(AsyncCompressedBlobStore::new(s, 1), seed, &opv, true).await, Err(e) => Some(format!("AsyncFileStore::new failed: {:?}", e)) },
            }
        }).await
    }));
    if let Some(d) = dir { let _ = std::fs::remove_dir_all(d); }
    match r {
        Err(p) => cx.sum.fail(cell, None, case, &format!("panicked: {}", p)),
        Ok(Err(_)) => cx.sum.fail(cell, None, case, "did not return (20 s)"),
        Ok(Ok(Some(p))) => cx.sum.fail(cell, None, case, &p),
        Ok(Ok(None)) => {}
    }
}

// ---------------------------------------------------------------------------------------------
// cell: process_files_parallel over real files, the processor being the library's own whole-file helpers (FiberAio::write_all /
// read_to_vec / copy); file sizes around the read buffer (64 KiB) and the read-ahead window (256 KiB); result i is file i
// ---------------------------------------------------------------------------------------------

fn aio_cfg(preset: u64) -> FiberAioConfig {
    let d = FiberAioConfig::default();
    match preset {
        0 => d,
        1 => FiberAioConfig { io_provider: IoProvider::Auto, read_buffer_size: 4096, write_buffer_size: 4096, read_ahead_size: 8192, ..d },
        2 => FiberAioConfig { io_provider: IoProvider::Tokio, read_buffer_size: 1, write_buffer_size: 1, read_ahead_size: 1, enable_vectored_io: false, ..d },
        _ => FiberAioConfig { read_buffer_size: 1 << 20, read_ahead_size: 4096, enable_direct_io: true, ..d },
    }
}
const AIO_SIZES: [usize; 12] = [0, 1, 4095, 4096, 65535, 65536, 65537, 131072, 262143, 262144, 262145, 300000];
/// file j has AIO_SIZES[(seed + j) % 12] bytes (with the 1-byte buffers of preset 2, where every byte is a round trip to the blocking
/// pool: 0, 1, 300 or 511 bytes), byte i of it is (i * 31 + j * 7 + seed) mod 251
fn aiofiles_case(cx: &mut Ctx, rt: usize, preset: u64, nfiles: usize, limit: usize, seed: u64) {
    let cell = "FiberIoUtils::process_files_parallel (FiberAio whole-file helpers)";
    let case = json!({"cell": "aiofiles", "kind": 28, "rt": rt, "preset": preset, "n": nfiles, "limit": limit, "seed": seed, "ops": []});
    cx.sum.eval(cell, &format!("af {} {} {} {} {}", rt, preset, nfiles, limit, seed), nfiles >= 2);
    s_only(cx, cell);
    let dir = cx.objs.tmp_dir("aio");
    let d2 = dir.clone();
    // (preset 2 has 1-byte buffers: every byte is four round trips to the blocking pool, so its files stay below 600 bytes - on a
    // loaded machine two 4 KiB files took longer than the 30 s after which a case is declared hung)
    let content = move |j: usize| -> Vec<u8> { let n = if preset == 2 { [0usize, 1, 300, 511][(seed as usize + j) % 4] } else { AIO_SIZES[(seed as usize + j) % 12] }; (0..n).map(|i| ((i * 31 + j * 7 + seed as usize) % 251) as u8).collect() };
    let r = guarded(|| with_rt(rt, async move {
        tokio::time::timeout(Duration::from_secs(90), async move {
            let aio = match if preset == 0 && seed % 2 == 0 { FiberAio::new() } else { FiberAio::with_config(aio_cfg(preset)) } { Ok(a) => Arc::new(a), Err(e) => return Some(format!("FiberAio could not be built: {:?}", e)) };
            let _ = (aio.io_provider(), aio.config().read_buffer_size);
            let paths: Vec<String> = (0..nfiles).map(|j| d2.join(format!("f{}", j)).to_string_lossy().to_string()).collect();
            for (j, p) in paths.iter().enumerate() { if let Err(e) = aio.write_all(p, &content(j)).await { return Some(format!("write_all of file {} failed: {:?}", j, e)); } }
            let a2 = aio.clone();
            let got = FiberIoUtils::process_files_parallel(paths.clone(), limit, move |p: String| -> Pin<Box<dyn Future<Output = ZResult<Vec<u8>>> + Send>> {
                let a3 = a2.clone();
                Box::pin(async move {
                    let dst = format!("{}.copy", p);
                    let copied = a3.copy(&p, &dst).await?;
                    let back = a3.read_to_vec(&dst).await?;
                    if copied != back.len() as u64 { return Err(ZiporaError::invalid_data("copy count")); }
                    Ok(back)
                })
            }).await;
            match got {
                Err(e) => Some(format!("process_files_parallel failed: {:?}", e)),
                Ok(v) => {
                    if v.len() != nfiles { return Some(format!("{} results for {} files", v.len(), nfiles)); }
                    for j in 0..nfiles { if v[j] != content(j) { return Some(format!("result {} ({} bytes) is not the content of file {} ({} bytes) copied and read back", j, v[j].len(), j, content(j).len())); } }
                    None
                }
            }
        }).await
    }));
    let _ = std::fs::remove_dir_all(dir);
    match r {
        Err(p) => cx.sum.fail(cell, None, case, &format!("panicked: {}", p)),
        Ok(Err(_)) => cx.sum.fail(cell, None, case, "did not return (90 s)"),
        Ok(Ok(Some(p))) => cx.sum.fail(cell, None, case, &p),
        Ok(Ok(None)) => {}
    }
}

// ---------------------------------------------------------------------------------------------
// cell: concurrency::spawn_blocking, Fiber / spawn / FiberHandle (abort) outside a pool
// ---------------------------------------------------------------------------------------------
fn blocking_case(cx: &mut Ctx, rt: usize, xs: &[i64]) {
    let cell = "concurrency::spawn_blocking / spawn / Fiber";
    let case = json!({"cell": "blocking", "kind": 29, "rt": rt, "ops": xs});
    cx.sum.eval(cell, &format!("bl {} {:?}", rt, xs), xs.len() >= 2);
    s_only(cx, cell);
    let xv = xs.to_vec();
    let r = guarded(|| with_rt(rt, async move {
        tokio::time::timeout(HANG, async move {
            // all started first, awaited in order: result i belongs to closure i; a panicking closure is an error
            let mut hs = vec![];
            for &x in &xv { hs.push(tokio::spawn(zipora::concurrency::spawn_blocking(move || stage_p(x)))); }
            for (i, h) in hs.into_iter().enumerate() {
                let got = match h.await { Ok(r) => r.ok(), Err(_) => return Some(format!("spawn_blocking for item {} let a panic escape", i)) };
                let want = seq_map(&[xv[i]], true).map(|v| v[0]);
                if got != want { return Some(format!("spawn_blocking for item {} returned {:?}, want {:?}", i, got, want)); }
            }
            // Fiber::new + WorkStealingExecutor::spawn, handles aborted or awaited
            let mut hs = vec![];
            let mut ids = vec![];
            for &x in &xv {
                let f = zipora::concurrency::Fiber::new(async move { tokio::task::yield_now().await; stage(x) });
                ids.push(f.id());
                hs.push(WorkStealingExecutor::spawn(f));
            }
            for i in 0..ids.len() { for j in 0..i { if ids[i] == ids[j] { return Some(format!("fibers {} and {} have the same id", j, i)); } } }
            for (i, h) in hs.into_iter().enumerate() {
                let got = h.await.ok();
                if got != stage(xv[i]).ok() { return Some(format!("the handle of fiber {} yields {:?}, its future yields {:?}", i, got, stage(xv[i]).ok())); }
            }
            let (tx, rx) = tokio::sync::oneshot::channel::<()>();
            let h = zipora::concurrency::spawn(async move { let _ = rx.await; Ok(1i64) });
            tokio::task::yield_now().await;
            h.abort();
            let _ = tx.send(());
            if h.await.is_ok() { return Some("a fiber aborted before it could finish yields Ok".to_string()); }
            None
        }).await
    }));
    match r {
        Err(p) => cx.sum.fail(cell, None, case, &format!("panicked: {}", p)),
        Ok(Err(_)) => cx.sum.fail(cell, None, case, "did not return (8 s)"),
        Ok(Ok(Some(p))) => cx.sum.fail(cell, None, case, &p),
        Ok(Ok(None)) => {}
    }
}

// ---------------------------------------------------------------------------------------------
// replay and generation
// ---------------------------------------------------------------------------------------------
pub fn run_one(cx: &mut Ctx, c: &Value) -> bool {
    let ops = ints(&c["ops"]);
    let rt = u(&c["rt"], 0).min(8) as usize;
    match c["cell"].as_str().unwrap_or("") {
        "life" => {
            let ops: Vec<i64> = ops.into_iter().filter(|&o| is_task_code(o) || (1..=3).contains(&o)).collect();
            life_case(cx, u(&c["nw"], 1).max(1) as usize, u(&c["cap"], 4) as usize, rt, &ops)
        }
        "global" => global_case(cx, &ops),
        "poolops" => {
            let ops: Vec<i64> = ops.into_iter().filter(|&o| (1000..16000).contains(&o)).collect();
            poolops_case(cx, rt, u(&c["preset"], 0).min(4), u(&c["max_fibers"], 2).max(1) as usize, u(&c["mw"], 2) as usize, u(&c["seed"], 1), &ops)
        }
        "pipeops" => {
            let ops: Vec<i64> = ops.into_iter().filter(|&o| (1000..15000).contains(&o)).collect();
            pipeops_case(cx, rt, u(&c["preset"], 0).min(5), u(&c["seed"], 1), &ops)
        }
        "collector_t" => {
            let ops: Vec<i64> = ops.into_iter().filter(|&o| o >= 1000 || o == 1 || o == 2).collect();
            collector_t_case(cx, u(&c["ty"], 0).min(2), u(&c["maxb"], 2) as usize, c["tz"].as_bool().unwrap_or(false), &ops)
        }
        "big" => big_case(cx, u(&c["which"], 0).min(16), rt, u(&c["n"], 10).min(2_000_000) as usize, u(&c["seed"], 1), u(&c["param"], 1) as usize, c["fail"].as_i64().unwrap_or(-1)),
        "yieldops" => {
            let ops: Vec<i64> = ops.into_iter().filter(|&o| (1..=10).contains(&o) || (100..100_000).contains(&o)).collect();
            yieldops_case(cx, u(&c["obj"], 0).min(4), u(&c["preset"], 0).min(6), u(&c["param"], 1) as usize, &ops)
        }
        "stores" => {
            let ops: Vec<i64> = ops.into_iter().filter(|&o| (1000..9000).contains(&o)).collect();
            stores_case(cx, u(&c["which"], 0).min(5), rt, u(&c["seed"], 1), &ops)
        }
        "aiofiles" => aiofiles_case(cx, rt, u(&c["preset"], 0).min(3), u(&c["n"], 2).min(64) as usize, u(&c["limit"], 1) as usize, u(&c["seed"], 1)),
        "blocking" => blocking_case(cx, rt, &ops),
        _ => return false,
    }
    true
}

pub fn generate(cx: &mut Ctx) {
    let thorough = cx.thorough;
    // (a) the library's own task type in the queue / executor cells: ClosureTask (tk 1) and submit_closure (tk 2)
    for tk in 1..=2u8 {
        cx.tk = tk;
        let alpha = [1001i64, 1003, 1000, 1, 2, 3];
        if tk == 1 {
            for len in 1..=3 { enumerate_queue(cx, len, &alpha, 3, 1); }
            enumerate_queue(cx, 5, &alpha, 3, if thorough { 3 } else { 41 });
        }
        let alpha2 = [1001i64, 1003, 1000, 10, 11, 30, 31];
        for len in 1..=3 { enumerate_hist(cx, len, &alpha2, 2, 2, if tk == 1 { 1 } else { 2 }); }
        enumerate_hist(cx, 5, &[1001i64, 1003, 1000, 10, 30], 1, 4, if thorough { 1 } else { 13 });
        for k in 0..(if thorough { 2000 } else { 100 }) {
            let mut r = cx.rng.clone();
            let nw = *r.pick(&[1usize, 1, 2, 3, 4]);
            let cap = *r.pick(&[0usize, 1, 2, 3, 4, 8]);
            let len = r.range(2, if k % 8 == 0 { 60 } else { 24 }) as usize;
            let prio_mix = r.below(4);
            let ops: Vec<i64> = (0..len).map(|_| if r.below(10) < 6 { rand_code(&mut r, prio_mix, false) } else { match r.below(8) { 0..=3 => 10 + r.below(nw as u64) as i64, 4 | 5 => 30 + r.below(nw as u64) as i64, 6 => 5, _ => 6 } }).collect();
            let qops: Vec<i64> = ops.iter().map(|&o| if o >= 1000 { o } else { [1i64, 2, 3, 4][(o % 4) as usize] }).collect();
            cx.rng = r;
            hist_case(cx, nw, cap, &ops, false);
            if tk == 1 { queue_case(cx, cap, (k % 2) as u64, &qops, false); }
        }
        if tk == 1 {
            for _ in 0..(if thorough { 40 } else { 4 }) {
                let mut r = cx.rng.clone();
                let n = r.range(20, 300) as usize;
                let codes: Vec<i64> = (0..n).map(|_| rand_code(&mut r, 3, false)).collect();
                let (cap, th, be) = (*r.pick(&[2usize, 8, 64]), *r.pick(&[1usize, 2]), *r.pick(&[1usize, 4]));
                cx.rng = r;
                queue_threads_case(cx, cap, th, &codes, be);
            }
        }
        // the running executor: the boundary grid on fewer points, the balance trigger, idle workers, waves
        for &(nw, cap, n, rt, mode) in &[(1usize, 0usize, 2usize, 0usize, 0u64), (1, 2, 3, 0, 1), (1, 4, 14, 0, 0), (2, 2, 5, 2, 2), (3, 1, 11, 4, 0), (4, 4, 17, 2, 1), (1, 256, 230, 0, 0),
                                          (2, 64, 150, 2, 1), (1, 4, 6, 0, 3), (2, 2, 14, 2, 4), (8, 1, 30, 4, 0), (1, 1, 40, 1, 2)] {
            let mut r = cx.rng.clone();
            let pm = r.below(4);
            let codes: Vec<i64> = (0..n).map(|_| rand_code(&mut r, pm, true)).collect();
            cx.rng = r;
            exec_case(cx, nw, cap, rt, mode, &codes, false);
        }
        for &(cap, n) in &[(0usize, 5usize), (4, 9), (256, 205), (8, 120)] {
            let mut r = cx.rng.clone();
            let codes: Vec<i64> = (0..n).map(|_| rand_code(&mut r, 2, false)).collect();
            cx.rng = r;
            order_case(cx, cap, &codes, false);
        }
    }
    cx.tk = 0;
    // worker counts and capacities far from the small ones: 64 workers; queues of 2^16 and 2^20 slots
    for &(nw, cap, n, rt) in &[(64usize, 1usize, 200usize, 0usize), (64, 0, 70, 2), (2, 1 << 16, 300, 2), (1, 1 << 20, 120, 0), (16, 2, 4000, 4)] {
        let mut r = cx.rng.clone();
        let codes: Vec<i64> = (0..n).map(|_| rand_code(&mut r, 3, n < 1000)).collect();
        cx.rng = r;
        exec_case(cx, nw, cap, rt, 0, &codes, false);
    }

    // (b) lifecycles: waves on one executor, statistics at rest, shutdown, submissions after the shutdown
    {
        let shapes: Vec<(usize, usize, usize)> = vec![(1, 2, 0), (1, 0, 0), (2, 2, 2), (3, 1, 4), (1, 64, 1), (4, 4, 2)];
        for (si, &(nw, cap, rt)) in shapes.iter().enumerate() {
            for variant in 0..(if thorough { 6 } else { 2 }) {
                let mut r = cx.rng.clone();
                let mut ops: Vec<i64> = vec![];
                let waves = r.range(2, 4);
                for w in 0..waves {
                    let n = match r.below(3) { 0 => r.range(1, 4) as usize, 1 => nw * cap + r.range(0, 3) as usize, _ => r.range(5, 30) as usize };
                    for _ in 0..n { ops.push(rand_code(&mut r, 2, true)); }
                    if w % 2 == 1 || r.chance(1, 2) { ops.push(2); }
                    ops.push(1);
                }
                if (si + variant) % 2 == 0 {
                    ops.push(3);
                    for _ in 0..r.range(1, 3) { ops.push(rand_code(&mut r, 1, false)); }
                }
                cx.rng = r;
                if si == 0 && variant == 0 { cx.sum.sample(json!({"cell": "life", "nw": nw, "cap": cap, "rt": rt, "ops": ops})); }
                life_case(cx, nw, cap, rt, &ops);
            }
        }
    }

    // (c) one FiberPool, many operations
    {
        let npo = if thorough { 300 } else { 36 };
        for k in 0..npo {
            let mut r = cx.rng.clone();
            let preset = (k % 5) as u64;
            let rt = *r.pick(&[0usize, 0, 2, 4]);
            let mf = *r.pick(&[1usize, 1, 2, 3, 8]);
            let mw = *r.pick(&[0usize, 1, 2, 3, 7]);
            let nops = r.range(3, 9) as usize;
            let mut ops: Vec<i64> = (0..nops).map(|_| {
                let kind = *r.pick(&[1i64, 2, 3, 4, 5, 6, 7, 8, 9, 9, 10, 11, 12, 13, 14, 15]);
                let len = match r.below(5) { 0 => 0, 1 => 1, 2 => mf as u64 + r.below(3), 3 => r.range(2, 12), _ => r.range(13, 40) };
                kind * 1000 + len as i64
            }).collect();
            // what a failed, panicked or aborted fiber leaves behind is read by the operations after it
            if k % 3 == 0 { ops.insert(0, 3000 + mf as i64 + 2); ops.insert(1, 9000 + 2 * mf as i64 + 3); ops.push(13000); ops.push(1000 + mf as i64 + 1); }
            let seed = r.next() % 100_000;
            cx.rng = r;
            if k < 1 { cx.sum.sample(json!({"cell": "poolops", "rt": rt, "preset": preset, "max_fibers": mf, "mw": mw, "seed": seed, "ops": ops})); }
            poolops_case(cx, rt, preset, mf, mw, seed, &ops);
        }
    }

    // (d) one Pipeline, many operations
    {
        let npi = if thorough { 300 } else { 36 };
        for k in 0..npi {
            let mut r = cx.rng.clone();
            let preset = (k % 6) as u64;
            let rt = *r.pick(&[0usize, 0, 2]);
            let nops = r.range(3, 9) as usize;
            let mut ops: Vec<i64> = (0..nops).map(|_| {
                let kind = *r.pick(&[1i64, 2, 3, 4, 5, 6, 7, 8, 9, 10, 10, 11, 11, 12, 13, 14]);
                let len = match r.below(5) { 0 => 0, 1 => 1, 2 => 2 + r.below(2), 3 => r.range(3, 12), _ => r.range(13, 40) };
                kind * 1000 + len as i64
            }).collect();
            if k % 3 == 0 { ops.insert(0, 11000 + 9); ops.insert(1, 7000 + 5); ops.push(14000); ops.push(10000 + 11); ops.push(1000 + 6); }
            let seed = r.next() % 100_000;
            cx.rng = r;
            if k < 1 { cx.sum.sample(json!({"cell": "pipeops", "rt": rt, "preset": preset, "seed": seed, "ops": ops})); }
            pipeops_case(cx, rt, preset, seed, &ops);
        }
    }

    // (e) BatchCollector over unit / u8 / String items, batch limits 0, 1, usize::MAX
    for k in 0..(if thorough { 600 } else { 60 }) {
        let mut r = cx.rng.clone();
        let maxb = *r.pick(&[0usize, 1, 1, 2, 3, 5, usize::MAX]);
        let len = r.range(0, 24) as usize;
        let ops: Vec<i64> = (0..len).map(|i| if r.chance(3, 4) { 1000 + i as i64 } else { *r.pick(&[1i64, 2]) }).collect();
        let tz = r.chance(1, 2);
        cx.rng = r;
        collector_t_case(cx, (k % 3) as u64, maxb, tz, &ops);
    }

    // (f) thresholds and big inputs
    {
        let ncpu = FiberPoolConfig::default().initial_workers.max(1);
        // the yield budget (16, reset at 0; u8): item counts 15..18, 31..34, 255..258 at yield interval 1, and intervals around them
        for &n in &[15usize, 16, 17, 18, 32, 33, 34, 255, 256, 257, 300] {
            for which in 7..=9u64 { for &iv in &[1usize, 16, 17] { if iv == 1 || n <= 34 { big_case(cx, which, 0, n, 7 + n as u64, iv, -1); } } }
            big_case(cx, 10, 0, n, 11 + n as u64, 16, if n % 2 == 0 { (n / 2) as i64 } else { -1 });
        }
        // the number of CPUs (chunking of concurrency::parallel_reduce, default max_workers = 2 * cpus, default max_fibers = 4 * cpus)
        for &n in &[ncpu - 1, ncpu, ncpu + 1, 2 * ncpu - 1, 2 * ncpu, 2 * ncpu + 1, 4 * ncpu, 4 * ncpu + 1, 4 * ncpu * 3 + 5] {
            if n == 0 { continue; }
            big_case(cx, 3, 2, n, 100 + n as u64, 0, -1);
            big_case(cx, 3, 0, n, 200 + n as u64, 0, (n - 1) as i64);
            big_case(cx, 2, 2, n, 300 + n as u64, 2 * ncpu, -1);
        }
        // batch size 100, buffer size 1000, in-flight limit 10000 of the default pipeline configuration; 4096; 2^16
        let sizes: Vec<usize> = if thorough { vec![99, 100, 101, 999, 1000, 1001, 2500, 4095, 4096, 4097, 9999, 10000, 10001, 65535, 65536, 65537, 200_000] } else { vec![100, 101, 1000, 1001, 4097, 10001, 65537] };
        for (i, &n) in sizes.iter().enumerate() {
            let seed = 1000 + n as u64;
            let fail = if i % 3 == 2 { (n - 1) as i64 } else { -1 };
            for which in [4u64, 5, 6] { big_case(cx, which, if which == 6 { 2 } else { 0 }, n, seed, if which == 6 { [1usize, 64, 1000][i % 3] } else { 0 }, fail); }
            big_case(cx, 16, 0, n, seed, [4096usize, 100, 65536, 1, 0][i % 5], -1);
            if n >= 4097 || thorough {
                big_case(cx, 0, [0usize, 2][i % 2], n, seed, [1usize, 4, 64][i % 3], fail);
                big_case(cx, 1, 2, n, seed, 0, fail);
                big_case(cx, 2, 0, n, seed, [7usize, 3, 1000, 0][i % 4], fail);
                big_case(cx, 3, 2, n, seed, 0, fail);
                big_case(cx, 13, 2, n, seed, 3, -1);
                big_case(cx, 15, 2, n, seed, 5, fail);
                big_case(cx, 7, 0, n, seed, [1usize, 4096, 0][i % 3], fail);
                big_case(cx, 8, 0, n, seed, [4096usize, 1, 65536][i % 3], -1);
                big_case(cx, 9, 0, n, seed, [255usize, 256, 1][i % 3], fail);
                big_case(cx, 10, 0, n, seed, [4096usize, 1, n, n + 1][i % 4], fail);
                big_case(cx, 11, 2, n.min(20_000), seed, [1usize, 64, 100_000][i % 3], -1);
                big_case(cx, 12, 2, n.min(20_000), seed, [64usize, 1, 100_000][i % 3], if fail >= 0 { 17 } else { -1 });
                big_case(cx, 14, 0, n, seed, [0usize, 16, 1 << 16][i % 3], -1);
            }
        }
    }

    // (g) yield points
    {
        let nyo = if thorough { 400 } else { 56 };
        for k in 0..nyo {
            let mut r = cx.rng.clone();
            let obj = (k % 5) as u64;
            let preset = (k / 5 % 7) as u64;
            let param = *r.pick(&[0usize, 1, 2, 16, 17]);
            let len = r.range(3, 14) as usize;
            let mut ops: Vec<i64> = (0..len).map(|_| *r.pick(&[1i64, 1, 2, 3, 4, 5, 6, 7, 8, 9, 9, 10, 117, 133, 140])).collect();
            if k % 4 == 0 { ops.push(100 + 300); ops.push(7); ops.push(100 + 20); ops.push(6); ops.push(100 + 40); }
            cx.rng = r;
            yieldops_case(cx, obj, preset, param, &ops);
        }
    }

    // (h) blob store histories
    {
        let nst = if thorough { 240 } else { 30 };
        for k in 0..nst {
            let mut r = cx.rng.clone();
            let which = (k % 6) as u64;
            let rt = *r.pick(&[0usize, 2]);
            let nops = r.range(3, if which == 3 || which == 5 { 7 } else { 12 }) as usize;
            let mut ops: Vec<i64> = vec![1000 + r.range(1, 6) as i64];
            for _ in 0..nops { let kind = *r.pick(&[1i64, 1, 2, 3, 3, 4, 4, 5, 5, 6, 7]); ops.push(kind * 1000 + r.below(if which == 3 || which == 5 { 6 } else { 20 }) as i64); }
            if k % 6 < 3 || k % 4 == 0 { ops.push(8000); ops.push(4000); }
            let seed = r.next() % 100_000;
            cx.rng = r;
            stores_case(cx, which, rt, seed, &ops);
        }
    }

    // (i) files
    for k in 0..(if thorough { 24 } else { 4 }) {
        let mut r = cx.rng.clone();
        let nfiles = r.range(2, 7) as usize;
        let limit = *r.pick(&[0usize, 1, 2, 16]);
        let seed = r.next() % 1000;
        cx.rng = r;
        aiofiles_case(cx, [0usize, 2][k % 2], (k % 4) as u64, nfiles, limit, seed);
    }

    // (j) spawn_blocking, Fiber, spawn, abort
    for k in 0..(if thorough { 40 } else { 6 }) {
        let mut r = cx.rng.clone();
        let n = r.range(1, 9) as usize;
        let mut xs = rand_items(&mut r, n, (k % 3) as u64);
        if k % 2 == 1 { xs[n / 2] = 64 * (n as i64) + 30; }
        cx.rng = r;
        blocking_case(cx, [0usize, 2, 4][k % 3], &xs);
    }

    // (k) the process-wide executor, the same object in every case
    for k in 0..(if thorough { 60 } else { 10 }) {
        let mut r = cx.rng.clone();
        let n = match k % 4 { 0 => r.range(1, 6) as usize, 1 => 3 * 4 + r.range(0, 3) as usize, 2 => r.range(20, 60) as usize, _ => r.range(100, 130) as usize };
        let pm = r.below(4);
        let codes: Vec<i64> = (0..n).map(|_| rand_code(&mut r, pm, true)).collect();
        cx.rng = r;
        global_case(cx, &codes);
    }
}
