//! C01, second half: rANS-64 (1/2/4/8 streams, adaptive), FSE (every preset, parallel blocks, table reuse),
//! the LZ-style dictionary coders, and the rANS/FSE entry points of entropy::parallel.
//! Oracle (decided on the real code, independent of the Coq model): whenever encoding succeeds, the matching
//! decoder returns exactly the input; a panic is a violation.
//! Correspondence: the models of coq/C01/Model{Rans,Lz,Fse}.v are evaluated on the same inputs with the
//! normalised table read from the real code and compared with what the implementation produced.
use crate::util::*;
use serde_json::{json, Value};
use zipora::entropy::dictionary::{DictionaryBuilder, DictionaryCompressor, OptimizedDictionaryCompressor};
use zipora::entropy::fse::{
    fse_compress, fse_compress_with_config, fse_decompress, fse_decompress_with_config, fse_unzip, fse_zip,
    FseConfig, FseDecoder, FseEncoder, FseTable,
};
use zipora::entropy::parallel::AdaptiveParallelEncoder;
use zipora::entropy::rans::{
    AdaptiveRans64Encoder, ParallelVariant, ParallelX1, ParallelX2, ParallelX4, ParallelX8, Rans64Decoder,
    Rans64Encoder,
};

/// Imports of this half for the shared case header; ops >= 100 are evaluated by `run_case_b`.
pub const HEADER_B: &str = "From ZV.C01 Require Import ModelRans ModelLz ModelFse.\n";
/// What the generators of this half cover (goes into the evidence `rule`).
pub const RULE_B: &str = "rANS/FSE/LZ half: corpus b_*.json; every string of length <= 3 over {0,1,255} x every variant; rANS x1/x2/x4/x8 + adaptive at lengths 0,1,2,N-1,N,N+1,99..101,255..257,4095..4097,65535..65537 x 14 payload families (alphabets 1,2,3,16,255,256, geometric, dominant, dominant + one of every byte, zeros, single symbol, text, runs, periodic) x 6 training relations (same, unrelated, superset, prefix, empty, disjoint), arbitrary tables with extreme counts; FSE x 9 configurations (5 presets + parallel blocks with small block sizes) x the same lengths and block-count boundaries 2,3,64,65,66, convenience functions, table reuse by a non-adaptive encoder, dictionary-seeded encoder; LZ coders x 6 (min,max) settings, repeated blocks of length min-1..max+1, distance-1 and period-3 overlapping matches, window distances 32767..32769, training equal / prefix / unrelated / empty; entropy::parallel adaptive rANS/FSE selection; a case is non-trivial when the payload has >= 2 bytes; distinct = distinct canonical case text";

// ---------------------------------------------------------------------------------------------
// small helpers
// ---------------------------------------------------------------------------------------------
pub fn silence_stdout() {
    // zipora prints "FSE ..." / "Adaptive encoding ..." lines; nothing of ours goes to stdout
    use std::sync::Once;
    static ONCE: Once = Once::new();
    ONCE.call_once(|| unsafe {
        let fd = libc::open(b"/dev/null\0".as_ptr() as *const libc::c_char, libc::O_WRONLY);
        if fd >= 0 {
            libc::dup2(fd, 1);
            libc::close(fd);
        }
    });
}

pub fn counts(d: &[u8]) -> [u32; 256] {
    let mut f = [0u32; 256];
    for &b in d {
        f[b as usize] = f[b as usize].saturating_add(1);
    }
    f
}
fn bytes_of(v: &Value) -> Vec<u8> {
    v.as_array().map(|a| a.iter().map(|x| x.as_u64().unwrap_or(0) as u8).collect()).unwrap_or_default()
}
fn u32s_of(v: &Value) -> Vec<u32> {
    v.as_array().map(|a| a.iter().map(|x| x.as_u64().unwrap_or(0) as u32).collect()).unwrap_or_default()
}
fn short(d: &[u8]) -> String {
    if d.len() <= 24 {
        format!("{:?}", d)
    } else {
        format!("{:?}..(len {})", &d[..24], d.len())
    }
}
pub fn diff_at(a: &[u8], b: &[u8]) -> String {
    if a.len() != b.len() {
        return format!("length {} instead of {}", b.len(), a.len());
    }
    match a.iter().zip(b.iter()).position(|(x, y)| x != y) {
        Some(i) => format!("first difference at index {}: expected {} got {}", i, a[i], b[i]),
        None => "equal".into(),
    }
}
fn key_of(cell: &str, c: &Value) -> String {
    // canonical text of a case without hashing megabytes twice
    let s = c.to_string();
    if s.len() > 4096 {
        let mut h: u64 = 0xcbf29ce484222325;
        for b in s.bytes() {
            h ^= b as u64;
            h = h.wrapping_mul(0x100000001b3);
        }
        format!("{}#{}#{}", cell, s.len(), h)
    } else {
        format!("{}{}", cell, s)
    }
}

pub struct Cx<'a> {
    pub sum: &'a mut Summary,
    pub shards: &'a mut CoqShards,
    pub coq_used: std::collections::HashMap<String, usize>,
    pub coq_limit: usize,
}

// ---------------------------------------------------------------------------------------------
// payload generators
// ---------------------------------------------------------------------------------------------
pub const KINDS: usize = 14;
pub fn kind_name(k: usize) -> &'static str {
    ["alpha1", "alpha2", "alpha3", "alpha16", "alpha255", "alpha256", "geometric", "dominant", "dominant_all",
     "zeros", "single", "text", "runs", "period"][k % KINDS]
}
/// a payload of exactly `len` bytes of the given family
pub fn payload(r: &mut Rng, len: usize, kind: usize) -> Vec<u8> {
    let alpha = |r: &mut Rng, k: usize, len: usize| -> Vec<u8> {
        // k symbols spread over the byte range, including 0 and 255 when k >= 2
        let syms: Vec<u8> = if k >= 256 { (0..=255u8).collect() } else if k == 255 { (1..=255u8).collect() } else if k == 1 { vec![*r.pick(&[b'a', 1u8, 255u8, 128u8])] } else {
            let mut s = vec![0u8, 255u8];
            while s.len() < k { let b = r.next() as u8; if !s.contains(&b) { s.push(b); } }
            s
        };
        let mut d: Vec<u8> = (0..len).map(|_| syms[r.below(syms.len() as u64) as usize]).collect();
        // every symbol present when there is room (so that tables really have k entries)
        if len >= syms.len() { for (i, &s) in syms.iter().enumerate() { d[(i * 7919) % len] = s; } }
        d
    };
    match kind % KINDS {
        0 => alpha(r, 1, len),
        1 => alpha(r, 2, len),
        2 => alpha(r, 3, len),
        3 => alpha(r, 16, len),
        4 => alpha(r, 255, len),
        5 => alpha(r, 256, len),
        6 => {
            // geometric: symbol i with probability ~ 2^-(i+1), base symbol random
            let base = r.next() as u8;
            (0..len).map(|_| { let mut i = 0u8; while i < 40 && r.chance(1, 2) { i += 1; } base.wrapping_add(i.wrapping_mul(7)) }).collect()
        }
        7 => {
            // one dominant symbol, the rest spread over a few others
            let dom = *r.pick(&[b'a', 0u8, 255u8, 7u8]);
            let den = *r.pick(&[20u64, 100, 1000]);
            (0..len).map(|_| if r.chance(1, den) { r.next() as u8 } else { dom }).collect()
        }
        8 => {
            // dominant symbol plus exactly one of every byte value (normalisation rounds 1/len towards zero)
            let dom = *r.pick(&[b'a', 0u8, 255u8, 128u8]);
            let mut d = vec![dom; len];
            if len >= 256 {
                let at_end = r.chance(1, 2);
                for b in 0..256usize {
                    let pos = if at_end { len - 256 + b } else { (b * (len / 256)).min(len - 1) };
                    d[pos] = b as u8;
                }
            } else {
                for (i, x) in d.iter_mut().enumerate() { if i % 2 == 1 { *x = (i * 37) as u8; } }
            }
            d
        }
        9 => vec![0u8; len],
        10 => vec![*r.pick(&[b'x', 1u8, 255u8]); len],
        11 => {
            let words: [&[u8]; 8] = [b"the ", b"quick ", b"brown ", b"fox ", b"compression ", b"entropy ", b"zipora ", b"0123456789 "];
            let mut d = Vec::with_capacity(len + 16);
            while d.len() < len { d.extend_from_slice(words[r.below(8) as usize]); }
            d.truncate(len);
            d
        }
        12 => {
            // runs of random length of random bytes
            let mut d = Vec::with_capacity(len + 300);
            while d.len() < len { let b = r.next() as u8; let n = *r.pick(&[1usize, 2, 9, 10, 11, 257, 258, 259, 300]); for _ in 0..n { d.push(b); } }
            d.truncate(len);
            d
        }
        _ => {
            let p = *r.pick(&[1usize, 2, 3, 7, 10, 11, 64]);
            let pat = r.bytes(p);
            (0..len).map(|i| pat[i % p]).collect()
        }
    }
}

/// training data in a given relation to the payload
pub const RELS: usize = 8;
pub fn rel_name(k: usize) -> &'static str { ["same", "unrelated", "superset", "prefix", "empty", "disjoint", "suffix", "embedded"][k % RELS] }
pub fn training(r: &mut Rng, data: &[u8], rel: usize) -> Vec<u8> {
    match rel % RELS {
        0 => data.to_vec(),
        1 => { let n = *r.pick(&[1usize, 50, 300, 2000]); let k = r.below(KINDS as u64) as usize; payload(r, n, k) }
        2 => { let mut t = data.to_vec(); t.extend(0..=255u8); t }
        3 => data[..data.len() / 2].to_vec(),
        4 => vec![],
        5 => data.iter().map(|b| b.wrapping_add(1)).collect(),
        // the payload without its first bytes / behind a foreign prefix: same substrings at other positions
        6 => { let k = (*r.pick(&[1usize, 3, 7, 40])).min(data.len()); data[k..].to_vec() }
        _ => { let k = *r.pick(&[1usize, 5, 13, 100]); let mut t = r.bytes(k); t.extend_from_slice(data); t }
    }
}

// ---------------------------------------------------------------------------------------------
// rANS
// ---------------------------------------------------------------------------------------------
/// What one encode/decode pair did.  Ok(None): the encoder refused (allowed).
fn rans_pair<P: ParallelVariant>(freq: &[u32; 256], data: &[u8]) -> Result<Option<(Vec<u8>, Vec<u32>)>, String> {
    let enc = match guarded(|| Rans64Encoder::<P>::new(freq)) {
        Err(p) => return Err(format!("Rans64Encoder::new panicked: {}", p)),
        Ok(Err(_)) => return Ok(None),
        Ok(Ok(e)) => e,
    };
    let table: Vec<u32> = (0..256).map(|i| enc.get_symbol(i as u8).freq).collect();
    let bytes = match guarded(|| enc.encode(data)) {
        Err(p) => return Err(format!("encode panicked: {}", p)),
        Ok(Err(_)) => return Ok(None),
        Ok(Ok(b)) => b,
    };
    let dec = match guarded(|| Rans64Decoder::<P>::new(&enc)) {
        Err(p) => return Err(format!("Rans64Decoder::new panicked: {}", p)),
        Ok(d) => d,
    };
    match guarded(|| dec.decode(&bytes, data.len())) {
        Err(p) => Err(format!("decode panicked: {}", p)),
        Ok(Err(e)) => Err(format!("decode failed on the encoder's own output: {}", e)),
        Ok(Ok(out)) => {
            if out == data { Ok(Some((bytes, table))) } else { Err(format!("decoded bytes differ: {}", diff_at(data, &out))) }
        }
    }
}
fn rans_by_n(n: u64, freq: &[u32; 256], data: &[u8]) -> Result<Option<(Vec<u8>, Vec<u32>)>, String> {
    match n {
        1 => rans_pair::<ParallelX1>(freq, data),
        2 => rans_pair::<ParallelX2>(freq, data),
        4 => rans_pair::<ParallelX4>(freq, data),
        _ => rans_pair::<ParallelX8>(freq, data),
    }
}

/// case: {cell:"rans", n, data:[..], freq:[256 x u32]}
fn rans_case(cx: &mut Cx, n: u64, data: &[u8], freq: &[u32; 256], tag: &str, want_coq: bool) {
    let cell = format!("rans/x{}", n);
    let cj = json!({"cell": "rans", "n": n, "tag": tag, "data": data, "freq": freq.to_vec()});
    cx.sum.eval(&cell, &key_of(&cell, &cj), data.len() >= 2);
    cx.sum.dist(&format!("rans_{}", tag));
    match rans_by_n(n, freq, data) {
        Err(e) => cx.sum.fail(&cell, None, cj, &e),
        Ok(None) => {
            // refusing is allowed; refusing data the table covers is worth knowing
            let covered = data.iter().all(|&b| freq[b as usize] > 0);
            cx.sum.dist(if covered && !data.is_empty() { "rans_refused_covered" } else { "rans_refused" });
        }
        Ok(Some((bytes, table))) => {
            cx.sum.dist("rans_roundtrips");
            if want_coq { rans_coq(cx, n, data, freq, &table, &bytes, cj); }
        }
    }
}

fn rans_coq(cx: &mut Cx, n: u64, data: &[u8], freq: &[u32; 256], table: &[u32], bytes: &[u8], cj: Value) {
    // op 101: a = n :: table(256), b = data, expect = 1 :: encoder bytes       (model encoder = implementation)
    // op 102: a = n :: len :: table(256), b = bytes, expect = 1 :: data        (model decoder on the real stream)
    // op 100: a = raw freq, expect = 1 :: table                                  (normalisation)
    if data.len() > 3000 { return; }
    let t: Vec<u128> = table.iter().map(|&x| x as u128).collect();
    let mut a = vec![n as u128]; a.extend(t.iter().cloned());
    let d: Vec<u128> = data.iter().map(|&x| x as u128).collect();
    let mut e = vec![1u128]; e.extend(bytes.iter().map(|&x| x as u128));
    coq_push(cx, 101, &a, &d, &e, &cj);
    let mut a2 = vec![n as u128, data.len() as u128]; a2.extend(t.iter().cloned());
    let b2: Vec<u128> = bytes.iter().map(|&x| x as u128).collect();
    let mut e2 = vec![1u128]; e2.extend(d.iter().cloned());
    coq_push(cx, 102, &a2, &b2, &e2, &cj);
    let raw: Vec<u128> = freq.iter().map(|&x| x as u128).collect();
    let mut e3 = vec![1u128]; e3.extend(t.iter().cloned());
    coq_push(cx, 100, &raw, &[], &e3, &cj);
}

pub fn coq_push(cx: &mut Cx, op: u32, a: &[u128], b: &[u128], expect: &[u128], cj: &Value) {
    // one budget per kind of case (and per FSE configuration), so that no family crowds out the others
    let key = format!("{}:{}", op, cj["preset"].as_str().unwrap_or(""));
    let limit = match op { 100 => cx.coq_limit / 20, 110 => cx.coq_limit / 380, 111 | 112 => cx.coq_limit / 40, _ => cx.coq_limit / 9 };
    let used = cx.coq_used.entry(key).or_insert(0);
    if *used >= limit.max(1) { return; }
    *used += 1;
    let term = format!("({}, {}, {}, {})", op, coq_n_list(a.iter().cloned()), coq_n_list(b.iter().cloned()), coq_n_list(expect.iter().cloned()));
    let mut c = json!({"cell": cj["cell"], "tag": cj["tag"], "coq_op": op});
    if let Some(o) = c.as_object_mut() {
        for k in ["n", "preset", "min", "max", "window"] { if !cj[k].is_null() { o.insert(k.to_string(), cj[k].clone()); } }
        o.insert("data_len".into(), json!(cj["data"].as_array().map(|x| x.len()).unwrap_or(0)));
    }
    cx.shards.push(term, c);
}

fn adaptive_rans_case(cx: &mut Cx, data: &[u8], tag: &str) {
    let cell = "rans/adaptive";
    let cj = json!({"cell": "rans_adaptive", "tag": tag, "data": data});
    cx.sum.eval(cell, &key_of(cell, &cj), data.len() >= 2);
    let ad = AdaptiveRans64Encoder::new();
    let variant = ad.select_variant(data.len());
    let bytes = match guarded(|| ad.encode_adaptive(data)) {
        Err(p) => { cx.sum.fail(cell, None, cj, &format!("encode_adaptive panicked: {}", p)); return; }
        Ok(Err(_)) => { cx.sum.dist("rans_adaptive_refused"); return; }
        Ok(Ok(b)) => b,
    };
    let f = counts(data);
    fn dec<P: ParallelVariant>(f: &[u32; 256], bytes: &[u8], n: usize) -> Result<Vec<u8>, String> {
        let enc = Rans64Encoder::<P>::new(f).map_err(|e| e.to_string())?;
        Rans64Decoder::<P>::new(&enc).decode(bytes, n).map_err(|e| e.to_string())
    }
    let out = guarded(|| match variant {
        "x1" => dec::<ParallelX1>(&f, &bytes, data.len()),
        "x2" => dec::<ParallelX2>(&f, &bytes, data.len()),
        "x4" => dec::<ParallelX4>(&f, &bytes, data.len()),
        _ => dec::<ParallelX8>(&f, &bytes, data.len()),
    });
    match out {
        Err(p) => cx.sum.fail(cell, None, cj, &format!("decode panicked: {}", p)),
        Ok(Err(e)) => cx.sum.fail(cell, None, cj, &format!("variant {}: decode failed: {}", variant, e)),
        Ok(Ok(o)) => if o != data { cx.sum.fail(cell, None, cj, &format!("variant {}: {}", variant, diff_at(data, &o))) } else { cx.sum.dist(&format!("rans_adaptive_{}", variant)) },
    }
}

// ---------------------------------------------------------------------------------------------
// FSE
// ---------------------------------------------------------------------------------------------
pub const PRESETS: [&str; 9] = ["default", "fast", "high", "realtime", "balanced", "par2_bs64", "par4_bs100", "par3_bs1000", "par2_bs4096_simple"];
pub fn fse_config(name: &str) -> FseConfig {
    match name {
        "default" => FseConfig::default(),
        "fast" => FseConfig::fast_compression(),
        "high" => FseConfig::high_compression(),
        "realtime" => FseConfig::realtime(),
        "balanced" => FseConfig::balanced(),
        "par2_bs64" => FseConfig { parallel_blocks: Some(2), block_size: 64, ..FseConfig::default() },
        "par4_bs100" => FseConfig { parallel_blocks: Some(4), block_size: 100, ..FseConfig::default() },
        "par3_bs1000" => FseConfig { parallel_blocks: Some(3), block_size: 1000, ..FseConfig::high_compression() },
        "par1_bs100" => FseConfig { parallel_blocks: Some(1), block_size: 100, ..FseConfig::default() },
        _ => FseConfig { parallel_blocks: Some(2), block_size: 4096, entropy_optimization: false, ..FseConfig::default() },
    }
}

/// case: {cell:"fse", preset, api, data, first (payload compressed before `data` by the same encoder), dict}
/// api: 0 = FseEncoder/FseDecoder with the same config, 1 = fse_compress_with_config/fse_decompress_with_config,
///      2 = fse_compress/fse_decompress (default config only), 3 = fse_zip/fse_unzip
fn fse_case(cx: &mut Cx, preset: &str, api: u64, data: &[u8], first: Option<&[u8]>, dict: Option<&[u8]>, tag: &str, want_coq: bool) {
    let cell = format!("fse/{}{}", preset, match (api, first.is_some(), dict.is_some()) { (_, true, _) => "/reuse", (_, _, true) => "/dict", (1, _, _) => "/fn_config", (2, _, _) => "/fn", (3, _, _) => "/zip", _ => "" });
    let cj = json!({"cell": "fse", "preset": preset, "api": api, "tag": tag, "data": data,
                    "first": first.map(|x| x.to_vec()), "dict": dict.map(|x| x.to_vec())});
    cx.sum.eval(&cell, &key_of(&cell, &cj), data.len() >= 2);
    cx.sum.dist(&format!("fse_{}", tag));
    let cfg = fse_config(preset);
    let compressed: Result<zipora::error::Result<Vec<u8>>, String> = guarded(|| match api {
        1 => fse_compress_with_config(data, cfg.clone()),
        2 => fse_compress(data),
        3 => fse_zip(data),
        _ => {
            let mut enc = match dict { Some(d) => FseEncoder::with_dictionary(cfg.clone(), d.to_vec())?, None => FseEncoder::new(cfg.clone())? };
            if let Some(f) = first { let _ = enc.compress(f); }
            enc.compress(data)
        }
    });
    let bytes = match compressed {
        Err(p) => { cx.sum.fail(&cell, None, cj, &format!("compress panicked: {}", p)); return; }
        Ok(Err(_)) => { cx.sum.dist("fse_refused"); return; }
        Ok(Ok(b)) => b,
    };
    let out = guarded(|| match api {
        1 => fse_decompress_with_config(&bytes, cfg.clone()),
        2 => fse_decompress(&bytes),
        3 => fse_unzip(&bytes),
        _ => FseDecoder::with_config(cfg.clone())?.decompress(&bytes),
    });
    match out {
        Err(p) => cx.sum.fail(&cell, None, cj, &format!("decompress panicked: {}", p)),
        Ok(Err(e)) => cx.sum.fail(&cell, None, cj, &format!("decompress failed on the encoder's own output: {}", e)),
        Ok(Ok(o)) => {
            if o != data { cx.sum.fail(&cell, None, cj, &format!("decoded bytes differ: {}", diff_at(data, &o))); }
            else {
                cx.sum.dist("fse_roundtrips");
                if bytes.len() >= 4 && data.len() >= 100 {
                    let first = u32::from_le_bytes([bytes[0], bytes[1], bytes[2], bytes[3]]);
                    if first as usize != data.len() { cx.sum.dist("fse_parallel_container"); }
                }
                if want_coq && first.is_none() && dict.is_none() { fse_coq(cx, &cfg, data, &bytes, &cj); }
            }
        }
    }
}

/// One FseDecoder object decodes a sequence of streams (each produced by a fresh adaptive encoder): whatever the decoder keeps
/// from one stream (a table, buffers) must not leak into the next.  case: {cell:"fse_seq", preset, payloads}
fn fse_decoder_sequence(cx: &mut Cx, preset: &str, payloads: &[Vec<u8>], tag: &str) {
    let cell = format!("fse/{}/decoder_reuse", preset);
    let cj = json!({"cell": "fse_seq", "preset": preset, "tag": tag, "payloads": payloads});
    cx.sum.eval(&cell, &key_of(&cell, &cj), payloads.iter().any(|p| p.len() >= 2));
    cx.sum.dist(&format!("fse_seq_{}", tag));
    let cfg = fse_config(preset);
    let r = guarded(|| -> Result<Option<String>, String> {
        let mut dec = FseDecoder::with_config(cfg.clone()).map_err(|e| format!("decoder refused: {}", e))?;
        for (i, p) in payloads.iter().enumerate() {
            let z = match FseEncoder::new(cfg.clone()).and_then(|mut e| e.compress(p)) { Ok(z) => z, Err(_) => continue };
            match dec.decompress(&z) {
                Ok(o) if &o == p => {}
                Ok(o) => return Ok(Some(format!("stream {} of the sequence decodes wrongly on the reused decoder: {}", i, diff_at(p, &o)))),
                Err(e) => return Ok(Some(format!("stream {} of the sequence: decompress failed on the encoder's own output: {}", i, e))),
            }
        }
        Ok(None)
    });
    match r {
        Err(p) => cx.sum.fail(&cell, None, cj, &format!("panicked: {}", p)),
        Ok(Err(_)) => cx.sum.dist("fse_refused"),
        Ok(Ok(Some(m))) => cx.sum.fail(&cell, None, cj, &m),
        Ok(Ok(None)) => cx.sum.dist("fse_seq_roundtrips"),
    }
}

fn fse_coq(cx: &mut Cx, cfg: &FseConfig, data: &[u8], bytes: &[u8], cj: &Value) {
    // The normalised table is read from the real FseTable (the f64 normaliser is an oracle of the model).
    // op 110: a = table, expect = the 5 fields of every encoding symbol          (init_enc_symbol)
    // op 111: a = par :: block_size :: table, b = raw counts ++ payload, expect = 1 :: compressed bytes
    // op 112: a = table, b = compressed bytes, expect = 1 :: payload             (model decoder on the real stream)
    // (a block container repeats the 256-entry count table in every block: bound the term size, coqc's parser recurses on list literals)
    if data.len() < 99 || data.len() > 4300 || bytes.len() > 12000 { return; }
    let raw = counts(data);
    let table = match guarded(|| FseTable::new(&raw, cfg)) { Ok(Ok(t)) => t, _ => return };
    let t: Vec<u128> = (0..256).map(|i| table.dec_symbols[i].freq as u128).collect();
    let mut fields: Vec<u128> = vec![];
    for i in 0..256 {
        let e = &table.enc_symbols[i];
        fields.extend([e.rcp_freq as u128, e.freq as u128, e.bias as u128, e.cmpl_freq as u128, e.rcp_shift as u128]);
    }
    coq_push(cx, 110, &t, &[], &fields, cj);
    let par = match cfg.parallel_blocks { None => 0u128, Some(k) => k as u128 + 1 };
    let mut a = vec![par, cfg.block_size as u128]; a.extend(t.iter().cloned());
    let mut b: Vec<u128> = raw.iter().map(|&x| x as u128).collect(); b.extend(data.iter().map(|&x| x as u128));
    let mut e = vec![1u128]; e.extend(bytes.iter().map(|&x| x as u128));
    coq_push(cx, 111, &a, &b, &e, cj);
    let zb: Vec<u128> = bytes.iter().map(|&x| x as u128).collect();
    let mut e2 = vec![1u128]; e2.extend(data.iter().map(|&x| x as u128));
    coq_push(cx, 112, &t, &zb, &e2, cj);
}

/// Search for a payload that drives FseEncoder into a state on which FseTable::mul_hi (32-bit limbs, u64
/// accumulators) overflows: a symbol with one slot has rcp_freq = 2^64 - 1, and for a state x = hi * 2^32 + lo
/// with 2^32 * lo + (2^32 - 1) * hi - 1 >= 2^64 the middle term does not fit a u64.  The encoder starts from
/// state 1 and never flushes below 2^36, so the tail of the payload is obtained by *decoding* such a state
/// down to 1 with the real table.  Returns payloads (filler ++ [z] ++ tail).
pub fn fse_mulhi_witnesses(max: usize) -> Vec<Vec<u8>> {
    let mut found = vec![];
    for split in [201usize, 180, 220, 150, 240, 100] {
        for reps in [160usize, 200, 120, 300] {
            let mut counts = [0u32; 256];
            for s in 0..256usize { counts[s] = if s < split { reps as u32 } else { 1 }; }
            let table = match FseTable::new(&counts, &FseConfig::default()) { Ok(t) => t, Err(_) => continue };
            let f: Vec<u64> = (0..256).map(|s| table.dec_symbols[s].freq as u64).collect();
            let st: Vec<u64> = (0..256).map(|s| table.dec_symbols[s].start as u64).collect();
            let ones: Vec<usize> = (split..256).filter(|&s| f[s] == 1).collect();
            if ones.is_empty() { continue; }
            for hi in 1u64..16 {
                for lo in ((1u64 << 32) - hi + 1)..(1u64 << 32) {
                    let mut x = (hi << 32) | lo;
                    let mut tail: Vec<u8> = vec![];
                    for _ in 0..12 {
                        let slot = (x & 4095) as usize;
                        let s = table.alias_table[slot] as usize;
                        if f[s] == 0 { break; }
                        let nx = f[s] * (x >> 12) + slot as u64;
                        if nx < st[s] { break; }
                        let nx = nx - st[s];
                        tail.push(s as u8);
                        if nx == x { break; }
                        x = nx;
                        if x <= 1 { break; }
                    }
                    if x != 1 { continue; }
                    // build the payload: every symbol as often as counted, the tail last, one single-slot symbol before it
                    let mut left = counts;
                    let mut ok = true;
                    for &t in &tail { if left[t as usize] == 0 { ok = false; break; } left[t as usize] -= 1; }
                    if !ok { continue; }
                    let z = match ones.iter().find(|&&s| left[s] > 0) { Some(&z) => z, None => continue };
                    left[z] -= 1;
                    let mut d: Vec<u8> = vec![];
                    for s in 0..256usize { for _ in 0..left[s] { d.push(s as u8); } }
                    d.push(z as u8);
                    d.extend_from_slice(&tail);
                    found.push(d);
                    if found.len() >= max { return found; }
                }
            }
        }
    }
    found
}

// ---------------------------------------------------------------------------------------------
// LZ dictionary coders
// ---------------------------------------------------------------------------------------------
/// case: {cell:"lz", which: 0 plain / 1 optimized, min, max, window, data, train}
fn lz_case(cx: &mut Cx, which: u64, min: usize, max: usize, window: usize, data: &[u8], train: &[u8], tag: &str, want_coq: bool) {
    let cell = if which == 0 { "lz/dictionary" } else { "lz/optimized" };
    let cj = json!({"cell": "lz", "which": which, "min": min, "max": max, "window": window, "tag": tag, "data": data, "train": train});
    cx.sum.eval(cell, &key_of(cell, &cj), data.len() >= 2);
    cx.sum.dist(&format!("lz_{}", tag));
    let res: Result<Result<(Vec<u8>, zipora::error::Result<Vec<u8>>), String>, String> = guarded(|| {
        if which == 0 {
            let dict = DictionaryBuilder::new().build(train);
            let c = DictionaryCompressor::new(dict).min_match_length(min).max_match_length(max);
            match c.compress(data) { Err(e) => Err(e.to_string()), Ok(z) => { let o = c.decompress(&z); Ok((z, o)) } }
        } else {
            let c = match OptimizedDictionaryCompressor::with_config(train, min, max, window) { Ok(c) => c, Err(e) => return Err(e.to_string()) };
            match c.compress(data) { Err(e) => Err(e.to_string()), Ok(z) => { let o = c.decompress(&z); Ok((z, o)) } }
        }
    });
    match res {
        Err(p) => cx.sum.fail(cell, None, cj, &format!("panicked: {}", p)),
        Ok(Err(_)) => cx.sum.dist("lz_refused"),
        Ok(Ok((z, Err(e)))) => { let _ = z; cx.sum.fail(cell, None, cj, &format!("decompress failed on the compressor's own output: {}", e)) }
        Ok(Ok((z, Ok(o)))) => {
            if o != data { cx.sum.fail(cell, None, cj, &format!("decoded bytes differ: {}", diff_at(data, &o))); }
            else {
                cx.sum.dist("lz_roundtrips");
                let matches = count_matches(&z);
                if matches > 0 { cx.sum.dist("lz_streams_with_matches"); }
                cx.sum.dist_max("lz_max_matches_in_a_stream", matches as u64);
                if want_coq { lz_coq(cx, which, min, max, data, &z, &cj); }
            }
        }
    }
}
fn count_matches(z: &[u8]) -> usize {
    let mut i = 0; let mut n = 0;
    while i < z.len() { if z[i] == 1 { n += 1; i += 9; } else { i += 2; } }
    n
}
fn lz_coq(cx: &mut Cx, which: u64, min: usize, max: usize, data: &[u8], z: &[u8], cj: &Value) {
    // op 120: a = the implementation's token stream, expect = 1 :: payload   (model decoder on the real stream)
    // op 121: a = [min, max], b = payload, expect = 1 :: token stream        (model of DictionaryCompressor::compress)
    if data.len() > 700 { return; }
    let zz: Vec<u128> = z.iter().map(|&x| x as u128).collect();
    let d: Vec<u128> = data.iter().map(|&x| x as u128).collect();
    let mut e = vec![1u128]; e.extend(d.iter().cloned());
    coq_push(cx, 120, &zz, &[], &e, cj);
    if which == 0 {
        let mut e2 = vec![1u128]; e2.extend(zz.iter().cloned());
        coq_push(cx, 121, &[min as u128, max as u128], &d, &e2, cj);
    }
}

// ---------------------------------------------------------------------------------------------
// entropy::parallel entry points that go through rANS / FSE
// ---------------------------------------------------------------------------------------------
fn parallel_case(cx: &mut Cx, data: &[u8], tag: &str) {
    let cj = json!({"cell": "parallel", "tag": tag, "data": data});
    let mut enc = match guarded(AdaptiveParallelEncoder::new) { Ok(Ok(e)) => e, _ => { cx.sum.dist("parallel_encoder_unavailable"); return; } };
    let (alg, variant) = enc.select_optimal_encoding(data);
    if alg == "huffman" { cx.sum.dist("parallel_selected_huffman_not_ours"); return; }
    let cell = format!("parallel/adaptive_{}", alg);
    cx.sum.eval(&cell, &key_of(&cell, &cj), data.len() >= 2);
    let bytes = match guarded(|| enc.encode_adaptive(data)) {
        Err(p) => { cx.sum.fail(&cell, None, cj, &format!("encode_adaptive panicked: {}", p)); return; }
        Ok(Err(_)) => { cx.sum.dist("parallel_refused"); return; }
        Ok(Ok(b)) => b,
    };
    fn dec<P: ParallelVariant>(bytes: &[u8], n: usize) -> Result<Vec<u8>, String> {
        // the encoder side is built from a uniform table (AdaptiveParallelEncoder::new)
        let enc = Rans64Encoder::<P>::new(&[1u32; 256]).map_err(|e| e.to_string())?;
        Rans64Decoder::<P>::new(&enc).decode(bytes, n).map_err(|e| e.to_string())
    }
    let out = guarded(|| match (alg, variant) {
        ("rans", "x2") => dec::<ParallelX2>(&bytes, data.len()),
        ("rans", "x4") => dec::<ParallelX4>(&bytes, data.len()),
        ("rans", _) => dec::<ParallelX8>(&bytes, data.len()),
        _ => fse_decompress(&bytes).map_err(|e| e.to_string()),
    });
    match out {
        Err(p) => cx.sum.fail(&cell, None, cj, &format!("decode panicked: {}", p)),
        Ok(Err(e)) => cx.sum.fail(&cell, None, cj, &format!("{} {}: decode failed: {}", alg, variant, e)),
        Ok(Ok(o)) => if o != data { cx.sum.fail(&cell, None, cj, &format!("{} {}: {}", alg, variant, diff_at(data, &o))) } else { cx.sum.dist(&format!("parallel_{}_{}", alg, variant)) },
    }
}

// ---------------------------------------------------------------------------------------------
// replay
// ---------------------------------------------------------------------------------------------
fn run_one(cx: &mut Cx, c: &Value) -> bool {
    let data = bytes_of(&c["data"]);
    let tag = c["tag"].as_str().unwrap_or("replay").to_string();
    match c["cell"].as_str().unwrap_or("") {
        "rans" => {
            let mut f = [0u32; 256];
            for (i, x) in u32s_of(&c["freq"]).iter().enumerate().take(256) { f[i] = *x; }
            rans_case(cx, c["n"].as_u64().unwrap_or(1), &data, &f, &tag, true);
        }
        "rans_adaptive" => adaptive_rans_case(cx, &data, &tag),
        "fse" => {
            let first = if c["first"].is_null() { None } else { Some(bytes_of(&c["first"])) };
            let dict = if c["dict"].is_null() { None } else { Some(bytes_of(&c["dict"])) };
            fse_case(cx, c["preset"].as_str().unwrap_or("default"), c["api"].as_u64().unwrap_or(0), &data, first.as_deref(), dict.as_deref(), &tag, true);
        }
        "fse_seq" => {
            let ps: Vec<Vec<u8>> = c["payloads"].as_array().map(|a| a.iter().map(bytes_of).collect()).unwrap_or_default();
            fse_decoder_sequence(cx, c["preset"].as_str().unwrap_or("default"), &ps, &tag);
        }
        "lz" => lz_case(cx, c["which"].as_u64().unwrap_or(0), c["min"].as_u64().unwrap_or(3) as usize, c["max"].as_u64().unwrap_or(258) as usize,
                        c["window"].as_u64().unwrap_or(32768) as usize, &data, &bytes_of(&c["train"]), &tag, true),
        "parallel" => parallel_case(cx, &data, &tag),
        "fse_mulhi_search" => {
            let ws = fse_mulhi_witnesses(3);
            cx.sum.notes.push(format!("fse_mulhi_search: {} payloads", ws.len()));
            for w in ws { fse_case(cx, "default", 0, &w, None, None, "mulhi_witness", false); }
        }
        _ => return false,
    }
    true
}

pub fn replay_case(sum: &mut Summary, shards: &mut CoqShards, case: &Value) -> bool {
    silence_stdout();
    let mut cx = Cx { sum, shards, coq_used: Default::default(), coq_limit: 100000 };
    run_one(&mut cx, case)
}

// ---------------------------------------------------------------------------------------------
// the run
// ---------------------------------------------------------------------------------------------
fn lens_for(n: usize) -> Vec<usize> {
    let mut v = vec![0, 1, 2, n.saturating_sub(1), n, n + 1, 99, 100, 101, 255, 256, 257, 4095, 4096, 4097, 65535, 65536, 65537];
    v.sort(); v.dedup(); v
}

pub fn run_cells(sum: &mut Summary, shards: &mut CoqShards, rng: &mut Rng, args: &Args) {
    silence_stdout();
    let th = args.thorough;
    let mut cx = Cx { sum, shards, coq_used: Default::default(), coq_limit: if th { 2400 } else { 780 } };
    for c in ["rans/x1", "rans/x2", "rans/x4", "rans/x8", "lz/dictionary"] { cx.sum.cell_status(c, "M+S"); }
    // ---- corpus (b_*.json) ----
    if let Ok(rd) = std::fs::read_dir("corpus/C01") {
        let mut files: Vec<_> = rd.filter_map(|e| e.ok()).map(|e| e.path())
            .filter(|p| p.file_name().and_then(|n| n.to_str()).map(|n| n.starts_with("b_") && n.ends_with(".json")).unwrap_or(false)).collect();
        files.sort();
        for p in files {
            if let Ok(txt) = std::fs::read_to_string(&p) {
                if let Ok(v) = serde_json::from_str::<Value>(&txt) {
                    let c = if v.get("case").is_some() { v["case"].clone() } else { v };
                    if run_one(&mut cx, &c) { cx.sum.dist("corpus_cases_b"); }
                }
            }
        }
    }
    let r = rng;
    // ---- enumerated small universe: all strings of length <= 3 over {0, 1, 255} x every variant ----
    let letters = [0u8, 1, 255];
    let mut small: Vec<Vec<u8>> = vec![vec![]];
    for l in 1..=(if th { 5 } else { 3 }) { let prev: Vec<Vec<u8>> = small.iter().filter(|s| s.len() == l - 1).cloned().collect(); for p in prev { for &x in &letters { let mut q = p.clone(); q.push(x); small.push(q); } } }
    for s in &small {
        for &n in &[1u64, 2, 4, 8] {
            rans_case(&mut cx, n, s, &counts(s), "enum_same", s.len() >= 3 && n <= 2);
            let mut full = [0u32; 256]; for &x in &letters { full[x as usize] = 1; }
            rans_case(&mut cx, n, s, &full, "enum_alphabet", false);
            let mut other = [0u32; 256]; other[1] = 3; other[255] = 1;
            rans_case(&mut cx, n, s, &other, "enum_other_table", false);
        }
        adaptive_rans_case(&mut cx, s, "enum");
        for p in PRESETS { fse_case(&mut cx, p, 0, s, None, None, "enum", false); }
        fse_case(&mut cx, "default", 2, s, None, None, "enum", false);
        fse_case(&mut cx, "default", 3, s, None, None, "enum", false);
        fse_case(&mut cx, "fast", 1, s, None, None, "enum", false);
        for which in 0..2 {
            lz_case(&mut cx, which, 3, 258, 32768, s, s, "enum_same", which == 0 && s.len() >= 3);
            lz_case(&mut cx, which, 3, 258, 32768, s, &[1, 1, 255, 0, 0, 1], "enum_other", false);
            lz_case(&mut cx, which, 3, 258, 32768, s, &[], "enum_empty_train", false);
        }
    }
    // thorough: random strings of length <= 3 over all 256 byte values x every variant
    if th {
        for i in 0..4000 {
            let l = 1 + (i % 3);
            let s: Vec<u8> = r.bytes(l);
            let n = [1u64, 2, 4, 8][i % 4];
            rans_case(&mut cx, n, &s, &counts(&s), "short256_same", false);
            let t = r.bytes(3);
            rans_case(&mut cx, n, &s, &counts(&t), "short256_other", false);
            fse_case(&mut cx, PRESETS[i % PRESETS.len()], 0, &s, None, None, "short256", false);
            lz_case(&mut cx, (i % 2) as u64, 3, 258, 32768, &s, &t, "short256", false);
        }
    }
    // ---- rANS: boundary lengths x payload families x training relations ----
    let mut k = 0usize;
    for &n in &[1u64, 2, 4, 8] {
        for len in lens_for(n as usize) {
            let reps = if len > 5000 { if th { 12 } else { 2 } } else if th { 60 } else { 5 };
            for _ in 0..reps {
                k += 1;
                let kind = k % KINDS;
                let rel = (k / KINDS + k) % RELS;
                let d = payload(r, len, kind);
                let t = training(r, &d, rel);
                let tag = format!("{}_{}", kind_name(kind), rel_name(rel));
                rans_case(&mut cx, n, &d, &counts(&t), &tag, len <= 300 || (len <= 4097 && k % 9 == 0));
            }
        }
    }
    // the witness family of the normaliser: m x one symbol plus one of every byte value
    for &m in &[5000usize, 100000, 4096, 3841, 3840] {
        let mut d = vec![b'a'; m]; d.extend(0..=255u8);
        for &n in &[1u64, 2, 4, 8] { rans_case(&mut cx, n, &d, &counts(&d), "dominant_plus_all_bytes", n == 1 && m == 5000); }
        adaptive_rans_case(&mut cx, &d, "dominant_plus_all_bytes");
    }
    // arbitrary tables (not counted from data): extreme skews, huge counts, sums around u32::MAX
    for i in 0..(if th { 6000 } else { 80 }) {
        let mut f = [0u32; 256];
        let nsym = *r.pick(&[1usize, 2, 3, 16, 255, 256]);
        let mut syms: Vec<u8> = vec![];
        while syms.len() < nsym { let b = if nsym == 256 { syms.len() as u8 } else { r.next() as u8 }; if !syms.contains(&b) { syms.push(b); } }
        for &s in &syms {
            f[s as usize] = match r.below(6) { 0 => 1, 1 => r.range(1, 10) as u32, 2 => r.range(1, 5000) as u32, 3 => 1u32 << r.below(31), 4 => if nsym <= 2 { u32::MAX / 2 } else { r.range(1, 1 << 20) as u32 }, _ => r.range(1, 100000) as u32 };
        }
        let len = *r.pick(&[1usize, 2, 7, 8, 9, 100, 1000]);
        let d: Vec<u8> = (0..len).map(|_| syms[r.below(syms.len() as u64) as usize]).collect();
        let n = *r.pick(&[1u64, 2, 4, 8]);
        rans_case(&mut cx, n, &d, &f, "arbitrary_table", i % 2 == 0 && len <= 100);
    }
    // adaptive front end around its thresholds 73 and 73^2
    for &len in &[0usize, 1, 72, 73, 74, 5328, 5329, 5330, 70000] {
        for kind in [3usize, 5, 7, 8, 11] { let d = payload(r, len, kind); adaptive_rans_case(&mut cx, &d, &format!("len{}", len)); }
    }
    if th { let d = payload(r, 73 * 73 * 73 * 73 + 5, 3); adaptive_rans_case(&mut cx, &d, "x8_threshold"); }

    // ---- FSE ----
    let mut k = 0usize;
    for p in PRESETS {
        let bs = fse_config(p).block_size;
        let par = fse_config(p).parallel_blocks.is_some();
        let mut lens = lens_for(1);
        if par && bs <= 4096 { for m in [2usize, 3, 64, 65, 66] { lens.push(bs * m); lens.push(bs * m + 1); if bs * m > 0 { lens.push(bs * m - 1); } } }
        lens.sort(); lens.dedup();
        for len in lens {
            let reps = if len > 5000 { if th { 10 } else { 2 } } else if th { 40 } else { 4 };
            for rep in 0..reps {
                k += 1;
                let kind = k % KINDS;
                let d = payload(r, len, kind);
                fse_case(&mut cx, p, 0, &d, None, None, kind_name(kind), rep == 0);
                if k % 5 == 0 { fse_case(&mut cx, p, 1, &d, None, None, kind_name(kind), false); }
            }
        }
    }
    // convenience functions
    for len in lens_for(1) {
        for kind in [3usize, 6, 8, 11] {
            let d = payload(r, len, kind);
            fse_case(&mut cx, "default", 2, &d, None, None, kind_name(kind), false);
            fse_case(&mut cx, "default", 3, &d, None, None, kind_name(kind), false);
        }
    }
    // the witness family: m x 'a' plus one of every byte value
    for &m in &[5000usize, 100000, 3840, 300] {
        let mut d = vec![b'a'; m]; d.extend(0..=255u8);
        for p in PRESETS { fse_case(&mut cx, p, 0, &d, None, None, "dominant_plus_all_bytes", false); }
        fse_case(&mut cx, "default", 2, &d, None, None, "dominant_plus_all_bytes", false);
    }
    // table reuse: a non-adaptive encoder keeps the table of its first payload (trained on other data)
    for i in 0..(if th { 2000 } else { 60 }) {
        let kind = i % KINDS;
        let len = *r.pick(&[100usize, 101, 150, 1000, 4096]);
        let d = payload(r, len, kind);
        let rel = i % RELS;
        let mut first = training(r, &d, rel);
        if first.len() < 100 && i % 2 == 0 { let extra = payload(r, 120, 3); first.extend(extra); }
        for p in ["realtime", "default"] { fse_case(&mut cx, p, 0, &d, Some(&first), None, &format!("reuse_{}", rel_name(rel)), false); }
    }
    // one decoder object over a sequence of streams: sub-alphabets with equal counts, super-alphabets, repeats, the stored form
    {
        let shuffle = |r: &mut Rng, mut v: Vec<u8>| -> Vec<u8> { for i in (1..v.len()).rev() { let j = r.below(i as u64 + 1) as usize; v.swap(i, j); } v };
        let mk = |r: &mut Rng, spec: &[(u8, usize)]| -> Vec<u8> { let mut v = vec![]; for &(b, n) in spec { v.extend(std::iter::repeat(b).take(n)); } shuffle(r, v) };
        for p in PRESETS {
            let a = mk(r, &[(b'a', 400), (b'b', 300), (b'c', 200), (b'd', 100)]);
            let b = mk(r, &[(b'a', 400), (b'b', 300)]);
            let c = mk(r, &[(b'a', 400), (b'b', 300), (b'c', 200), (b'd', 100), (b'e', 50)]);
            let d2 = mk(r, &[(b'a', 400)]);
            let short = mk(r, &[(b'a', 40), (b'b', 30)]);
            fse_decoder_sequence(&mut cx, p, &[a.clone(), b.clone(), c.clone(), a.clone(), d2.clone(), short.clone(), vec![], b.clone()], "subset_equal_counts");
            fse_decoder_sequence(&mut cx, p, &[c.clone(), a.clone(), b.clone(), d2.clone()], "shrinking_alphabet");
        }
        for i in 0..(if th { 400 } else { 40 }) {
            let n = r.range(2, 6) as usize;
            let bl = *r.pick(&[100usize, 150, 1000, 4096]);
            let base = payload(r, bl, i % KINDS);
            let mut seq = vec![base.clone()];
            for _ in 1..n {
                seq.push(match r.below(4) {
                    0 => { let keep: Vec<u8> = { let mut ks: Vec<u8> = base.clone(); ks.sort(); ks.dedup(); ks.into_iter().filter(|_| r.chance(1, 2)).collect() }; base.iter().cloned().filter(|b| keep.contains(b)).collect() }
                    1 => { let l = *r.pick(&[99usize, 100, 300, 2000]); payload(r, l, (i + 3) % KINDS) }
                    2 => shuffle(r, base.clone()),
                    _ => base[..base.len() / 2].to_vec(),
                });
            }
            fse_decoder_sequence(&mut cx, PRESETS[i % PRESETS.len()], &seq, "random_sequence");
        }
    }
    // dictionary-seeded encoder
    for i in 0..(if th { 600 } else { 24 }) {
        let kind = i % KINDS;
        let len = *r.pick(&[1usize, 99, 100, 101, 1000]);
        let d = payload(r, len, kind);
        let dict = training(r, &d, i % RELS);
        fse_case(&mut cx, if i % 2 == 0 { "high" } else { "default" }, 0, &d, None, Some(&dict), "with_dictionary", false);
    }
    // the presets with their own (large) block sizes
    {
        let d = payload(r, 300 * 1024, 6);
        fse_case(&mut cx, "high", 0, &d, None, None, "high_parallel_300k", false);
    }
    // ---- LZ ----
    let lz_cfgs: [(usize, usize); 6] = [(3, 258), (10, 10), (12, 20), (3, 9), (1, 1000), (11, 258)];
    let mut k = 0usize;
    for which in 0..2u64 {
        for &len in &[0usize, 1, 2, 9, 10, 11, 19, 20, 21, 99, 100, 101, 255, 256, 257, 258, 259, 260, 516, 517, 1000, 4095, 4096, 4097] {
            let reps = if len > 3000 { if th { 4 } else { 2 } } else if th { 40 } else { 4 };
            for _ in 0..reps {
                k += 1;
                let kind = [11usize, 12, 13, 0, 1, 2, 3, 7, 9, 10, 6][k % 11];
                let d = payload(r, len, kind);
                let rel = k % RELS;
                let t = training(r, &d, rel);
                let (mn, mx) = lz_cfgs[(k / 3) % lz_cfgs.len()];
                lz_case(&mut cx, which, mn, mx, 32768, &d, &t, &format!("{}_{}", kind_name(kind), rel_name(rel)), len <= 300);
            }
        }
    }
    // matches of length exactly min / max (+-1), overlapping matches (distance < length), distance 1
    for which in 0..2u64 {
        for &(mn, mx) in &[(3usize, 258usize), (10, 10), (12, 20)] {
            let eff_min = mn.max(10);
            for &l in &[eff_min - 1, eff_min, eff_min + 1, mx - 1, mx, mx + 1, 2 * mx, 2 * mx + 1] {
                // a random block of length l, a separator, and the block again
                let blk = r.bytes(l);
                let mut d = blk.clone(); d.extend_from_slice(b"|"); d.extend_from_slice(&blk); d.push(b'#');
                lz_case(&mut cx, which, mn, mx, 32768, &d, &d.clone(), "repeat_block", true);
                // a run: distance 1, length l (overlapping copy)
                let mut d2 = vec![b'q']; d2.extend(std::iter::repeat(b'z').take(l + 1)); d2.push(b'!');
                lz_case(&mut cx, which, mn, mx, 32768, &d2, &d2.clone(), "run_distance1", which == 0);
                // period 3, overlapping
                let d3: Vec<u8> = (0..l + 3).map(|i| b"abc"[i % 3]).collect();
                lz_case(&mut cx, which, mn, mx, 32768, &d3, &d3.clone(), "period3", which == 0);
                // trained on something else entirely but containing the block
                let mut t = r.bytes(40); t.extend_from_slice(&blk); t.extend(r.bytes(17));
                lz_case(&mut cx, which, mn, mx, 32768, &d, &t, "repeat_block_train_contains_block", false);
            }
        }
    }
    // window distance 32767 / 32768 / 32769: a 16-byte marker, incompressible filler, the marker again
    for &dist in &[32767usize, 32768, 32769] {
        let marker = r.bytes(16);
        let mut d = marker.clone();
        d.extend(r.bytes(dist - 16));
        d.extend_from_slice(&marker);
        d.extend_from_slice(b"tail");
        if th || dist == 32768 { lz_case(&mut cx, 0, 3, 258, 32768, &d, &d.clone(), &format!("window_{}", dist), false); }
        lz_case(&mut cx, 1, 3, 258, 32768, &d, &d.clone(), &format!("window_{}", dist), false);
        let half: Vec<u8> = d[..d.len() / 2].to_vec();
        lz_case(&mut cx, 1, 3, 258, 32768, &d, &half, &format!("window_{}_train_prefix", dist), false);
    }
    // optimized coder: small windows, and long inputs
    for i in 0..(if th { 1200 } else { 40 }) {
        let kind = [11usize, 12, 13, 3, 7][i % 5];
        let len = *r.pick(&[50usize, 300, 2000, 65535, 65536, 65537]);
        let len = if len > 60000 && i % 4 != 0 { 3000 } else { len };
        let d = payload(r, len, kind);
        let t = training(r, &d, i % RELS);
        let w = *r.pick(&[1usize, 10, 11, 100, 32768]);
        lz_case(&mut cx, 1, 3, 258, w, &d, &t, &format!("opt_window{}_{}", w, rel_name(i % RELS)), false);
    }
    if th { let d = payload(r, 65537, 11); lz_case(&mut cx, 0, 3, 258, 32768, &d, &d.clone(), "long_text", false); }

    // ---- entropy::parallel ----
    for &len in &[300usize, 4096, 65535, 65536, 65537, 200000] {
        let d = payload(r, len, 5);
        parallel_case(&mut cx, &d, &format!("alpha256_len{}", len));
    }
    {
        let d = payload(r, 1024 * 1024 + 3, 3);
        parallel_case(&mut cx, &d, "alpha16_1MiB");
        if th { let d = payload(r, 1024 * 1024 + 1, 5); parallel_case(&mut cx, &d, "alpha256_1MiB"); }
    }
}
