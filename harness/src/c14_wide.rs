//! C14, oracle breadth: secondary entry points, presets / non-default options, object reuse, operation
//! histories on shared buffers, big inputs described by (kind, n, seed), enumerations of the small tables.
//! Everything is judged by the dumb references of c14.rs; nothing here is compared with the Coq model.
use super::*;
use zipora::memory::simd_ops::{get_global_simd_ops, SimdMemOps};
use zipora::memory::CacheLayoutConfig;

// ---------------------------------------------------------------------------------------------
// persistent objects: built once per process and reused by every case (state left behind by one call
// is seen by the next)
// ---------------------------------------------------------------------------------------------
pub struct Objs {
    pub mem: SimdMemOps,
    pub mem_clone: SimdMemOps,
    /// SimdMemOps::with_cache_config over every preset and a few hand-made configurations
    pub presets: Vec<(&'static str, SimdMemOps)>,
    pub validator: zipora::io::simd_validation::Utf8Validator, // monitored (feeds the adaptive selector)
    pub bmi2: zipora::string::Bmi2StringProcessor,
    /// the SearchConfig combinations search_configs() of c14.rs does not build
    pub io_search: Vec<(String, zipora::io::simd_memory::SimdStringSearch)>,
    pub hm: zipora::hash_map::SimdStringOps,
}

pub fn cache_presets() -> Vec<(&'static str, CacheLayoutConfig)> {
    let d = CacheLayoutConfig::new();
    vec![
        ("new", CacheLayoutConfig::new()),
        ("default", CacheLayoutConfig::default()),
        ("sequential", CacheLayoutConfig::sequential()),
        ("random", CacheLayoutConfig::random()),
        ("write_heavy", CacheLayoutConfig::write_heavy()),
        ("read_heavy", CacheLayoutConfig::read_heavy()),
        ("no_prefetch", CacheLayoutConfig { enable_prefetch: false, ..d.clone() }),
        ("distance_1", CacheLayoutConfig { prefetch_distance: 1, ..d.clone() }),
        ("distance_0", CacheLayoutConfig { prefetch_distance: 0, ..d.clone() }),
        ("line_32", CacheLayoutConfig { cache_line_size: 32, ..d.clone() }),
        ("line_128", CacheLayoutConfig { cache_line_size: 128, ..d.clone() }),
    ]
}

impl Objs {
    pub fn new() -> Objs {
        use zipora::io::simd_memory::{SearchConfig, SimdStringSearch};
        let mem = SimdMemOps::new();
        let mem_clone = mem.clone();
        let mut io_search = vec![];
        for bits in 0..8u32 {
            let (s, a, z) = (bits & 1 != 0, bits & 2 != 0, bits & 4 != 0);
            // (true,true,true) (true,true,false) (true,false,false) (false,false,false) are in c14.rs
            if (s && a) || (s && !a && !z) || (!s && !a && !z) { continue; }
            io_search.push((format!("sse42={} avx2={} avx512={}", s, a, z),
                SimdStringSearch::with_config(SearchConfig { enable_sse42: s, enable_avx2: a, enable_avx512: z, enable_neon: false })));
        }
        io_search.push(("new()".into(), SimdStringSearch::new()));
        io_search.push(("default()".into(), SimdStringSearch::default()));
        Objs {
            mem, mem_clone,
            presets: cache_presets().into_iter().map(|(n, c)| (n, SimdMemOps::with_cache_config(c))).collect(),
            validator: zipora::io::simd_validation::Utf8Validator::new(),
            bmi2: zipora::string::Bmi2StringProcessor::new(),
            io_search,
            hm: zipora::hash_map::SimdStringOps::new(),
        }
    }
}

// ---------------------------------------------------------------------------------------------
// additions to the existing operations of c14.rs (same case, same references)
// ---------------------------------------------------------------------------------------------
pub fn more_compare(cx: &mut Ctx, cj: &Value, sa: &[u8], sb: &[u8], a: &[u8], b: &[u8]) {
    let o = cx.objs.clone();
    let cell = "memory::simd_ops/compare";
    let want = sign(a.cmp(b));
    check!(cx, cell, cj, isign(o.mem.compare(sa, sb)), want, "sign(reused SimdMemOps::compare)");
    check!(cx, cell, cj, isign(o.mem_clone.compare_cache_optimized(sa, sb)), want, "sign(SimdMemOps::clone().compare_cache_optimized)");
    check!(cx, cell, cj, isign(get_global_simd_ops().compare(sb, sa)), -want, "sign(get_global_simd_ops().compare(b,a))");
    let cellp = "memory::simd_ops/cache_presets";
    cx.sum.eval(cellp, "", false);
    for (name, m) in o.presets.iter() {
        check!(cx, cellp, cj, isign(m.compare_cache_optimized(sa, sb)), want, format!("sign(with_cache_config({}).compare_cache_optimized)", name));
        check!(cx, cellp, cj, isign(m.compare(sb, sa)), -want, format!("sign(with_cache_config({}).compare(b,a))", name));
    }
    let cell2 = "io::simd_memory::search/compare_strings";
    let want_o = a.cmp(b);
    for (name, s) in o.io_search.iter() {
        check!(cx, cell2, cj, s.compare_strings(sa, sb), want_o, format!("SimdStringSearch({}).compare_strings", name));
    }
    let want_sl = if a.len() != b.len() { a.len().cmp(&b.len()) } else { want_o };
    check!(cx, "string::simd_search/sse42_strcmp", cj, zipora::string::get_global_simd_search().sse42_strcmp(sa, sb), want_sl, "get_global_simd_search().sse42_strcmp");
    if let (Ok(s1), Ok(s2)) = (std::str::from_utf8(sa), std::str::from_utf8(sb)) {
        let cell4 = "hash_map::simd_string_ops/fast_string_compare";
        let eq = a == b;
        let pre = o.hm.extract_prefix_simd(s2);
        check!(cx, cell4, cj, o.hm.fast_string_compare(s1, s2, pre), eq, "reused SimdStringOps::fast_string_compare(prefix of b)");
        check!(cx, cell4, cj, o.hm.fast_string_compare(s2, s1, 0), eq, "reused SimdStringOps::fast_string_compare(b,a)");
        check!(cx, cell4, cj, zipora::hash_map::SimdStringOps::default().fast_string_compare(s1, s2, pre), eq, "SimdStringOps::default().fast_string_compare");
    }
}

pub fn more_find_byte(cx: &mut Ctx, cj: &Value, sh: &[u8], h: &[u8], needle: u8) {
    let o = cx.objs.clone();
    let want = h.iter().position(|&b| b == needle);
    let cell = "memory::simd_ops/find_byte";
    check!(cx, cell, cj, o.mem.find_byte(sh, needle), want, "reused SimdMemOps::find_byte");
    check!(cx, cell, cj, o.mem_clone.find_byte(sh, needle), want, "SimdMemOps::clone().find_byte");
    check!(cx, cell, cj, get_global_simd_ops().find_byte(sh, needle), want, "get_global_simd_ops().find_byte");
    check!(cx, cell, cj, o.presets[(h.len() + needle as usize) % o.presets.len()].1.find_byte(sh, needle), want, "with_cache_config(preset).find_byte");
    let cell2 = "io::simd_memory::search/find_char";
    for (name, s) in o.io_search.iter() {
        check!(cx, cell2, cj, s.find_char(sh, needle), want, format!("SimdStringSearch({}).find_char", name));
    }
    check!(cx, "string::simd_search/sse42_strchr", cj, zipora::string::get_global_simd_search().sse42_strchr(sh, needle), want, "get_global_simd_search().sse42_strchr");
    check!(cx, "string::simd_search/sse42_strchr", cj, zipora::string::SimdStringSearch::default().sse42_strchr(sh, needle), want, "SimdStringSearch::default().sse42_strchr");
}

pub fn more_find_sub(cx: &mut Ctx, cj: &Value, sh: &[u8], sn: &[u8], h: &[u8], n: &[u8]) {
    let o = cx.objs.clone();
    let want = ref_find(h, n);
    let cell = "io::simd_memory::search/find_pattern";
    for (name, s) in o.io_search.iter() {
        check!(cx, cell, cj, s.find_pattern(sh, sn), want, format!("SimdStringSearch({}).find_pattern", name));
    }
    if !n.is_empty() {
        check!(cx, "string::simd_search/sse42_strstr", cj, zipora::string::get_global_simd_search().sse42_strstr(sh, sn), want, "get_global_simd_search().sse42_strstr");
    }
    if let (Ok(s1), Ok(s2)) = (std::str::from_utf8(sh), std::str::from_utf8(sn)) {
        let w = s1.find(s2);
        check!(cx, "string::bmi2_string_ops/search", cj, o.bmi2.search_bmi2(s1, s2), w, "reused Bmi2StringProcessor::search_bmi2");
        check!(cx, "string::bmi2_string_ops/search", cj, zipora::string::get_global_bmi2_processor().search_bmi2(s1, s2), w, "get_global_bmi2_processor().search_bmi2");
    }
}

pub fn more_find_any(cx: &mut Ctx, cj: &Value, sh: &[u8], ss: &[u8], h: &[u8], set: &[u8]) {
    let o = cx.objs.clone();
    let want = h.iter().position(|b| set.contains(b));
    let cell = "io::simd_memory::search/find_any_of";
    for (name, s) in o.io_search.iter() {
        check!(cx, cell, cj, s.find_any_of(sh, ss), want, format!("SimdStringSearch({}).find_any_of", name));
    }
    let pos: Vec<usize> = h.iter().enumerate().filter(|(_, b)| set.contains(b)).map(|(i, _)| i).collect();
    check!(cx, "string::simd_search/sse42_multi_search", cj, zipora::string::get_global_simd_search().sse42_multi_search(sh, ss).positions, pos, "get_global_simd_search().sse42_multi_search.positions");
}

/// every copy entry point of SimdMemOps under every cache preset, the cloned and the global object,
/// and the error answers for mismatching lengths
pub fn more_copy(cx: &mut Ctx, cj: &Value, src: &[u8], pl: Place) {
    let o = cx.objs.clone();
    let n = src.len();
    let cellp = "memory::simd_ops/cache_presets";
    cx.sum.eval(cellp, "", false);
    let total = o.presets.len() + 3;
    for which in 0..total {
        let name = if which < o.presets.len() { format!("with_cache_config({}).copy_cache_optimized", o.presets[which].0) }
                   else { ["reused SimdMemOps::copy_nonoverlapping", "SimdMemOps::clone().copy_cache_optimized", "get_global_simd_ops().copy_nonoverlapping"][which - o.presets.len()].to_string() };
        let ss: &[u8] = cx.ra.put(src, pl.a, 0x11);
        let init = vec![0xEEu8; n];
        let sd: &mut [u8] = cx.rd.put(&init, pl.b, 0x77);
        let r = guarded(|| if which < o.presets.len() { o.presets[which].1.copy_cache_optimized(ss, sd).is_ok() }
                           else if which == o.presets.len() { o.mem.copy_nonoverlapping(ss, sd).is_ok() }
                           else if which == o.presets.len() + 1 { o.mem_clone.copy_cache_optimized(ss, sd).is_ok() }
                           else { get_global_simd_ops().copy_nonoverlapping(ss, sd).is_ok() });
        match r {
            Err(p) => cx.fail(cellp, None, cj, format!("{} panicked: {}", name, p)),
            Ok(false) => cx.fail(cellp, None, cj, format!("{} refused a valid non-overlapping copy", name)),
            Ok(true) => {
                if &sd[..] != src {
                    let i = (0..n).find(|&i| sd[i] != src[i]).unwrap();
                    cx.fail(cellp, None, cj, format!("{}: destination differs from source at byte {} of {}", name, i, n));
                } else if !cx.rd.untouched(n, pl.b, 0x77) {
                    cx.fail(cellp, None, cj, format!("{}: bytes outside the destination slice were written", name));
                }
            }
        }
    }
    // mismatching lengths: an error, and nothing is written
    if n >= 1 {
        for which in 0..6 {
            let name = ["copy_nonoverlapping", "copy_cache_optimized", "copy_aligned", "copy_large_simd", "copy_small_simd", "copy_aligned_simd"][which];
            let ss: &[u8] = cx.ra.put(src, pl.a, 0x11);
            let init = vec![0xEEu8; n - 1];
            let sd: &mut [u8] = cx.rd.put(&init, pl.b, 0x77);
            let r = guarded(|| match which {
                0 => o.mem.copy_nonoverlapping(ss, sd).is_ok(), 1 => o.mem.copy_cache_optimized(ss, sd).is_ok(),
                2 => o.mem.copy_aligned(ss, sd).is_ok(), 3 => zipora::io::simd_memory::copy_large_simd(sd, ss).is_ok(),
                4 => zipora::io::simd_memory::copy_small_simd(sd, ss).is_ok(), _ => zipora::io::simd_memory::copy_aligned_simd(sd, ss).is_ok(),
            });
            match r {
                Err(p) => cx.fail(cellp, None, cj, format!("{} with a shorter destination panicked: {}", name, p)),
                Ok(true) => cx.fail(cellp, None, cj, format!("{} accepted a destination one byte shorter than the source", name)),
                Ok(false) => if sd.iter().any(|&x| x != 0xEE) || !cx.rd.untouched(n - 1, pl.b, 0x77) {
                    cx.fail(cellp, None, cj, format!("{} wrote although it refused the copy", name));
                }
            }
        }
    }
}

pub fn more_fill(cx: &mut Ctx, cj: &Value, n: usize, v: u8, pl: Place) {
    let o = cx.objs.clone();
    let cell = "memory::simd_ops/fill";
    for which in 0..4 {
        let init = vec![!v; n];
        let sd: &mut [u8] = cx.rd.put(&init, pl.a, v ^ 0x3C);
        let r = guarded(|| match which {
            0 => o.mem.fill(sd, v), 1 => o.mem_clone.fill(sd, v), 2 => get_global_simd_ops().fill(sd, v),
            _ => o.presets[(n + v as usize) % o.presets.len()].1.fill(sd, v),
        });
        match r {
            Err(p) => cx.fail(cell, None, cj, format!("fill (object {}) panicked: {}", which, p)),
            Ok(()) => {
                if sd.iter().any(|&b| b != v) { cx.fail(cell, None, cj, format!("fill (object {}) left bytes unset", which)); }
                else if !cx.rd.untouched(n, pl.a, v ^ 0x3C) { cx.fail(cell, None, cj, format!("fill (object {}) wrote outside the slice", which)); }
            }
        }
    }
}

fn ref_utf8_len(b: u8) -> usize { if b < 0x80 { 1 } else if b < 0xC0 { 0 } else if b < 0xE0 { 2 } else if b < 0xF0 { 3 } else if b < 0xF8 { 4 } else { 0 } }

pub fn more_utf8(cx: &mut Ctx, cj: &Value, sa: &[u8], a: &[u8]) {
    let o = cx.objs.clone();
    let cell = "io::simd_validation/utf8";
    let std_s = std::str::from_utf8(a).ok();
    let std_ok = std_s.is_some();
    let std_count = std_s.map(|s| s.chars().count());
    use zipora::io::simd_validation::*;
    check!(cx, cell, cj, o.validator.validate_utf8(sa).ok(), Some(std_ok), "reused monitored Utf8Validator::validate_utf8");
    check!(cx, cell, cj, utf8::get_global_validator().validate_utf8(sa).ok(), Some(std_ok), "get_global_validator().validate_utf8");
    check!(cx, cell, cj, Utf8Validator::default().validate_utf8(sa).ok(), Some(std_ok), "Utf8Validator::default().validate_utf8");
    let cell2 = "string::bmi2_string_ops/utf8";
    check!(cx, cell2, cj, o.bmi2.validate_utf8_bmi2(sa), std_ok, "reused Bmi2StringProcessor::validate_utf8_bmi2");
    check!(cx, cell2, cj, zipora::string::get_global_bmi2_processor().count_utf8_chars_bmi2(sa).ok(), std_count, "get_global_bmi2_processor().count_utf8_chars_bmi2");
    check!(cx, cell2, cj, zipora::string::Bmi2StringProcessor::default().count_utf8_chars_bmi2(sa).ok(), std_count, "Bmi2StringProcessor::default().count_utf8_chars_bmi2");
    // string::unicode: forward decoding iterator, lead-byte table, analysis counters
    let cell3 = "string::unicode/decode";
    cx.sum.eval(cell3, "", false);
    use zipora::string::{utf8_byte_count, UnicodeProcessor, Utf8ToUtf32Iterator};
    check!(cx, cell3, cj, sa.iter().map(|&b| utf8_byte_count(b)).collect::<Vec<_>>(), a.iter().map(|&b| ref_utf8_len(b)).collect::<Vec<_>>(), "utf8_byte_count over the input bytes");
    let want_chars: Option<Vec<char>> = std_s.map(|s| s.chars().collect());
    check!(cx, cell3, cj, Utf8ToUtf32Iterator::new(sa).ok().map(|mut it| { let mut v = vec![]; while let Some(c) = it.next_char() { v.push(c); } (v, it.byte_position()) }),
           want_chars.clone().map(|v| (v, a.len())), "Utf8ToUtf32Iterator forward decoding");
    if let Some(s) = std_s {
        let st = unsafe { std::str::from_utf8_unchecked(sa) };
        check!(cx, cell3, cj, zipora::string::utils::unicode_utils::extract_codepoints(st), s.chars().map(|c| c as u32).collect::<Vec<_>>(), "unicode_utils::extract_codepoints");
        check!(cx, cell3, cj, { let an = UnicodeProcessor::new().analyze(st); (an.byte_count, an.char_count, an.ascii_count) },
               (a.len(), s.chars().count(), s.chars().filter(|c| c.is_ascii()).count()), "UnicodeProcessor::analyze (bytes, chars, ascii)");
        check!(cx, cell3, cj, UnicodeProcessor::new().with_normalization(true).process(st).ok(), Some(s.to_string()), "UnicodeProcessor::with_normalization(true).process");
    }
}

pub fn more_crc(cx: &mut Ctx, cj: &Value, sa: &[u8], a: &[u8], init: u32, split: usize) {
    use zipora::io::simd_validation::*;
    let cell = "io::simd_validation/crc32c";
    let want = ref_crc32c(a, init);
    // streaming in many pieces of varying size (history of >= 3 updates), then finalize
    let step = 1 + split % 13;
    check!(cx, cell, cj, { let mut c = init; let mut i = 0; let mut k = 0; let mut ok = true;
             while i < sa.len() { let e = (i + 1 + (step + k) % 17).min(sa.len()); match crc32c_update(c, &sa[i..e]) { Ok(x) => c = x, Err(_) => ok = false } i = e; k += 3; }
             if ok { Some(crc32c_finalize(c)) } else { None } }, Some(!want), "crc32c_update over many pieces + crc32c_finalize");
    if a.len() <= 64 {
        check!(cx, cell, cj, sa.iter().try_fold(init, |c, b| crc32c(std::slice::from_ref(b), c).ok()), Some(want), "crc32c one byte at a time");
    }
    let im = detect_crc32c_impl();
    cx.sum.dist(&format!("crc32c impl {:?} @{}", im, cx.tier));
}

fn ref_b64_decode(t: &[u8], alpha: &[u8; 64], pad: bool) -> Option<Vec<u8>> {
    // lenient symbol decoding, then: accepted iff it is exactly the encoding of the result
    let body: Vec<u8> = t.iter().cloned().filter(|&c| c != b'=').collect();
    let mut bits = 0u32; let mut nb = 0; let mut out = vec![];
    for c in body { let v = alpha.iter().position(|&x| x == c)? as u32; bits = (bits << 6) | v; nb += 6; if nb >= 8 { nb -= 8; out.push((bits >> nb) as u8); bits &= (1 << nb) - 1; } }
    if ref_b64(&out, alpha, pad) == t { Some(out) } else { None }
}

pub fn more_codec(cx: &mut Ctx, cj: &Value, sa: &[u8], a: &[u8]) {
    // hex: exact-size and too-small output buffers
    let cell = "string::hex";
    use zipora::string::*;
    let hl = ref_hex(a, false);
    check!(cx, cell, cj, { let mut o = vec![0u8; 2 * sa.len()]; hex_encode_to_slice(sa, &mut o).ok().map(|n| o[..n].to_vec()) }, Some(hl.clone()), "hex_encode_to_slice(exact buffer)");
    check!(cx, cell, cj, { let mut o = vec![0u8; sa.len()]; hex_decode_to_slice(&hl, &mut o).ok().map(|n| o[..n].to_vec()) }, Some(a.to_vec()), "hex_decode_to_slice(exact buffer)");
    if !a.is_empty() {
        check!(cx, cell, cj, { let mut o = vec![0u8; 2 * sa.len() - 1]; hex_encode_to_slice(sa, &mut o).is_err() }, true, "hex_encode_to_slice(buffer one byte short) is an error");
        check!(cx, cell, cj, { let mut o = vec![0u8; sa.len() - 1]; hex_decode_to_slice(&hl, &mut o).is_err() }, true, "hex_decode_to_slice(buffer one byte short) is an error");
    }
    let rd = ref_hex_decode(a);
    check!(cx, cell, cj, { let mut o = vec![0u8; sa.len() / 2 + 1]; hex_decode_to_slice(sa, &mut o).ok().map(|n| o[..n].to_vec()) }, rd.clone(), "hex_decode_to_slice(arbitrary)");
    // mixed case through the decoder
    let mixed: Vec<u8> = hl.iter().enumerate().map(|(i, &c)| if i % 3 == 0 { c.to_ascii_uppercase() } else { c }).collect();
    check!(cx, cell, cj, hex_decode_bytes(&mixed).ok(), Some(a.to_vec()), "hex_decode_bytes(mixed case)");
    // base64 buffers
    let cell2 = "io::simd_encoding/base64";
    use zipora::io::simd_encoding::*;
    let e = ref_b64(a, B64, true);
    check!(cx, cell2, cj, { let mut o = vec![0u8; e.len()]; encode_base64_to_buffer(sa, &mut o).ok().map(|n| o[..n].to_vec()) }, Some(e.clone()), "encode_base64_to_buffer(exact buffer)");
    check!(cx, cell2, cj, { let mut o = vec![0u8; a.len()]; decode_base64_from_buffer(&e, &mut o).ok().map(|n| o[..n].to_vec()) }, Some(a.to_vec()), "decode_base64_from_buffer(exact buffer)");
    if !a.is_empty() {
        check!(cx, cell2, cj, { let mut o = vec![0u8; e.len() - 1]; encode_base64_to_buffer(sa, &mut o).is_err() }, true, "encode_base64_to_buffer(buffer one byte short) is an error");
        check!(cx, cell2, cj, { let mut o = vec![0u8; a.len() - 1]; decode_base64_from_buffer(&e, &mut o).is_err() }, true, "decode_base64_from_buffer(buffer one byte short) is an error");
    }
    let pads = e.iter().filter(|&&c| c == b'=').count();
    check!(cx, cell2, cj, calculate_decoded_len(e.len()), a.len() + pads, "calculate_decoded_len(padded encoding) = decoded length + padding characters");
    check!(cx, cell2, cj, { let mut o = vec![0u8; a.len() + 3]; decode_base64_from_buffer(sa, &mut o).ok().map(|n| o[..n].to_vec()) }, ref_b64_decode(a, B64, true), "decode_base64_from_buffer(arbitrary)");
    // system::base64: encoder / decoder objects in every configuration; arbitrary text and the encodings
    // of the other configurations through every decoder (accepted iff canonical for that configuration)
    let cell3 = "system::base64";
    use zipora::system::base64::*;
    let cfgs = [(false, true), (false, false), (true, true), (true, false)];
    for (url, pad) in cfgs {
        let alpha = if url { B64URL } else { B64 };
        let mk = || Base64Config { url_safe: url, padding: pad, force_implementation: None };
        let w = ref_b64(a, alpha, pad);
        let ws = String::from_utf8(w.clone()).unwrap();
        check!(cx, cell3, cj, SimdBase64Encoder::with_config(mk()).encode(sa).into_bytes(), w.clone(), format!("SimdBase64Encoder::with_config(url {}, pad {}).encode", url, pad));
        check!(cx, cell3, cj, SimdBase64Decoder::with_config(mk()).decode(&ws).ok(), Some(a.to_vec()), format!("SimdBase64Decoder::with_config(url {}, pad {}).decode", url, pad));
        let dec = SimdBase64Decoder::with_config(mk());
        let codec = AdaptiveBase64::with_config(mk());
        for (u2, p2) in cfgs {
            if (u2, p2) == (url, pad) { continue; }
            let other = ref_b64(a, if u2 { B64URL } else { B64 }, p2);
            let os = String::from_utf8(other.clone()).unwrap();
            let want = ref_b64_decode(&other, alpha, pad);
            check!(cx, cell3, cj, dec.decode(&os).ok(), want.clone(), format!("SimdBase64Decoder(url {}, pad {}).decode(text encoded with url {}, pad {})", url, pad, u2, p2));
            check!(cx, cell3, cj, codec.decode(&os).ok(), want, format!("AdaptiveBase64(url {}, pad {}).decode(text encoded with url {}, pad {})", url, pad, u2, p2));
        }
        if let Ok(s) = std::str::from_utf8(sa) {
            check!(cx, cell3, cj, codec.decode(s).ok(), ref_b64_decode(a, alpha, pad), format!("AdaptiveBase64(url {}, pad {}).decode(arbitrary)", url, pad));
        }
    }
    check!(cx, cell3, cj, AdaptiveBase64::new().encode(sa).into_bytes(), e.clone(), "AdaptiveBase64::new().encode");
    check!(cx, cell3, cj, AdaptiveBase64::default().decode(std::str::from_utf8(&e).unwrap()).ok(), Some(a.to_vec()), "AdaptiveBase64::default().decode");
    check!(cx, cell3, cj, SimdBase64Encoder::default().encode(sa).into_bytes(), e.clone(), "SimdBase64Encoder::default().encode");
    check!(cx, cell3, cj, SimdBase64Decoder::default().decode(std::str::from_utf8(&e).unwrap()).ok(), Some(a.to_vec()), "SimdBase64Decoder::default().decode");
}

// ---------------------------------------------------------------------------------------------
// strings: method forms on the reused processor, run detection on non-ASCII text, histogram /
// entropy analysis, dictionary lookup, byte-class operations on Latin-1 text
// ---------------------------------------------------------------------------------------------
pub fn more_strings(cx: &mut Ctx, cj: &Value, st: &str, a: &[u8], b: &[u8], k: u64) {
    let o = cx.objs.clone();
    let s = std::str::from_utf8(a).unwrap().to_string();
    let cell = "string::bmi2_string_ops/case_hash";
    let p = &o.bmi2;
    check!(cx, cell, cj, p.to_lowercase_ascii_bmi2(st), s.to_ascii_lowercase(), "reused Bmi2StringProcessor::to_lowercase_ascii_bmi2");
    check!(cx, cell, cj, p.to_uppercase_ascii_bmi2(st), s.to_ascii_uppercase(), "reused Bmi2StringProcessor::to_uppercase_ascii_bmi2");
    check!(cx, cell, cj, p.hash_string_bmi2(st, k), zipora::string::get_global_bmi2_processor().hash_string_bmi2(st, k), "reused processor and global processor hash the same");
    // runs are defined on bytes in every tier, so non-ASCII text has a tier-independent answer too
    let runs = scalar_runs_def(a);
    check!(cx, cell, cj, p.detect_runs_bmi2(st).iter().map(|r| (r.character, r.start, r.length)).collect::<Vec<_>>(), runs.clone(), "reused Bmi2StringProcessor::detect_runs_bmi2");
    check!(cx, cell, cj, zipora::string::detect_runs_bmi2(st).iter().map(|r| (r.character, r.start, r.length)).collect::<Vec<_>>(), runs, "string::detect_runs_bmi2");
    if let Ok(pat) = std::str::from_utf8(b) {
        let t: Vec<char> = s.chars().collect();
        let pc: Vec<char> = pat.chars().collect();
        check!(cx, "string::bmi2_string_ops/wildcard", cj, p.wildcard_match_bmi2(st, pat), ref_wild(&t, &pc), "reused Bmi2StringProcessor::wildcard_match_bmi2");
    }
    // histogram counting: byte frequencies, number of distinct bytes, Shannon entropy
    let cellh = "string::bmi2_string_ops/analyze_compression";
    cx.sum.eval(cellh, "", false);
    let mut hist = [0u32; 256];
    for &x in a { hist[x as usize] += 1; }
    let want_freq: BTreeMap<u8, u32> = (0..256usize).filter(|&i| hist[i] > 0).map(|i| (i as u8, hist[i])).collect();
    let want_ent: f64 = want_freq.values().map(|&f| { let q = f as f64 / a.len() as f64; -q * q.log2() }).sum();
    match guarded(|| p.analyze_compression_bmi2(st)) {
        Err(e) => cx.fail(cellh, None, cj, format!("analyze_compression_bmi2 panicked: {}", e)),
        Ok(an) => {
            let got: BTreeMap<u8, u32> = an.char_frequencies.iter().map(|(&c, &f)| (c, f)).collect();
            if got != want_freq || an.unique_chars != want_freq.len() || an.total_chars != a.len() {
                cx.fail(cellh, None, cj, format!("analyze_compression_bmi2 = {} distinct / {} total / {:?}, byte histogram gives {} / {} / {:?}", an.unique_chars, an.total_chars, got, want_freq.len(), a.len(), want_freq));
            } else if !a.is_empty() && ((an.entropy - want_ent).abs() > 1e-9 || (an.estimated_compression_ratio - want_ent / 8.0).abs() > 1e-9) {
                cx.fail(cellh, None, cj, format!("analyze_compression_bmi2 entropy = {}, the histogram gives {}", an.entropy, want_ent));
            }
        }
    }
    // dictionary lookup: every (position, entry) with text[position..] starting with the entry
    let celld = "string::bmi2_string_ops/dictionary_lookup";
    cx.sum.eval(celld, "", false);
    let n = a.len();
    let mut cand: Vec<Vec<u8>> = vec![a[..n.min(3)].to_vec(), a[n / 2..(n / 2 + 9).min(n)].to_vec(), a[n.saturating_sub(8)..].to_vec(), a[n.saturating_sub(11)..].to_vec(),
                                      b"zz-absent-entry".to_vec(), b.to_vec(), [a, b"x"].concat(), a[n / 3..(n / 3 + 16).min(n)].to_vec()];
    if n > 0 { let mut v = a[..n.min(12)].to_vec(); let l = v.len(); v[l - 1] ^= 1; cand.push(v); }
    let entries: Vec<String> = cand.into_iter().filter_map(|v| String::from_utf8(v).ok()).filter(|e| !e.is_empty()).collect();
    let want: Vec<(usize, usize, usize)> = (0..n).flat_map(|i| entries.iter().enumerate().filter(move |(_, e)| a[i..].starts_with(e.as_bytes())).map(move |(j, e)| (i, e.len(), j)).collect::<Vec<_>>()).collect();
    let dict = zipora::string::StringDictionary::new(entries.clone());
    check!(cx, celld, cj, p.dictionary_lookup_bmi2(st, &dict).iter().map(|m| (m.position, m.length, m.dictionary_index)).collect::<Vec<_>>(), want, "dictionary_lookup_bmi2");
    let dict2 = dict.clone();
    for (j, e) in entries.iter().enumerate() {
        let h = e.as_bytes().iter().fold(0u64, |acc, &x| acc.rotate_left(5).wrapping_add(x as u64));
        check!(cx, celld, cj, dict2.lookup_by_hash(h).map(|en| en.hash == h && entries[en.index] == en.text), Some(true), format!("StringDictionary::lookup_by_hash: hash of entry {}", j));
    }
    // byte-class operations: text whose characters are all below U+0100 has one obvious meaning
    // (the class of the code point), whatever the tier
    if s.chars().all(|c| (c as u32) < 0x100) {
        use zipora::string::{CharClass, CharFilter};
        let cellc = "string::bmi2_string_ops/classes";
        let filters = vec![CharFilter::AlphaOnly, CharFilter::AlnumOnly, CharFilter::NoWhitespace, CharFilter::KeepChars(vec![b'a', 0xC3, b'Z']), CharFilter::RemoveChars(vec![b'a', 0xA9, 0xE9])];
        for f in filters {
            let want: String = s.chars().filter(|&c| f.matches_byte(c as u32 as u8)).collect();
            // compared as bytes: a defective tier may hand back a String that is not UTF-8
            check!(cx, cellc, cj, p.filter_chars_bmi2(st, f.clone()).into_bytes(), want.into_bytes(), format!("filter_chars_bmi2 on Latin-1 text: {:?}", f));
            check!(cx, cellc, cj, s.chars().all(|c| f.matches(c) == f.matches_byte(c as u32 as u8)), true, "CharFilter::matches = matches_byte below U+0100");
        }
        let classes = vec![vec![CharClass::Alpha], vec![CharClass::Punct, CharClass::Digit], vec![CharClass::Range(0xA0, 0xFF)], vec![CharClass::Custom(vec![0xC3, b'z'])], vec![CharClass::Alnum, CharClass::Space]];
        for cs in classes {
            let want: Vec<bool> = s.chars().map(|c| cs.iter().any(|cl| cl.matches_byte(c as u32 as u8))).collect();
            check!(cx, cellc, cj, p.char_class_match_bmi2(st, &cs), want, format!("char_class_match_bmi2 on Latin-1 text: {:?}", cs));
            check!(cx, cellc, cj, s.chars().all(|c| cs.iter().all(|cl| cl.matches(c) == cl.matches_byte(c as u32 as u8))), true, "CharClass::matches = matches_byte below U+0100");
        }
    }
}

// ---------------------------------------------------------------------------------------------
// bit helpers: every switch of BitOpsConfig, the with_config constructors of the wrappers, batch
// sizes around the vector threshold, arguments outside the word
// ---------------------------------------------------------------------------------------------
pub fn extra_bitops_configs() -> Vec<(String, zipora::entropy::BitOpsConfig)> {
    use zipora::entropy::BitOpsConfig;
    let d = BitOpsConfig::default();
    vec![
        ("no_avx2".into(), BitOpsConfig { enable_avx2: false, ..d.clone() }),
        ("no_compression_opt".into(), BitOpsConfig { enable_compression_optimizations: false, ..d.clone() }),
        ("no_entropy_accel".into(), BitOpsConfig { enable_entropy_acceleration: false, ..d.clone() }),
        ("no_varlen".into(), BitOpsConfig { enable_variable_length_decoding: false, ..d.clone() }),
    ]
}

/// run for every configuration (the four of c14.rs and the four above)
pub fn more_bits_cfg(cx: &mut Ctx, cj: &Value, name: &str, cfg: &zipora::entropy::BitOpsConfig, x: u64, m: u64, k: u32) {
    use zipora::entropy::bit_ops::{CompressionBmi2Dispatcher, CompressionOperation};
    use zipora::entropy::{BitOps, EntropyBitOps};
    let cell = "entropy::bit_ops";
    let b = BitOps::with_config(cfg.clone());
    let n = |s: &str| format!("BitOps[{}].{}", name, s);
    // batches around the 4-word vector threshold
    let pool = [x, m, !x, x ^ m, x.rotate_left(k % 64), m.rotate_right(7), x & m, x | m, 0, u64::MAX];
    for len in [0usize, 1, 3, 4, 7, 8, 9, 10] {
        check!(cx, cell, cj, b.vectorized_popcount(&pool[..len]), pool[..len].iter().map(|&w| ref_popcnt(w)).collect::<Vec<_>>(), n(&format!("vectorized_popcount: {} words", len)));
    }
    // field lists of every size, the empty one included
    let masks = [m, !m, m >> 1, m.rotate_left(13)];
    for len in 0..=4usize {
        check!(cx, cell, cj, b.parallel_bit_extract_bmi2(x, &masks[..len]), masks[..len].iter().map(|&q| ref_pext(x, q)).collect::<Vec<_>>(), n(&format!("parallel_bit_extract_bmi2: {} masks", len)));
        check!(cx, cell, cj, b.extract_huffman_symbols_bmi2(x, &masks[..len]), masks[..len].iter().map(|&q| ref_pext(x, q) as u32).collect::<Vec<_>>(), n(&format!("extract_huffman_symbols_bmi2: {} masks", len)));
    }
    // variable-length fields: every (start, length), in the word or not; outside is an error in every tier
    let start = if k >= 64 { k % 80 } else { k };
    for len in [0u32, 1, (m % 33) as u32, 31, 32, 33, 64] {
        let want: Option<u32> = if len == 0 || len > 32 || start + len > 64 { None } else { Some(((x >> start) & ((1u64 << len) - 1)) as u32) };
        check!(cx, cell, cj, b.decode_variable_length_bmi2(x, start, len).ok(), want, n(&format!("decode_variable_length_bmi2: start {}, length {}", start, len)));
        let wante: Option<u64> = if len == 0 || len > 32 { None } else { Some((x as u32 as u64) & ((1u64 << len) - 1)) };
        check!(cx, cell, cj, b.encode_variable_length_bmi2(x as u32, len).ok(), wante, n(&format!("encode_variable_length_bmi2: length {}", len)));
    }
    // wrappers built with the same configuration
    let e = EntropyBitOps::with_config(cfg.clone());
    check!(cx, cell, cj, e.reverse_bits32(x as u32), ref_rev(x as u32 as u64, 32) as u32, format!("EntropyBitOps[{}].reverse_bits32", name));
    check!(cx, cell, cj, e.bit_ops().popcount64(x), ref_popcnt(x), format!("EntropyBitOps[{}].bit_ops().popcount64", name));
    let (off, wd) = (1 + k % 15, 1 + (m % 15) as u32);
    if off + wd <= 16 {
        let want = (((x as u16) >> (16 - off - wd)) as u32) & ((1u32 << wd) - 1);
        check!(cx, cell, cj, e.extract_bits(x, off, wd), want, format!("EntropyBitOps[{}].extract_bits", name));
    }
    // pack_bits: value field of `width` bits whose top bit sits `offset` bits below the top of the word
    let (po, pw) = (k % 70, (m % 34) as u32);
    match guarded(|| { let mut s = m; e.pack_bits(&mut s, x as u32, po, pw).map(|_| s).ok() }) {
        Err(p) => cx.fail(cell, None, cj, format!("EntropyBitOps[{}].pack_bits: offset {}, width {}, panicked: {}", name, po, pw, p)),
        Ok(got) => {
            if pw <= 32 && po + pw <= 64 {
                let field = if pw == 0 { 0 } else { ((x as u32 as u64) & ((1u64 << pw) - 1)) << (64 - po - pw) };
                if got != Some(m | field) { cx.fail(cell, None, cj, format!("EntropyBitOps[{}].pack_bits: offset {}, width {}, = {:?}, definition gives {:?}", name, po, pw, got, Some(m | field))); }
            } else if let Some(s) = got {
                if s != m { cx.fail(cell, None, cj, format!("EntropyBitOps[{}].pack_bits: offset {}, width {}, outside the word changed the stream", name, po, pw)); }
            }
        }
    }
    let d = CompressionBmi2Dispatcher::with_config(cfg.clone());
    for (st, ln) in [(start, 1 + (m % 32) as u32), (start, 0), (start, 32), (start, 40), (64, 8), (k, 5)] {
        let want = if st >= 64 || ln == 0 { 0 } else { let l = ln.min(64 - st); ((x >> st) & (if l >= 64 { u64::MAX } else { (1u64 << l) - 1 })) as u32 };
        check!(cx, cell, cj, d.dispatch_entropy_extract(x, st, ln), want, format!("CompressionBmi2Dispatcher[{}].dispatch_entropy_extract: start {}, length {}", name, st, ln));
    }
    for len in [0usize, 1, 4] {
        check!(cx, cell, cj, d.dispatch_variable_length_decode(x, &masks[..len]), masks[..len].iter().map(|&q| ref_pext(x, q) as u32).collect::<Vec<_>>(), format!("CompressionBmi2Dispatcher[{}].dispatch_variable_length_decode: {} masks", name, len));
    }
    let ws = [x, m, 0, u64::MAX, 1, 1 << 63];
    check!(cx, cell, cj, d.dispatch_bit_stream_process(&ws, CompressionOperation::PopCount), ws.iter().map(|&w| ref_popcnt(w) as u64).collect::<Vec<_>>(), format!("CompressionBmi2Dispatcher[{}].dispatch_bit_stream_process(PopCount)", name));
    check!(cx, cell, cj, d.dispatch_bit_stream_process(&ws, CompressionOperation::LeadingZeros), ws.iter().map(|&w| w.leading_zeros() as u64).collect::<Vec<_>>(), format!("CompressionBmi2Dispatcher[{}].dispatch_bit_stream_process(LeadingZeros)", name));
    check!(cx, cell, cj, d.dispatch_bit_stream_process(&ws, CompressionOperation::TrailingZeros), ws.iter().map(|&w| w.trailing_zeros() as u64).collect::<Vec<_>>(), format!("CompressionBmi2Dispatcher[{}].dispatch_bit_stream_process(TrailingZeros)", name));
    check!(cx, cell, cj, d.dispatch_bit_stream_process(&ws[..0], CompressionOperation::BitReverse), Vec::<u64>::new(), format!("CompressionBmi2Dispatcher[{}].dispatch_bit_stream_process(no words)", name));
    check!(cx, cell, cj, d.dispatch_bit_stream_process(&ws, CompressionOperation::BitReverse), ws.iter().map(|&w| ref_rev(w, 64)).collect::<Vec<_>>(), format!("CompressionBmi2Dispatcher[{}].dispatch_bit_stream_process(BitReverse)", name));
}

/// the checks of op_bits that the four extra configurations also need (values and masks inside the word)
pub fn more_bits_core(cx: &mut Ctx, cj: &Value, name: &str, cfg: &zipora::entropy::BitOpsConfig, x: u64, m: u64, k: u32) {
    let cell = "entropy::bit_ops";
    let b = zipora::entropy::BitOps::with_config(cfg.clone());
    let n = |s: &str| format!("BitOps[{}].{}", name, s);
    check!(cx, cell, cj, b.popcount64(x), ref_popcnt(x), n("popcount64"));
    check!(cx, cell, cj, b.popcount32(x as u32), ref_popcnt(x as u32 as u64), n("popcount32"));
    check!(cx, cell, cj, b.parallel_deposit64(x, m), ref_pdep(x, m), n("parallel_deposit64"));
    check!(cx, cell, cj, b.parallel_extract64(x, m), ref_pext(x, m), n("parallel_extract64"));
    check!(cx, cell, cj, b.parallel_deposit32(x as u32, m as u32), ref_pdep(x as u32 as u64, m as u32 as u64) as u32, n("parallel_deposit32"));
    check!(cx, cell, cj, b.parallel_extract32(x as u32, m as u32), ref_pext(x as u32 as u64, m as u32 as u64) as u32, n("parallel_extract32"));
    check!(cx, cell, cj, b.select_bit64(x, k), ref_select(x, k), n("select_bit64"));
    check!(cx, cell, cj, b.select_bit32(x as u32, k), ref_select(x as u32 as u64, k), n("select_bit32"));
    check!(cx, cell, cj, b.reverse_bits64(x), ref_rev(x, 64), n("reverse_bits64"));
    check!(cx, cell, cj, b.reverse_bits32(x as u32), ref_rev(x as u32 as u64, 32) as u32, n("reverse_bits32"));
    check!(cx, cell, cj, b.bit_reverse_bmi2(x), ref_rev(x, 64), n("bit_reverse_bmi2"));
    check!(cx, cell, cj, b.bit_interleaving_bmi2(x as u32, m as u32), ref_pdep(x as u32 as u64, 0x5555_5555_5555_5555) | ref_pdep(m as u32 as u64, 0xAAAA_AAAA_AAAA_AAAA), n("bit_interleaving_bmi2"));
    check!(cx, cell, cj, b.decode_rans_symbols_bmi2(x, m), ref_pext(x, m) as u32, n("decode_rans_symbols_bmi2"));
    check!(cx, cell, cj, b.fse_decode_bmi2(x, m, k), (ref_pext(x, m) as u32).wrapping_add(k), n("fse_decode_bmi2"));
    let z64 = if k >= 64 { x } else { x & ((1u64 << k) - 1) };
    let z32 = if k >= 32 { x as u32 } else { (x as u32) & ((1u32 << k) - 1) };
    check!(cx, cell, cj, (b.zero_high_bits64(x, k), b.zero_high_bits32(x as u32, k)), (z64, z32), n("zero_high_bits64/32"));
    check!(cx, cell, cj, b.trailing_zeros64(x), if x == 0 { 64 } else { x.trailing_zeros() }, n("trailing_zeros64"));
}

// ---------------------------------------------------------------------------------------------
// operation histories on two shared buffers, judged by two shadow Vec<u8>
// ---------------------------------------------------------------------------------------------
fn arg(op: &Value, i: usize) -> usize { op.get(i).and_then(|v| v.as_u64()).unwrap_or(0) as usize }
/// (offset, length) inside a buffer of length l, total for every pair of numbers (replays may be shrunk)
fn rng_in(l: usize, off: usize, len: usize) -> (usize, usize) { let o = off % (l + 1); (o, len % (l - o + 1)) }

pub fn memhist_init(k: u64, la: usize, lb: usize) -> (Vec<u8>, Vec<u8>) {
    let mut r = Rng::new(k ^ 0x9E37_79B9_7F4A_7C15);
    let alpha: &[u8] = match r.below(3) { 0 => b"ab", 1 => &[b'a', b'b', 0x80, 0xFF, 0x00, 0x7F], _ => b"0123456789abcdefABCDEF+/=-_" };
    let a: Vec<u8> = (0..la).map(|_| *r.pick(alpha)).collect();
    let b: Vec<u8> = (0..lb).map(|i| if la > 0 && !r.chance(1, 16) { a[i % la] } else { *r.pick(alpha) }).collect();
    (a, b)
}

pub fn op_memhist(cx: &mut Ctx, c: &Value) {
    let o = cx.objs.clone();
    let cell = "history/memory";
    let la = (c["la"].as_u64().unwrap_or(0) as usize).min(3000);
    let lb = (c["lb"].as_u64().unwrap_or(0) as usize).min(3000);
    let k: u64 = c["k"].as_str().and_then(|s| s.parse().ok()).unwrap_or(0);
    let pl = Place { a: c["pa"].as_u64().unwrap_or(0), b: c["pb"].as_u64().unwrap_or(0) };
    let ops: Vec<Value> = c["ops"].as_array().cloned().unwrap_or_default();
    let cj = json!({"cell": cell, "op": "memhist", "tier": cx.disable, "la": la, "lb": lb, "k": k.to_string(), "pa": pl.a, "pb": pl.b, "ops": ops});
    cx.begin(cell, &cj, ops.len() >= 3);
    let (ia, ib) = memhist_init(k, la, lb);
    let mut sh: [Vec<u8>; 2] = [ia.clone(), ib.clone()];
    let pa: *mut u8 = cx.ra.put(&ia, pl.a, 0xA5).as_mut_ptr();
    let pb: *mut u8 = cx.rb.put(&ib, pl.b, 0x5A).as_mut_ptr();
    let ptr = [pa, pb];
    let lens = [la, lb];
    let rd = |b: usize, off: usize, len: usize| -> &'static [u8] { unsafe { std::slice::from_raw_parts(ptr[b].add(off), len) } };
    let wr = |b: usize, off: usize, len: usize| -> &'static mut [u8] { unsafe { std::slice::from_raw_parts_mut(ptr[b].add(off), len) } };
    let mut crc_real: u32 = 0xFFFF_FFFF;
    let mut crc_fed: Vec<u8> = vec![];
    for (step, op) in ops.iter().enumerate() {
        let code = arg(op, 0);
        let w = arg(op, 1);
        let at = |what: String| format!("step {} {}: {}", step, op, what);
        let mut bad: Option<String> = None;
        match code {
            0 => { // fill
                let b = arg(op, 2) & 1; let (off, len) = rng_in(lens[b], arg(op, 3), arg(op, 4)); let v = arg(op, 5) as u8;
                let d = wr(b, off, len);
                let r = guarded(|| match w % 5 { 0 => o.mem.fill(d, v), 1 => o.mem_clone.fill(d, v), 2 => zipora::memory::fast_fill(d, v), 3 => get_global_simd_ops().fill(d, v), _ => o.presets[w % o.presets.len()].1.fill(d, v) });
                if let Err(p) = r { bad = Some(at(format!("fill panicked: {}", p))); }
                for x in &mut sh[b][off..off + len] { *x = v; }
            }
            1 => { // copy between or inside the buffers
                let sb = arg(op, 2) & 1; let db = arg(op, 4) & 1;
                let (so, l1) = rng_in(lens[sb], arg(op, 3), arg(op, 6)); let (d0, l2) = rng_in(lens[db], arg(op, 5), arg(op, 6));
                let len = l1.min(l2);
                if sb == db && so < d0 + len && d0 < so + len { continue; } // overlapping ranges cannot be expressed in safe Rust
                let s = rd(sb, so, len); let d = wr(db, d0, len);
                let al = (s.as_ptr() as usize) % 64 == 0 && (d.as_ptr() as usize) % 64 == 0;
                if al && len >= 64 { cx.sum.dist("memhist: copy between 64-byte aligned ranges"); }
                let names = ["SimdMemOps::copy_nonoverlapping", "fast_copy", "SimdMemOps::copy_cache_optimized", "fast_copy_cache_optimized", "copy_large_simd", "copy_small_simd / copy_large_simd", "SimdMemOps::copy_aligned (if aligned)", "copy_aligned_simd (if aligned)", "with_cache_config(preset).copy_cache_optimized"];
                let e = w % 12;
                let r = guarded(|| match e {
                    0 => o.mem.copy_nonoverlapping(s, d).is_ok(), 1 => zipora::memory::fast_copy(s, d).is_ok(),
                    2 => o.mem.copy_cache_optimized(s, d).is_ok(), 3 => zipora::memory::fast_copy_cache_optimized(s, d).is_ok(),
                    4 => zipora::io::simd_memory::copy_large_simd(d, s).is_ok(),
                    5 => if len <= 256 { zipora::io::simd_memory::copy_small_simd(d, s).is_ok() } else { zipora::io::simd_memory::copy_large_simd(d, s).is_ok() },
                    6 => if al { o.mem.copy_aligned(s, d).is_ok() } else { o.mem_clone.copy_nonoverlapping(s, d).is_ok() },
                    7 => if al { zipora::io::simd_memory::copy_aligned_simd(d, s).is_ok() } else { zipora::io::simd_memory::copy_large_simd(d, s).is_ok() },
                    _ => o.presets[w % o.presets.len()].1.copy_cache_optimized(s, d).is_ok(),
                });
                match r { Err(p) => bad = Some(at(format!("{} panicked: {}", names[e.min(8)], p))), Ok(false) => bad = Some(at(format!("{} refused a valid copy of {} bytes", names[e.min(8)], len))), Ok(true) => {} }
                let src: Vec<u8> = sh[sb][so..so + len].to_vec();
                sh[db][d0..d0 + len].copy_from_slice(&src);
            }
            2 => { // compare
                let (b1, b2) = (arg(op, 2) & 1, arg(op, 5) & 1);
                let (o1, l1) = rng_in(lens[b1], arg(op, 3), arg(op, 4)); let (o2, l2) = rng_in(lens[b2], arg(op, 6), arg(op, 7));
                let (x, y) = (rd(b1, o1, l1), rd(b2, o2, l2));
                let (wx, wy) = (&sh[b1][o1..o1 + l1], &sh[b2][o2..o2 + l2]);
                let lex = sign(wx.cmp(wy));
                cx.sum.dist(if lex == 0 { "memhist: compare equal" } else if l1.min(l2) >= 16 && wx[..16.min(l1)] == wy[..16.min(l2)] { "memhist: compare differs after >= 16 equal bytes" } else { "memhist: compare differs early" });
                let e = w % 9;
                let want = if e == 5 { if l1 != l2 { sign(l1.cmp(&l2)) } else { lex } } else { lex };
                let r = guarded(|| match e {
                    0 => isign(o.mem.compare(x, y)), 1 => isign(zipora::memory::fast_compare(x, y)), 2 => isign(zipora::memory::fast_compare_cache_optimized(x, y)),
                    3 => sign(zipora::io::simd_memory::compare_strings(x, y)), 4 => sign(o.io_search[w % o.io_search.len()].1.compare_strings(x, y)),
                    5 => sign(zipora::string::sse42_strcmp(x, y)), 6 => isign(o.mem_clone.compare_cache_optimized(x, y)),
                    _ => isign(o.presets[w % o.presets.len()].1.compare_cache_optimized(x, y)),
                });
                match r { Err(p) => bad = Some(at(format!("compare (entry {}) panicked: {}", e, p))), Ok(g) => if g != want { bad = Some(at(format!("compare (entry {}) has sign {}, the shadow buffers give {}", e, g, want))); } }
            }
            3 => { // find a byte
                let b = arg(op, 2) & 1; let (off, len) = rng_in(lens[b], arg(op, 3), arg(op, 4)); let nd = arg(op, 5) as u8;
                let h = rd(b, off, len);
                let want = sh[b][off..off + len].iter().position(|&x| x == nd);
                let e = w % 8;
                let r = guarded(|| match e {
                    0 => o.mem.find_byte(h, nd), 1 => zipora::memory::fast_find_byte(h, nd), 2 => zipora::io::simd_memory::find_char(h, nd),
                    3 => zipora::string::sse42_strchr(h, nd), 4 => zipora::io::simd_memory::search::sse42_strchr(h, nd),
                    5 => o.presets[w % o.presets.len()].1.find_byte(h, nd), 6 => o.io_search[w % o.io_search.len()].1.find_char(h, nd), _ => o.mem_clone.find_byte(h, nd),
                });
                match r { Err(p) => bad = Some(at(format!("find byte (entry {}) panicked: {}", e, p))), Ok(g) => if g != want { bad = Some(at(format!("find byte (entry {}) = {:?}, the shadow buffer gives {:?}", e, g, want))); } }
            }
            4 => { // find a needle that is itself a range of the buffers
                let (hb, nb) = (arg(op, 2) & 1, arg(op, 5) & 1);
                let (ho, hl) = rng_in(lens[hb], arg(op, 3), arg(op, 4)); let (no, nl0) = rng_in(lens[nb], arg(op, 6), arg(op, 7));
                let nl = nl0.min(48);
                let (h, n) = (rd(hb, ho, hl), rd(nb, no, nl));
                let (wh, wn) = (&sh[hb][ho..ho + hl], &sh[nb][no..no + nl]);
                let e = w % 6;
                let want = if e == 5 { wh.iter().position(|x| wn.contains(x)) } else { ref_find(wh, wn) };
                if e == 2 && nl == 0 { continue; }
                if nl > 0 && e != 5 { cx.sum.dist(if want.is_some() { "memhist: needle found" } else { "memhist: needle absent" }); }
                let r = guarded(|| match e {
                    0 => zipora::io::simd_memory::find_pattern(h, n), 1 => zipora::io::simd_memory::search::sse42_strstr(h, n), 2 => zipora::string::sse42_strstr(h, n),
                    3 => o.io_search[w % o.io_search.len()].1.find_pattern(h, n), 4 => zipora::io::simd_memory::search::scalar_strstr(h, n),
                    _ => zipora::io::simd_memory::find_any_of(h, n),
                });
                match r { Err(p) => bad = Some(at(format!("search (entry {}) panicked: {}", e, p))), Ok(g) => if g != want { bad = Some(at(format!("search (entry {}) = {:?}, the shadow buffers give {:?}", e, g, want))); } }
            }
            5 => { // running CRC over a range
                let b = arg(op, 2) & 1; let (off, len) = rng_in(lens[b], arg(op, 3), arg(op, 4));
                match guarded(|| zipora::io::simd_validation::crc32c_update(crc_real, rd(b, off, len)).ok()) {
                    Ok(Some(x)) => crc_real = x, other => bad = Some(at(format!("crc32c_update failed: {:?}", other))),
                }
                crc_fed.extend_from_slice(&sh[b][off..off + len]);
                if crc_real != ref_crc32c(&crc_fed, 0xFFFF_FFFF) && bad.is_none() { bad = Some(at(format!("running crc32c_update = {:#x} after {} bytes, the definition gives {:#x}", crc_real, crc_fed.len(), ref_crc32c(&crc_fed, 0xFFFF_FFFF)))); crc_real = ref_crc32c(&crc_fed, 0xFFFF_FFFF); }
            }
            6 => { // finish the running CRC, compare with the one-shot hash of everything fed, start over
                let fin = zipora::io::simd_validation::crc32c_finalize(crc_real);
                match guarded(|| zipora::io::simd_validation::crc32c_hash(&crc_fed).ok()) {
                    Ok(Some(h)) => if h != fin || fin != !ref_crc32c(&crc_fed, 0xFFFF_FFFF) { bad = Some(at(format!("crc32c_finalize(running) = {:#x}, crc32c_hash(all) = {:#x}, definition {:#x}", fin, h, !ref_crc32c(&crc_fed, 0xFFFF_FFFF)))); },
                    other => bad = Some(at(format!("crc32c_hash failed: {:?}", other))),
                }
                crc_real = 0xFFFF_FFFF; crc_fed.clear();
            }
            7 => { // UTF-8 verdict / count / hash of a range
                let b = arg(op, 2) & 1; let (off, len) = rng_in(lens[b], arg(op, 3), arg(op, 4));
                let x = rd(b, off, len); let wx = &sh[b][off..off + len];
                let st = std::str::from_utf8(wx).ok();
                let e = w % 6;
                let r = guarded(|| match e {
                    0 => o.validator.validate_utf8(x).ok() == Some(st.is_some()), 1 => zipora::io::simd_validation::is_valid_utf8(x) == st.is_some(),
                    2 => zipora::string::count_utf8_chars_bmi2(x).ok() == st.map(|s| s.chars().count()), 3 => zipora::string::validate_utf8_and_count_chars(x).ok() == st.map(|s| s.chars().count()),
                    4 => o.bmi2.extract_utf8_chars_bmi2(x).ok() == st.map(|s| s.chars().map(|c| c as u32).collect::<Vec<_>>()),
                    _ => match st { None => true, Some(s) => {
                        let mut h = w as u64; let mut it = wx.chunks_exact(8);
                        for q in &mut it { h = h.rotate_left(5).wrapping_add(u64::from_le_bytes(q.try_into().unwrap())); }
                        for &q in it.remainder() { h = h.rotate_left(5).wrapping_add(q as u64); }
                        let _ = s; o.hm.fast_string_hash(unsafe { std::str::from_utf8_unchecked(x) }, w as u64) == h } },
                });
                match r { Err(p) => bad = Some(at(format!("UTF-8 operation (entry {}) panicked: {}", e, p))), Ok(false) => bad = Some(at(format!("UTF-8 operation (entry {}) disagrees with std on the shadow buffer", e))), Ok(true) => {} }
            }
            8 | 10 => { // encode a range into the other place: hex (8) / Base64 (10)
                let sb = arg(op, 2) & 1; let db = arg(op, 5) & 1;
                let (so, sl0) = rng_in(lens[sb], arg(op, 3), arg(op, 4));
                let d0 = arg(op, 6) % (lens[db] + 1);
                let room = lens[db] - d0;
                let sl = if code == 8 { sl0.min(room / 2) } else { sl0.min(room / 4 * 3) };
                let enc = if code == 8 { ref_hex(&sh[sb][so..so + sl], false) } else { ref_b64(&sh[sb][so..so + sl], B64, true) };
                if sb == db && so < d0 + enc.len() && d0 < so + sl { continue; }
                let (s, d) = (rd(sb, so, sl), wr(db, d0, enc.len()));
                let r = guarded(|| if code == 8 { zipora::string::hex_encode_to_slice(s, d).ok() } else { zipora::io::simd_encoding::encode_base64_to_buffer(s, d).ok() });
                if r != Ok(Some(enc.len())) { bad = Some(at(format!("encode into an exact buffer = {:?}, expected Ok({})", r, enc.len()))); }
                sh[db][d0..d0 + enc.len()].copy_from_slice(&enc);
            }
            9 | 11 => { // decode a range into the other place: hex (9) / Base64 (11)
                let sb = arg(op, 2) & 1; let db = arg(op, 5) & 1;
                let (so, sl) = rng_in(lens[sb], arg(op, 3), arg(op, 4));
                let d0 = arg(op, 6) % (lens[db] + 1);
                let text = sh[sb][so..so + sl].to_vec();
                let dec = if code == 9 { ref_hex_decode(&text) } else { ref_b64_decode(&text, B64, true) };
                let cap = if code == 9 { sl / 2 } else { sl / 4 * 3 };
                if cap > lens[db] - d0 { continue; }
                if sb == db && so < d0 + cap && d0 < so + sl { continue; }
                let (s, d) = (rd(sb, so, sl), wr(db, d0, cap));
                let r = guarded(|| if code == 9 { zipora::string::hex_decode_to_slice(s, d).ok() } else { zipora::io::simd_encoding::decode_base64_from_buffer(s, d).ok() });
                match (&r, &dec) {
                    (Ok(Some(n)), Some(y)) if *n == y.len() => {
                        // only the first n bytes of the output slice are constrained; the rest of the slice handed over is scratch
                        let cur = rd(db, d0, cap).to_vec(); sh[db][d0..d0 + cap].copy_from_slice(&cur);
                        sh[db][d0..d0 + y.len()].copy_from_slice(y); if !y.is_empty() { cx.sum.dist("memhist: decode of encoded text accepted"); } }
                    (Ok(None), None) => { cx.sum.dist("memhist: decode refused"); let cur = rd(db, d0, cap).to_vec(); sh[db][d0..d0 + cap].copy_from_slice(&cur); } // a refused decode may leave a partial result in its own output range
                    _ => { bad = Some(at(format!("decode = {:?}, the definition gives {:?}", r, dec.as_ref().map(|y| y.len())))); let cur = rd(db, d0, cap).to_vec(); sh[db][d0..d0 + cap].copy_from_slice(&cur); }
                }
            }
            12 => { // prefetch hints over a range: advisory, must neither fault nor change anything
                use zipora::memory::PrefetchHint;
                let b = arg(op, 2) & 1; let (off, len) = rng_in(lens[b], arg(op, 3), arg(op, 4));
                let x = rd(b, off, len);
                let hint = [PrefetchHint::T0, PrefetchHint::T1, PrefetchHint::T2, PrefetchHint::NTA][w % 4];
                let r = guarded(|| {
                    zipora::memory::fast_prefetch_range(x); zipora::memory::fast_prefetch(x, hint);
                    let m = &o.presets[w % o.presets.len()].1;
                    m.prefetch_range(x); if len > 0 { m.prefetch(x.as_ptr(), hint); o.mem.prefetch(unsafe { x.as_ptr().add(len - 1) }, hint); }
                });
                if let Err(p) = r { bad = Some(at(format!("prefetch panicked: {}", p))); }
            }
            _ => {}
        }
        // the buffers must equal their shadows and nothing around them may have been touched
        if bad.is_none() {
            for b in 0..2 {
                let cur = rd(b, 0, lens[b]);
                if cur != &sh[b][..] {
                    let i = (0..lens[b]).find(|&i| cur[i] != sh[b][i]).unwrap();
                    bad = Some(at(format!("buffer {} differs from its shadow at byte {} ({} instead of {})", b, i, cur[i], sh[b][i])));
                    break;
                }
            }
            if bad.is_none() && (!cx.ra.untouched(la, pl.a, 0xA5) || !cx.rb.untouched(lb, pl.b, 0x5A)) { bad = Some(at("bytes outside the buffers were written".into())); }
        }
        if let Some(d) = bad { cx.failc(cell, None, &cj, &d); return; }
    }
}

pub fn gen_memhist(cx: &mut Ctx, r: &mut Rng, count: usize) {
    let lens_pool = [0usize, 1, 15, 16, 17, 31, 32, 33, 63, 64, 65, 100, 127, 128, 129, 255, 256, 257, 300, 511, 512, 513];
    for i in 0..count {
        let la = *r.pick(&[17usize, 64, 130, 257, 300, 520, 700, 1100]) + r.below(3) as usize;
        let lb = if r.chance(1, 2) { la } else { *r.pick(&[33usize, 128, 260, 515, 640, 1030]) };
        let nops = 6 + r.below(12) as usize;
        let mut ops: Vec<Value> = vec![];
        let mut off = |r: &mut Rng, l: usize| -> usize { match r.below(5) { 0 => 0, 1 => (r.below((l / 64 + 1) as u64) as usize) * 64, 2 => (r.below((l / 16 + 1) as u64) as usize) * 16, 3 => l.saturating_sub(*r.pick(&lens_pool)), _ => r.below(l as u64 + 1) as usize } };
        let ln = |r: &mut Rng, l: usize| -> usize { if r.chance(2, 3) { *r.pick(&lens_pool) } else { r.below(l as u64 + 1) as usize } };
        for _ in 0..nops {
            let w = r.below(60) as usize;
            let code = *r.pick(&[0usize, 0, 1, 1, 1, 1, 2, 2, 2, 3, 3, 4, 4, 5, 5, 6, 7, 8, 9, 10, 11, 12]);
            let (b1, b2) = (r.below(2) as usize, r.below(2) as usize);
            let (l1, l2) = (if b1 == 0 { la } else { lb }, if b2 == 0 { la } else { lb });
            let op = match code {
                0 => json!([0, w, b1, off(r, l1), ln(r, l1), *r.pick(&[0u8, b'a', 0x80, 0xFF, b'=']) ]),
                1 => json!([1, w, b1, off(r, l1), b2, off(r, l2), ln(r, l1.min(l2))]),
                2 => { let o1 = off(r, l1); let n1 = ln(r, l1); let same = r.chance(2, 3); json!([2, w, b1, o1, n1, b2, if same { o1 } else { off(r, l2) }, if r.chance(1, 2) { n1 } else { n1 + 1 }]) }
                3 => json!([3, w, b1, off(r, l1), ln(r, l1), *r.pick(&[b'a', b'b', 0x80u8, 0xFF, 0, b'=', b'x'])]),
                4 => json!([4, w, b1, off(r, l1), ln(r, l1), b2, off(r, l2), *r.pick(&[1usize, 2, 3, 8, 15, 16, 17, 31, 32, 33, 40])]),
                5 | 12 => json!([code, w, b1, off(r, l1), ln(r, l1)]),
                6 => json!([6, w]),
                7 => json!([7, w, b1, off(r, l1), ln(r, l1)]),
                8 | 10 => json!([code, w, b1, off(r, l1), *r.pick(&[1usize, 2, 3, 16, 31, 33, 48, 64, 100]), b2, off(r, l2)]),
                _ => json!([code, w, b1, off(r, l1), *r.pick(&[4usize, 8, 32, 44, 64, 88, 128, 136]), b2, off(r, l2)]),
            };
            // an encode is usually followed by the decode of exactly what it wrote (into a third place)
            let follow = if (code == 8 || code == 10) && r.chance(3, 4) {
                let sl = arg(&op, 4); let enc = if code == 8 { 2 * sl } else { (sl + 2) / 3 * 4 };
                Some(json!([code + 1, r.below(60), arg(&op, 5), arg(&op, 6), enc, b1, off(r, l1)]))
            } else { None };
            ops.push(op);
            if let Some(f) = follow { if r.chance(1, 2) { ops.push(json!([3, r.below(60), b2, 0, l2, b'='])); } ops.push(f); }
        }
        let pl = if i % 4 == 0 { Place { a: 64, b: 65 } } else { rand_place(r) };
        let c = json!({"cell": "history/memory", "op": "memhist", "tier": cx.disable, "la": la, "lb": lb, "k": r.next().to_string(), "pa": pl.a, "pb": pl.b, "ops": ops});
        op_memhist(cx, &c);
    }
}

// ---------------------------------------------------------------------------------------------
// big inputs, described by (kind, n, seed, pos): the data lives flush against a PROT_NONE page
// ---------------------------------------------------------------------------------------------
struct BigRegion { map: *mut u8, total: usize, data: *mut u8, n: usize }
impl BigRegion {
    fn new(n: usize) -> BigRegion {
        unsafe {
            let pages = (n + PAGE - 1) / PAGE + 1;
            let total = (pages + 2) * PAGE;
            let p = libc::mmap(std::ptr::null_mut(), total, libc::PROT_READ | libc::PROT_WRITE, libc::MAP_PRIVATE | libc::MAP_ANONYMOUS, -1, 0) as *mut u8;
            assert!(p as isize != -1, "mmap");
            libc::mprotect(p as *mut libc::c_void, PAGE, libc::PROT_NONE);
            libc::mprotect(p.add((pages + 1) * PAGE) as *mut libc::c_void, PAGE, libc::PROT_NONE);
            BigRegion { map: p, total, data: p.add((pages + 1) * PAGE - n), n }
        }
    }
    fn with(data: &[u8]) -> BigRegion { let r = BigRegion::new(data.len()); r.slice().copy_from_slice(data); r }
    fn slice(&self) -> &'static mut [u8] { unsafe { std::slice::from_raw_parts_mut(self.data, self.n) } }
}
impl Drop for BigRegion { fn drop(&mut self) { unsafe { libc::munmap(self.map as *mut libc::c_void, self.total); } } }

pub fn op_big(cx: &mut Ctx, c: &Value) {
    let o = cx.objs.clone();
    let kind = c["kind"].as_str().unwrap_or("").to_string();
    let n = (c["n"].as_u64().unwrap_or(0) as usize).min(1 << 22);
    let seed = c["seed"].as_u64().unwrap_or(0);
    let pos = (c["pos"].as_u64().unwrap_or(0) as usize).min(n);
    let cell = "big";
    let cj = json!({"cell": cell, "op": "big", "tier": cx.disable, "kind": kind, "n": n, "seed": seed, "pos": pos});
    cx.begin(cell, &cj, n >= 1 << 16);
    let mut r = Rng::new(seed);
    let data: Vec<u8> = r.bytes(n);
    match kind.as_str() {
        "copy" => {
            let src = BigRegion::with(&data);
            let al = (src.data as usize) % 64 == 0;
            for which in 0..9 {
                if (which == 5 || which == 6) && !al { continue; }
                let dst = BigRegion::with(&vec![0xEE; n]);
                let (s, d): (&[u8], &mut [u8]) = (src.slice(), dst.slice());
                let name = ["SimdMemOps::copy_nonoverlapping", "fast_copy", "copy_cache_optimized", "with_cache_config(sequential).copy_cache_optimized", "copy_large_simd", "copy_aligned", "copy_aligned_simd", "with_cache_config(random).copy_cache_optimized", "fast_copy_cache_optimized"][which];
                let g = guarded(|| match which {
                    0 => o.mem.copy_nonoverlapping(s, d).is_ok(), 1 => zipora::memory::fast_copy(s, d).is_ok(), 2 => o.mem.copy_cache_optimized(s, d).is_ok(),
                    3 => o.presets[2].1.copy_cache_optimized(s, d).is_ok(), 4 => zipora::io::simd_memory::copy_large_simd(d, s).is_ok(),
                    5 => o.mem.copy_aligned(s, d).is_ok(), 6 => zipora::io::simd_memory::copy_aligned_simd(d, s).is_ok(),
                    7 => o.presets[3].1.copy_cache_optimized(s, d).is_ok(), _ => zipora::memory::fast_copy_cache_optimized(s, d).is_ok(),
                });
                match g {
                    Err(p) => cx.fail(cell, None, &cj, format!("{} panicked: {}", name, p)),
                    Ok(false) => cx.fail(cell, None, &cj, format!("{} refused a valid copy", name)),
                    Ok(true) => if d != &data[..] { let i = (0..n).find(|&i| d[i] != data[i]).unwrap(); cx.fail(cell, None, &cj, format!("{}: destination differs from source at byte {} of {}", name, i, n)); }
                }
            }
        }
        "compare" => {
            // b = a with one byte changed at pos (pos == n: b is a without its last byte)
            let mut other = data.clone();
            if pos < n { other[pos] ^= 0x80; } else { other.pop(); }
            let (ra, rb) = (BigRegion::with(&data), BigRegion::with(&other));
            let (x, y): (&[u8], &[u8]) = (ra.slice(), rb.slice());
            let want = sign(data.cmp(&other));
            check!(cx, cell, &cj, isign(o.mem.compare(x, y)), want, "sign(SimdMemOps::compare)");
            check!(cx, cell, &cj, isign(zipora::memory::fast_compare_cache_optimized(y, x)), -want, "sign(fast_compare_cache_optimized(b,a))");
            for (name, m) in o.presets.iter() { check!(cx, cell, &cj, isign(m.compare_cache_optimized(x, y)), want, format!("sign(with_cache_config({}).compare_cache_optimized)", name)); }
            check!(cx, cell, &cj, sign(zipora::io::simd_memory::compare_strings(x, y)), want, "compare_strings");
            check!(cx, cell, &cj, zipora::string::sse42_strcmp(x, y), if x.len() != y.len() { x.len().cmp(&y.len()) } else { data.cmp(&other) }, "string::sse42_strcmp");
            check!(cx, cell, &cj, isign(o.mem.compare(x, x)), 0, "sign(compare(a,a))");
        }
        "find" | "fill" => {
            let needle = 0xA7u8;
            let mut h: Vec<u8> = data.iter().map(|&x| if x == needle { x ^ 1 } else { x }).collect();
            if pos < n { h[pos] = needle; }
            let rh = BigRegion::with(&h);
            let x: &[u8] = rh.slice();
            let want = if pos < n { Some(pos) } else { None };
            if kind == "find" {
                check!(cx, cell, &cj, o.mem.find_byte(x, needle), want, "SimdMemOps::find_byte");
                check!(cx, cell, &cj, zipora::memory::fast_find_byte(x, needle), want, "fast_find_byte");
                check!(cx, cell, &cj, zipora::io::simd_memory::find_char(x, needle), want, "find_char");
                check!(cx, cell, &cj, zipora::string::sse42_strchr(x, needle), want, "string::sse42_strchr");
                check!(cx, cell, &cj, zipora::io::simd_memory::find_any_of(x, &[needle, needle]), want, "find_any_of");
            } else {
                for which in 0..3 {
                    let d = rh.slice();
                    let g = guarded(|| match which { 0 => o.mem.fill(d, needle), 1 => zipora::memory::fast_fill(d, needle), _ => o.presets[4].1.fill(d, needle) });
                    match g { Err(p) => cx.fail(cell, None, &cj, format!("fill panicked: {}", p)), Ok(()) => if d.iter().any(|&b| b != needle) { cx.fail(cell, None, &cj, "fill left bytes unset".into()); } }
                    d.copy_from_slice(&h);
                }
            }
        }
        "crc" => {
            use zipora::io::simd_validation::*;
            let ra = BigRegion::with(&data);
            let x: &[u8] = ra.slice();
            let want = ref_crc32c(&data, 0xFFFF_FFFF);
            check!(cx, cell, &cj, crc32c(x, 0xFFFF_FFFF).ok(), Some(want), "crc32c");
            check!(cx, cell, &cj, crc32c_hash(x).ok(), Some(!want), "crc32c_hash");
            for chunk in [4096usize, 65536, 8191] {
                check!(cx, cell, &cj, x.chunks(chunk).try_fold(0xFFFF_FFFFu32, |c, p| crc32c_update(c, p).ok()), Some(want), format!("crc32c_update: in chunks of {}", chunk));
            }
        }
        "utf8" => {
            // printable ASCII with one multi-byte piece ending at pos (kept valid), then the same cut in the middle of the piece
            let mut t: Vec<u8> = data.iter().map(|&b| b' ' + b % 90).collect();
            let piece = "€𝄞é".as_bytes();
            if pos >= piece.len() { t[pos - piece.len()..pos].copy_from_slice(piece); }
            for cut in [0usize, 1] {
                if cut == 1 { if pos >= 1 { t[pos - 1] = b'x'; } else { continue; } }
                let ra = BigRegion::with(&t);
                let x: &[u8] = ra.slice();
                let st = std::str::from_utf8(&t).ok();
                let cnt = st.map(|s| s.chars().count());
                check!(cx, cell, &cj, zipora::io::simd_validation::validate_utf8(x).ok(), Some(st.is_some()), "validate_utf8");
                check!(cx, cell, &cj, o.validator.validate_utf8(x).ok(), Some(st.is_some()), "reused Utf8Validator::validate_utf8");
                check!(cx, cell, &cj, zipora::string::validate_utf8_bmi2(x), st.is_some(), "validate_utf8_bmi2");
                check!(cx, cell, &cj, zipora::string::count_utf8_chars_bmi2(x).ok(), cnt, "count_utf8_chars_bmi2");
                check!(cx, cell, &cj, zipora::string::validate_utf8_and_count_chars(x).ok(), cnt, "validate_utf8_and_count_chars");
                check!(cx, cell, &cj, o.bmi2.extract_utf8_chars_bmi2(x).ok().map(|v| v.len()), cnt, "extract_utf8_chars_bmi2 (number of characters)");
            }
        }
        "codec" => {
            let ra = BigRegion::with(&data);
            let x: &[u8] = ra.slice();
            let hl = ref_hex(&data, false);
            check!(cx, cell, &cj, zipora::string::hex_encode(x).into_bytes() == hl, true, "hex_encode");
            check!(cx, cell, &cj, zipora::string::hex_decode_bytes(&hl).ok().as_deref() == Some(&data[..]), true, "hex_decode_bytes(hex_encode x)");
            let e = ref_b64(&data, B64, true);
            let es = String::from_utf8(e.clone()).unwrap();
            check!(cx, cell, &cj, zipora::io::simd_encoding::encode_base64(x).ok().map(|s| s.into_bytes() == e), Some(true), "encode_base64");
            check!(cx, cell, &cj, zipora::io::simd_encoding::decode_base64(&es).ok().as_deref() == Some(&data[..]), true, "decode_base64");
            check!(cx, cell, &cj, zipora::system::base64::base64_encode_simd(x).into_bytes() == e, true, "base64_encode_simd");
            use zipora::system::base64::*;
            let cdc = AdaptiveBase64::with_config(Base64Config { url_safe: true, padding: false, force_implementation: Some(SimdImplementation::AVX2) });
            let w = ref_b64(&data, B64URL, false);
            check!(cx, cell, &cj, cdc.encode(x).into_bytes() == w, true, "AdaptiveBase64(url, no pad).encode");
            check!(cx, cell, &cj, cdc.decode(std::str::from_utf8(&w).unwrap()).ok().as_deref() == Some(&data[..]), true, "AdaptiveBase64(url, no pad).decode");
        }
        "hash" => {
            let t: Vec<u8> = data.iter().map(|&b| b' ' + b % 90).collect();
            let ra = BigRegion::with(&t);
            let st = unsafe { std::str::from_utf8_unchecked(ra.slice()) };
            let mut h = seed; let mut h2 = seed;
            for ch in t.chunks(8) {
                if ch.len() == 8 { let wv = u64::from_le_bytes(ch.try_into().unwrap()); h = h.rotate_left(5).wrapping_add(wv); h2 = h2.rotate_left(5).wrapping_add(wv); h2 ^= (h2 >> 13) & ((1u64 << 19) - 1); }
                else { for &q in ch { h = h.rotate_left(5).wrapping_add(q as u64); h2 = h2.rotate_left(5).wrapping_add(q as u64); } }
            }
            check!(cx, cell, &cj, o.hm.fast_string_hash(st, seed), h, "fast_string_hash");
            check!(cx, cell, &cj, o.bmi2.hash_string_bmi2(st, seed), h2, "hash_string_bmi2");
            let mut other = t.clone(); if pos < n { other[pos] ^= 1; }
            let rb = BigRegion::with(&other);
            let st2 = unsafe { std::str::from_utf8_unchecked(rb.slice()) };
            check!(cx, cell, &cj, o.hm.fast_string_compare(st, st2, o.hm.extract_prefix_simd(st2)), t == other, "fast_string_compare");
            check!(cx, cell, &cj, o.bmi2.compare_bulk_bmi2(&[(st, st2), (st, st), (st2, st), (st2, st2)]), vec![t == other, true, t == other, true], "compare_bulk_bmi2");
            check!(cx, cell, &cj, o.bmi2.to_uppercase_ascii_bmi2(st).into_bytes() == t.to_ascii_uppercase(), true, "to_uppercase_ascii_bmi2");
            let mut hist = [0u32; 256]; for &q in &t { hist[q as usize] += 1; }
            check!(cx, cell, &cj, { let an = o.bmi2.analyze_compression_bmi2(st); (0..256usize).all(|i| an.char_frequencies.get(&(i as u8)).copied().unwrap_or(0) == hist[i]) && an.total_chars == n }, true, "analyze_compression_bmi2 frequencies");
        }
        "sub" => {
            // two-letter haystack, the needle (length seed % 41 + 1, ending in a third letter) occurs once, ending at pos
            let m = (seed % 41) as usize + 1;
            let mut h: Vec<u8> = data.iter().map(|&b| b'a' + (b & 1)).collect();
            let mut needle: Vec<u8> = (0..m).map(|i| b'a' + ((seed >> (i % 60)) & 1) as u8).collect();
            needle[m - 1] = b'c';
            let want = if pos >= m && pos <= n { h[pos - m..pos].copy_from_slice(&needle); Some(pos - m) } else { None };
            let (rh, rn) = (BigRegion::with(&h), BigRegion::with(&needle));
            let (x, y): (&[u8], &[u8]) = (rh.slice(), rn.slice());
            check!(cx, cell, &cj, zipora::io::simd_memory::find_pattern(x, y), want, "find_pattern");
            check!(cx, cell, &cj, zipora::io::simd_memory::search::sse42_strstr(x, y), want, "search::sse42_strstr");
            check!(cx, cell, &cj, zipora::string::sse42_strstr(x, y), want, "string::sse42_strstr");
            check!(cx, cell, &cj, zipora::string::search_string_bmi2(unsafe { std::str::from_utf8_unchecked(x) }, unsafe { std::str::from_utf8_unchecked(y) }), want, "search_string_bmi2");
            check!(cx, cell, &cj, zipora::io::simd_memory::find_any_of(x, b"cde"), want.map(|p| p + m - 1), "find_any_of");
            check!(cx, cell, &cj, zipora::string::sse42_multi_search(x, b"cde").positions, want.map(|p| vec![p + m - 1]).unwrap_or_default(), "string::sse42_multi_search");
        }
        _ => {}
    }
}

// ---------------------------------------------------------------------------------------------
// the UTF-8 cursor of string::unicode under a history of moves
// ---------------------------------------------------------------------------------------------
pub fn op_utf8iter(cx: &mut Ctx, c: &Value) {
    let a = get_bytes(&c["a"]);
    let ops: Vec<u64> = c["ops"].as_array().map(|v| v.iter().map(|x| x.as_u64().unwrap_or(0)).collect()).unwrap_or_default();
    let cell = "string::unicode/cursor";
    let cj = json!({"cell": cell, "op": "utf8iter", "tier": cx.disable, "a": a, "ops": ops});
    cx.begin(cell, &cj, a.len() >= 4 && ops.len() >= 3);
    let sa: &[u8] = cx.ra.put(&a, 64, 0x80);
    let chars: Option<Vec<char>> = std::str::from_utf8(&a).ok().map(|s| s.chars().collect());
    let it = guarded(|| zipora::string::Utf8ToUtf32Iterator::new(sa).ok());
    let mut it = match (it, &chars) {
        (Err(p), _) => { cx.fail(cell, None, &cj, format!("Utf8ToUtf32Iterator::new panicked: {}", p)); return; }
        (Ok(None), None) => return,
        (Ok(Some(it)), Some(_)) => it,
        (Ok(g), _) => { cx.fail(cell, None, &cj, format!("Utf8ToUtf32Iterator::new accepted = {}, std says valid = {}", g.is_some(), chars.is_some())); return; }
    };
    let chars = chars.unwrap();
    let (mut i, mut cur): (usize, Option<char>) = (0, None);
    for (step, &op) in ops.iter().enumerate() {
        let r = guarded(|| match op % 5 {
            0 => { let w = if i < chars.len() { i += 1; Some(chars[i - 1]) } else { None }; cur = w; (format!("{:?}", it.next_char()), format!("{:?}", w)) }
            1 => { let w = if i > 0 { i -= 1; Some(chars[i]) } else { None }; cur = w; (format!("{:?}", it.prev_char()), format!("{:?}", w)) }
            2 => { it.reset(); i = 0; cur = None; (String::new(), String::new()) }
            3 => (format!("{:?}", it.current()), format!("{:?}", cur)),
            _ => (format!("{}", it.byte_position()), format!("{}", chars[..i].iter().map(|c| c.len_utf8()).sum::<usize>())),
        });
        match r {
            Err(p) => { cx.fail(cell, None, &cj, format!("step {} (op {}) panicked: {}", step, op % 5, p)); return; }
            Ok((g, w)) => if g != w { cx.fail(cell, None, &cj, format!("step {} (op {}: 0 next 1 prev 2 reset 3 current 4 byte_position) = {}, the character list gives {}", step, op % 5, g, w)); return; }
        }
    }
}

// ---------------------------------------------------------------------------------------------
// small tables, enumerated completely
// ---------------------------------------------------------------------------------------------
pub fn op_enum(cx: &mut Ctx, c: &Value) {
    let which = c["which"].as_str().unwrap_or("").to_string();
    let cell = "tables";
    let cj = json!({"cell": cell, "op": "enum", "tier": cx.disable, "which": which});
    cx.begin(cell, &cj, true);
    use zipora::string::*;
    match which.as_str() {
        "hex" => {
            check!(cx, cell, &cj, (0..=255u8).map(hex_char_to_nibble).collect::<Vec<_>>(), (0..=255u8).map(ref_hexval).collect::<Vec<_>>(), "hex_char_to_nibble over all bytes");
            check!(cx, cell, &cj, (0..16u8).map(|v| (nibble_to_hex_lower(v), nibble_to_hex_upper(v))).collect::<Vec<_>>(), (0..16usize).map(|v| (b"0123456789abcdef"[v], b"0123456789ABCDEF"[v])).collect::<Vec<_>>(), "nibble_to_hex_lower/upper");
            check!(cx, cell, &cj, (0..=0xFFFFu32).find(|&p| parse_hex_byte((p >> 8) as u8, p as u8) != ref_hexval((p >> 8) as u8).and_then(|h| ref_hexval(p as u8).map(|l| h * 16 + l))), None, "parse_hex_byte over all pairs (first disagreeing pair)");
            check!(cx, cell, &cj, (0..=255u8).all(|v| { let e = hex_encode(&[v]); hex_decode(&e).ok() == Some(vec![v]) && hex_decode(&e.to_uppercase()).ok() == Some(vec![v]) && is_valid_hex(&e) }), true, "hex_decode(hex_encode [v]) for every byte");
        }
        "utf8len" => {
            check!(cx, cell, &cj, (0..=255u8).map(utf8_byte_count).collect::<Vec<_>>(), (0..=255u8).map(ref_utf8_len).collect::<Vec<_>>(), "utf8_byte_count over all bytes");
            // every scalar value boundary through the count / decode entry points
            for cp in [0u32, 0x7F, 0x80, 0x7FF, 0x800, 0xFFF, 0x1000, 0xD7FF, 0xE000, 0xFFFF, 0x10000, 0x10FFFF] {
                let ch = char::from_u32(cp).unwrap();
                let s: String = std::iter::repeat(ch).take(9).collect();
                check!(cx, cell, &cj, zipora::string::Bmi2StringProcessor::new().extract_utf8_chars_bmi2(s.as_bytes()).ok(), Some(vec![cp; 9]), format!("extract_utf8_chars_bmi2: 9 x U+{:04X}", cp));
                check!(cx, cell, &cj, zipora::string::Bmi2StringProcessor::new().utf8_to_utf16_bmi2(s.as_bytes()).ok(), Some(s.encode_utf16().collect::<Vec<_>>()), format!("utf8_to_utf16_bmi2: 9 x U+{:04X}", cp));
            }
        }
        "b64len" => {
            use zipora::io::simd_encoding::*;
            check!(cx, cell, &cj, (0..400usize).find(|&n| calculate_encoded_len(n) != ref_b64(&vec![0u8; n], B64, true).len()), None, "calculate_encoded_len (first disagreeing length)");
            check!(cx, cell, &cj, (0..400usize).find(|&n| { let e = ref_b64(&vec![0u8; n], B64, true).len(); calculate_decoded_len(e) < n || calculate_decoded_len(e) > n + 2 }), None, "calculate_decoded_len bounds the decoded length (first disagreeing length)");
        }
        "classes" => {
            let all: Vec<u8> = (0..128u8).collect();
            let st = std::str::from_utf8(&all).unwrap();
            let p = zipora::string::Bmi2StringProcessor::new();
            let defs: Vec<(CharClass, fn(u8) -> bool)> = vec![
                (CharClass::Alpha, |b| (b'a'..=b'z').contains(&b) || (b'A'..=b'Z').contains(&b)), (CharClass::Digit, |b| (b'0'..=b'9').contains(&b)),
                (CharClass::Alnum, |b| (b'a'..=b'z').contains(&b) || (b'A'..=b'Z').contains(&b) || (b'0'..=b'9').contains(&b)),
                (CharClass::Space, |b| b == b' ' || b == b'\t' || b == b'\n' || b == b'\r' || b == 0x0C),
                (CharClass::Punct, |b| (33..=47).contains(&b) || (58..=64).contains(&b) || (91..=96).contains(&b) || (123..=126).contains(&b)),
            ];
            for (cl, def) in defs {
                check!(cx, cell, &cj, p.char_class_match_bmi2(st, &[cl.clone()]), all.iter().map(|&b| def(b)).collect::<Vec<_>>(), format!("char_class_match_bmi2 over all ASCII: {:?}", cl));
            }
            check!(cx, cell, &cj, p.to_lowercase_ascii_bmi2(st).into_bytes(), all.iter().map(|&b| if (b'A'..=b'Z').contains(&b) { b + 32 } else { b }).collect::<Vec<_>>(), "to_lowercase_ascii_bmi2 over all ASCII");
            check!(cx, cell, &cj, p.to_uppercase_ascii_bmi2(st).into_bytes(), all.iter().map(|&b| if (b'a'..=b'z').contains(&b) { b - 32 } else { b }).collect::<Vec<_>>(), "to_uppercase_ascii_bmi2 over all ASCII");
        }
        "macros" => {
            // the dispatch macros: the arm taken is the first one whose features the CPU has (std detection)
            let f = |n: &str| -> bool { match n { "avx2" => std::is_x86_feature_detected!("avx2"), "sse2" => std::is_x86_feature_detected!("sse2"), "sse4.2" => std::is_x86_feature_detected!("sse4.2"),
                "bmi2" => std::is_x86_feature_detected!("bmi2"), "popcnt" => std::is_x86_feature_detected!("popcnt"), _ => false } };
            fn d3() -> &'static str { zipora::simd_dispatch!(avx512 => "avx512", avx2 => "avx2", sse2 => "sse2", _ => "scalar") }
            fn d2() -> &'static str { zipora::simd_dispatch!(avx2 => "avx2", sse2 => "sse2", _ => "scalar") }
            fn db() -> &'static str { zipora::simd_dispatch!(avx2_bmi2 => "avx2_bmi2", avx2 => "avx2", _ => "scalar") }
            fn d1() -> &'static str { zipora::simd_dispatch!(avx2 => "avx2", _ => "scalar") }
            fn ds() -> &'static str { zipora::simd_dispatch!(sse42 => "sse42", _ => "scalar") }
            fn dm() -> &'static str { zipora::simd_dispatch!(bmi2 => "bmi2", _ => "scalar") }
            fn dp() -> &'static str { zipora::simd_dispatch!(popcnt => "popcnt", _ => "scalar") }
            fn d6() -> &'static str { zipora::simd_dispatch!(avx512 => "avx512", avx2_bmi2 => "avx2_bmi2", avx2 => "avx2", sse42_bmi2 => "sse42_bmi2", sse42 => "sse42", bmi2 => "bmi2", _ => "scalar") }
            fn c1() -> &'static str { zipora::simd_feature_check!("popcnt", "popcnt", "scalar") }
            fn c2() -> &'static str { zipora::simd_feature_check!("avx2", "bmi2", "avx2+bmi2", "scalar") }
            let first = |opts: &[(&'static str, bool)]| -> &'static str { opts.iter().find(|o| o.1).map(|o| o.0).unwrap_or("scalar") };
            // (the avx512 arms exist only under the nightly `avx512` cargo feature, which the build does not enable)
            check!(cx, cell, &cj, d3(), first(&[("avx2", f("avx2")), ("sse2", f("sse2"))]), "simd_dispatch!(avx512, avx2, sse2, _)");
            check!(cx, cell, &cj, d2(), first(&[("avx2", f("avx2")), ("sse2", f("sse2"))]), "simd_dispatch!(avx2, sse2, _)");
            check!(cx, cell, &cj, db(), first(&[("avx2_bmi2", f("avx2") && f("bmi2")), ("avx2", f("avx2"))]), "simd_dispatch!(avx2_bmi2, avx2, _)");
            check!(cx, cell, &cj, d1(), first(&[("avx2", f("avx2"))]), "simd_dispatch!(avx2, _)");
            check!(cx, cell, &cj, ds(), first(&[("sse42", f("sse4.2"))]), "simd_dispatch!(sse42, _)");
            check!(cx, cell, &cj, dm(), first(&[("bmi2", f("bmi2"))]), "simd_dispatch!(bmi2, _)");
            check!(cx, cell, &cj, dp(), first(&[("popcnt", f("popcnt"))]), "simd_dispatch!(popcnt, _)");
            check!(cx, cell, &cj, d6(), first(&[("avx2_bmi2", f("avx2") && f("bmi2")), ("avx2", f("avx2")), ("sse42_bmi2", f("sse4.2") && f("bmi2")), ("sse42", f("sse4.2")), ("bmi2", f("bmi2"))]), "simd_dispatch!(six tiers)");
            check!(cx, cell, &cj, c1(), first(&[("popcnt", f("popcnt"))]), "simd_feature_check!(one feature)");
            check!(cx, cell, &cj, c2(), first(&[("avx2+bmi2", f("avx2") && f("bmi2"))]), "simd_feature_check!(two features)");
            check!(cx, cell, &cj, zipora::simd_select!(avx2 => "avx2", _ => "scalar"), first(&[("avx2", f("avx2"))]), "simd_select!(avx2, _)");
            check!(cx, cell, &cj, zipora::simd_select!(avx2 => "avx2", sse2 => "sse2", _ => "scalar"), first(&[("avx2", f("avx2")), ("sse2", f("sse2"))]), "simd_select!(avx2, sse2, _)");
            check!(cx, cell, &cj, (zipora::simd_available!("sse4.2"), zipora::simd_available!("avx2", "bmi2")), (f("sse4.2"), f("avx2") && f("bmi2")), "simd_available!");
            // what the objects under test selected in this process (evidence of the tier actually exercised)
            let t = format!("tiers @{}: memops {:?}, io search {:?}, string search {:?}, utf8 {:?}, hash_map {:?}, bmi2 {}", cx.tier, cx.objs.mem.tier(),
                zipora::io::simd_memory::SimdStringSearch::new().tier(), zipora::string::SimdStringSearch::new().tier(), cx.objs.validator.tier(), cx.objs.hm.tier(), cx.objs.bmi2.is_bmi2_available());
            cx.sum.dist(&t);
        }
        _ => {}
    }
}

// ---------------------------------------------------------------------------------------------
// generators of the new families (deterministic, small)
// ---------------------------------------------------------------------------------------------
pub fn generate_wide(cx: &mut Ctx, thorough: bool, r: &mut Rng) {
    for w in ["hex", "utf8len", "b64len", "classes", "macros"] { op_enum(cx, &json!({"which": w})); }
    gen_memhist(cx, r, if thorough { 4000 } else { 400 });
    // cursor histories
    for _ in 0..(if thorough { 2000 } else { 200 }) {
        let n = r.below(40) as usize;
        let a = if r.chance(1, 8) { rand_utf8(r, n) } else { let mut v = vec![]; while v.len() < n { v.extend_from_slice(*r.pick(&UTF8_PIECES[..15])); } v };
        let ops: Vec<u64> = (0..(4 + r.below(40))).map(|_| *r.pick(&[0u64, 0, 0, 1, 1, 2, 3, 3, 4, 4])).collect();
        op_utf8iter(cx, &json!({"a": a, "ops": ops}));
    }
    // big inputs: sizes around 2^16 and 2^20, positions at the ends and across the last vector
    let sizes: &[usize] = if thorough { &[65535, 65536, 65537, 262145, 1 << 20, (1 << 20) + 63] } else { &[65535, 65536, 65537, (1 << 20) + 63] };
    for &n in sizes {
        for kind in ["copy", "compare", "find", "fill", "crc", "utf8", "codec", "hash", "sub"] {
            if (kind == "codec" || kind == "sub") && n > 300000 && !thorough { continue; }
            let poss: Vec<usize> = match kind { "copy" | "fill" | "crc" | "codec" => vec![0], "compare" => vec![n - 1, n, n - 65, 4096], "find" => vec![n - 1, n, n - 64], "utf8" => vec![n, n - 31, 65536.min(n)], "hash" => vec![n - 1, n], _ => vec![n, n - 17, n + 1] };
            for pos in poss { op_big(cx, &json!({"kind": kind, "n": n, "seed": r.next() >> 8, "pos": pos})); }
        }
    }
    // substring search beyond 130 bytes: periodic needles ("aa..ab") whose false starts sit right before the
    // real match, at every offset around the 16-byte windows; needle lengths on both sides of 16 and 32
    for &m in &[2usize, 3, 8, 15, 16, 17, 24, 32, 33, 48] {
        for &n in &[200usize, 255, 256, 257, 1000, 4099] {
            let mut needle = vec![b'a'; m]; needle[m - 1] = b'b';
            for d in 0..(if thorough { 34 } else { 6 }) {
                let p = if thorough { n - m - d } else { n - m - [0usize, 1, 15, 16, 17, 33][d] };
                let mut h = vec![b'a'; n];
                h[p + m - 1] = b'b';
                if d % 2 == 1 { h[n - 1] = b'b'; }
                op_find_sub(cx, &h, &needle, Place { a: 64, b: (d as u64 * 11) % 64 });
                let set: Vec<u8> = (0..(1 + d % 17) as u8).map(|i| b'b' + i).collect();
                op_find_any(cx, &h, &set, Place { a: 64, b: 65 });
            }
        }
    }
    // character sets that contain the zero byte / duplicates, haystacks that contain zero bytes
    for n in [0usize, 1, 15, 16, 17, 31, 32, 33, 64, 100] {
        let h: Vec<u8> = (0..n).map(|i| if i + 1 == n { 0 } else { 1 + (i % 7) as u8 }).collect();
        op_find_any(cx, &h, &[0], Place { a: 64, b: 0 });
        op_find_any(cx, &h, &[9, 9, 0, 9], Place { a: 0, b: 64 });
        op_find_any(cx, &h, &[200, 201], Place { a: 65, b: 64 });
        op_find_byte(cx, &h, 0, Place { a: 64, b: 0 });
    }
}
